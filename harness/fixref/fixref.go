// Package fixref is a minimal FIX tag=value codec written from the protocol
// definition, not from the library under test. It is the trusted base of
// every wire-level oracle in this harness.
package fixref

import (
	"bytes"
	"errors"
	"fmt"
	"strconv"
)

const SOH = 0x01

// Field is one tag=value pair.
type Field struct {
	Tag string
	Val []byte
}

func (f Field) String() string { return f.Tag + "=" + string(f.Val) }

// F is a convenience constructor.
func F(tag string, val string) Field { return Field{Tag: tag, Val: []byte(val)} }

// FramingTags are the tag numbers of the four framing fields.
type FramingTags struct{ Begin, Len, Type, Sum string }

// Std is the usual 8/9/35/10.
var Std = FramingTags{"8", "9", "35", "10"}

// Sum3 is the three-digit checksum text of b.
func Sum3(b []byte) string {
	var s int
	for _, c := range b {
		s += int(c)
	}
	return fmt.Sprintf("%03d", s%256)
}

// Encode builds a correctly framed message: begin, len, type, fields..., sum.
func Encode(ft FramingTags, begin, msgType string, fields []Field) []byte {
	var body bytes.Buffer
	body.WriteString(ft.Type + "=" + msgType)
	body.WriteByte(SOH)
	for _, f := range fields {
		body.WriteString(f.Tag)
		body.WriteByte('=')
		body.Write(f.Val)
		body.WriteByte(SOH)
	}
	var out bytes.Buffer
	out.WriteString(ft.Begin + "=" + begin)
	out.WriteByte(SOH)
	out.WriteString(ft.Len + "=" + strconv.Itoa(body.Len()))
	out.WriteByte(SOH)
	out.Write(body.Bytes())
	sum := Sum3(out.Bytes())
	out.WriteString(ft.Sum + "=" + sum)
	out.WriteByte(SOH)
	return out.Bytes()
}

// EncodeRaw frames an arbitrary pre-built "middle" (everything between the
// BodyLength field's delimiter and the CheckSum field; must end with SOH or be
// empty) with a correct BodyLength and CheckSum.
func EncodeRaw(ft FramingTags, begin string, middle []byte) []byte {
	var out bytes.Buffer
	out.WriteString(ft.Begin + "=" + begin)
	out.WriteByte(SOH)
	out.WriteString(ft.Len + "=" + strconv.Itoa(len(middle)))
	out.WriteByte(SOH)
	out.Write(middle)
	sum := Sum3(out.Bytes())
	out.WriteString(ft.Sum + "=" + sum)
	out.WriteByte(SOH)
	return out.Bytes()
}

// Tokenize splits a byte string into fields. It rejects empty fields, fields
// without '=', empty tags and a missing final SOH. Empty values are reported as
// an error too (FIX forbids them).
func Tokenize(b []byte) ([]Field, error) {
	if len(b) == 0 {
		return nil, errors.New("empty")
	}
	if b[len(b)-1] != SOH {
		return nil, errors.New("no trailing SOH")
	}
	var out []Field
	for len(b) > 0 {
		i := bytes.IndexByte(b, SOH)
		seg := b[:i]
		b = b[i+1:]
		eq := bytes.IndexByte(seg, '=')
		if eq <= 0 {
			return nil, fmt.Errorf("field %q has no tag or no '='", seg)
		}
		if eq == len(seg)-1 {
			return nil, fmt.Errorf("field %q has an empty value", seg)
		}
		out = append(out, Field{Tag: string(seg[:eq]), Val: append([]byte(nil), seg[eq+1:]...)})
	}
	return out, nil
}

// TokenizeLoose is Tokenize but tolerates empty values (used on hostile input
// bookkeeping only, never for verdicts on library output).
func TokenizeLoose(b []byte) ([]Field, error) {
	if len(b) == 0 || b[len(b)-1] != SOH {
		return nil, errors.New("no trailing SOH")
	}
	var out []Field
	for len(b) > 0 {
		i := bytes.IndexByte(b, SOH)
		seg := b[:i]
		b = b[i+1:]
		eq := bytes.IndexByte(seg, '=')
		if eq <= 0 {
			return nil, fmt.Errorf("field %q has no tag or no '='", seg)
		}
		out = append(out, Field{Tag: string(seg[:eq]), Val: append([]byte(nil), seg[eq+1:]...)})
	}
	return out, nil
}

// CheckFrame is the strict frame validator: nil iff b is a single, correctly
// framed FIX message for the given framing tags.
func CheckFrame(ft FramingTags, b []byte) error {
	if len(b) == 0 || b[len(b)-1] != SOH {
		return errors.New("no trailing SOH")
	}
	// split on SOH without interpreting values
	type seg struct {
		start, end int // [start,end) excludes SOH
	}
	var segs []seg
	st := 0
	for i, c := range b {
		if c == SOH {
			segs = append(segs, seg{st, i})
			st = i + 1
		}
	}
	if len(segs) < 4 {
		return fmt.Errorf("only %d fields", len(segs))
	}
	tagOf := func(s seg) (string, []byte, bool) {
		f := b[s.start:s.end]
		eq := bytes.IndexByte(f, '=')
		if eq <= 0 {
			return "", nil, false
		}
		return string(f[:eq]), f[eq+1:], true
	}
	t0, _, ok0 := tagOf(segs[0])
	t1, v1, ok1 := tagOf(segs[1])
	t2, _, ok2 := tagOf(segs[2])
	if !ok0 || !ok1 || !ok2 || t0 != ft.Begin || t1 != ft.Len || t2 != ft.Type {
		return fmt.Errorf("leading fields are %q %q %q", t0, t1, t2)
	}
	last := segs[len(segs)-1]
	tl, vl, okl := tagOf(last)
	if !okl || tl != ft.Sum {
		return fmt.Errorf("last field tag is %q", tl)
	}
	if len(vl) != 3 || !allDigits(vl) {
		return fmt.Errorf("checksum value %q is not three digits", vl)
	}
	if len(v1) == 0 || !allDigits(v1) {
		return fmt.Errorf("body length %q is not a number", v1)
	}
	declared, err := strconv.Atoi(string(v1))
	if err != nil {
		return err
	}
	measured := last.start - (segs[1].end + 1)
	if declared != measured {
		return fmt.Errorf("body length declared %d measured %d", declared, measured)
	}
	if want := Sum3(b[:last.start]); want != string(vl) {
		return fmt.Errorf("checksum declared %s computed %s", vl, want)
	}
	// the CheckSum tag must not appear as a field tag earlier (otherwise a
	// stream reader would cut the message there)
	return nil
}

// ValidFrame reports whether CheckFrame passes.
func ValidFrame(ft FramingTags, b []byte) bool { return CheckFrame(ft, b) == nil }

func allDigits(b []byte) bool {
	for _, c := range b {
		if c < '0' || c > '9' {
			return false
		}
	}
	return true
}

// SplitStream cuts a byte stream into messages: a message ends with the SOH of
// the first field whose tag is exactly sumTag. The remainder (incomplete tail)
// is returned separately.
func SplitStream(sumTag string, b []byte) (msgs [][]byte, rest []byte) {
	start := 0
	fieldStart := 0
	for i, c := range b {
		if c != SOH {
			continue
		}
		f := b[fieldStart:i]
		eq := bytes.IndexByte(f, '=')
		if eq > 0 && string(f[:eq]) == sumTag {
			msgs = append(msgs, append([]byte(nil), b[start:i+1]...))
			start = i + 1
		}
		fieldStart = i + 1
	}
	return msgs, b[start:]
}

// Get returns the value of the first field with the tag.
func Get(fs []Field, tag string) ([]byte, bool) {
	for _, f := range fs {
		if f.Tag == tag {
			return f.Val, true
		}
	}
	return nil, false
}

// GetS is Get as a string ("" when absent).
func GetS(fs []Field, tag string) string {
	v, _ := Get(fs, tag)
	return string(v)
}

// Pretty renders a message with '|' for SOH.
func Pretty(b []byte) string {
	return string(bytes.ReplaceAll(b, []byte{SOH}, []byte{'|'}))
}

// SelfTest checks the codec against a public sample vector and the
// encode/tokenize identity. A failure means the harness is broken.
func SelfTest() error {
	sample := "8=FIX.4.2|9=178|35=8|49=PHLX|56=PERS|52=20071123-05:30:00.000|11=ATOMNOCCC9990900|20=3|150=E|39=E|55=MSFT|167=CS|54=1|38=15|40=2|44=15|58=PHLX EQUITY TESTING|59=0|47=C|32=0|31=0|151=15|14=0|6=0|10=128|"
	b := bytes.ReplaceAll([]byte(sample), []byte{'|'}, []byte{SOH})
	if err := CheckFrame(Std, b); err != nil {
		return fmt.Errorf("sample vector rejected: %v", err)
	}
	fs, err := Tokenize(b)
	if err != nil || len(fs) != 25 {
		return fmt.Errorf("sample vector tokenizes to %d fields, err %v", len(fs), err)
	}
	// re-encode
	re := Encode(Std, "FIX.4.2", "8", fs[3:len(fs)-1])
	if !bytes.Equal(re, b) {
		return errors.New("re-encoding the sample vector differs")
	}
	// a damaged copy must fail
	d := append([]byte(nil), b...)
	d[30] ^= 1
	if ValidFrame(Std, d) {
		return errors.New("damaged sample vector accepted")
	}
	ms, rest := SplitStream("10", append(append([]byte(nil), b...), b[:20]...))
	if len(ms) != 1 || len(rest) != 20 || !bytes.Equal(ms[0], b) {
		return errors.New("SplitStream self-test failed")
	}
	return nil
}
