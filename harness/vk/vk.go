// Package vk is the small kit every property workload ("child") uses to talk
// to the orchestrator: flags, seeded PRNGs, and a result file with measured
// coverage counts, samples and classified violations.
package vk

import (
	"encoding/binary"
	"encoding/json"
	"flag"
	"fmt"
	"hash/fnv"
	"math/rand"
	"os"
	"runtime/debug"
	"sort"
	"sync"
	"time"
)

// Violation is one refuting observation.
type Violation struct {
	Key    string      `json:"key"`    // stable classification key (no spaces)
	Detail string      `json:"detail"` // human readable
	Replay interface{} `json:"replay"` // scenario descriptor sufficient to re-run
}

// Result is what a child writes for the orchestrator.
type Result struct {
	Property           string                 `json:"property"`
	Tier               string                 `json:"tier"`
	Seed               int64                  `json:"seed"`
	Shard              int                    `json:"shard"`
	Evaluations        int64                  `json:"evaluations"`
	DistinctNontrivial int64                  `json:"distinct_nontrivial"`
	Rule               string                 `json:"rule"`
	Samples            []interface{}          `json:"samples"`
	Extra              map[string]interface{} `json:"extra"`
	Counters           map[string]int64       `json:"counters"`
	Sets               map[string][]string    `json:"sets"`
	Violations         []Violation            `json:"violations"`
	ViolationCounts    map[string]int64       `json:"violation_counts"`
	Inconclusive       []string               `json:"inconclusive"`
	Exhaustive         bool                   `json:"exhaustive"`
	Assumptions        []string               `json:"assumptions"`
	WallS              float64                `json:"wall_s"`
	Done               bool                   `json:"done"`
}

// Ctx is the per-child context.
type Ctx struct {
	Property string
	Tier     string
	Seed     int64
	Shard    int
	NShards  int
	Out      string
	Replay   string
	WorkDir  string
	Start    time.Time

	mu       sync.Mutex
	res      Result
	hashes   map[uint64]struct{}
	sets     map[string]map[string]struct{}
	maxSamp  int
	maxViolK int
}

// Init parses the standard child flags.
func Init(property string) *Ctx {
	c := &Ctx{Property: property, Start: time.Now()}
	flag.StringVar(&c.Tier, "tier", "quick", "quick|thorough")
	flag.Int64Var(&c.Seed, "seed", 1, "seed")
	flag.IntVar(&c.Shard, "shard", 0, "shard index")
	flag.IntVar(&c.NShards, "nshards", 1, "number of shards")
	flag.StringVar(&c.Out, "out", "", "result file")
	flag.StringVar(&c.Replay, "replay", "", "replay file")
	flag.StringVar(&c.WorkDir, "work", "", "scratch directory")
	flag.Parse()
	c.hashes = map[uint64]struct{}{}
	c.sets = map[string]map[string]struct{}{}
	c.maxSamp = 6
	c.maxViolK = 5
	c.res = Result{Property: property, Tier: c.Tier, Seed: c.Seed, Shard: c.Shard,
		Extra: map[string]interface{}{}, Counters: map[string]int64{}, ViolationCounts: map[string]int64{}}
	if property != "C11" { // C11 decides on process death itself
		// a panic inside one job (a defect of the harness, or library code panicking where the harness does not expect
		// it) must not take the violations other jobs found down with the process: the run is marked inconclusive
		onJobPanic = func(i int, p interface{}, stack []byte) {
			c.Count("jobs_ended_by_a_panic", 1)
			c.Inconclusive(fmt.Sprintf("job %d ended by a panic: %v\n%s", i, p, Trunc(string(stack), 1500)))
		}
	}
	return c
}

var onJobPanic func(i int, p interface{}, stack []byte)

// Thorough reports whether the thorough tier was requested.
func (c *Ctx) Thorough() bool { return c.Tier == "thorough" }

// Pick returns q for quick and t for thorough.
func (c *Ctx) Pick(q, t int) int {
	if c.Thorough() {
		return t
	}
	return q
}

// Rand returns a PRNG determined by (seed, shard, stream, index).
func (c *Ctx) Rand(stream string, index int64) *rand.Rand {
	h := fnv.New64a()
	var b [8]byte
	binary.LittleEndian.PutUint64(b[:], uint64(c.Seed))
	h.Write(b[:])
	binary.LittleEndian.PutUint64(b[:], uint64(c.Shard))
	h.Write(b[:])
	h.Write([]byte(stream))
	binary.LittleEndian.PutUint64(b[:], uint64(index))
	h.Write(b[:])
	return rand.New(rand.NewSource(int64(mix(h.Sum64()))))
}

func mix(z uint64) uint64 {
	z += 0x9e3779b97f4a7c15
	z = (z ^ (z >> 30)) * 0xbf58476d1ce4e5b9
	z = (z ^ (z >> 27)) * 0x94d049bb133111eb
	return z ^ (z >> 31)
}

// Hash64 hashes strings/bytes to a 64-bit id.
func Hash64(parts ...[]byte) uint64 {
	h := fnv.New64a()
	for _, p := range parts {
		var l [4]byte
		binary.LittleEndian.PutUint32(l[:], uint32(len(p)))
		h.Write(l[:])
		h.Write(p)
	}
	return h.Sum64()
}

// Eval records one evaluation. nontrivial says whether it counts towards
// distinct_nontrivial (together with distinctness of id).
func (c *Ctx) Eval(id uint64, nontrivial bool) {
	c.mu.Lock()
	c.res.Evaluations++
	if nontrivial {
		c.hashes[id] = struct{}{}
	}
	c.mu.Unlock()
}

// EvalN records n evaluations sharing an id prefix (ids must be distinct).
func (c *Ctx) EvalN(n int64) {
	c.mu.Lock()
	c.res.Evaluations += n
	c.mu.Unlock()
}

// Distinct adds an id to the distinct-nontrivial set without counting an evaluation.
func (c *Ctx) Distinct(id uint64) {
	c.mu.Lock()
	c.hashes[id] = struct{}{}
	c.mu.Unlock()
}

// Count adds to a named counter.
func (c *Ctx) Count(name string, n int64) {
	c.mu.Lock()
	c.res.Counters[name] += n
	c.mu.Unlock()
}

// Max keeps the maximum of a named counter.
func (c *Ctx) Max(name string, v int64) {
	c.mu.Lock()
	if cur, ok := c.res.Counters[name]; !ok || v > cur {
		c.res.Counters[name] = v
	}
	c.mu.Unlock()
}

// SetAdd adds a member to a named coverage set (reported sorted, with size).
func (c *Ctx) SetAdd(name, member string) {
	c.mu.Lock()
	m := c.sets[name]
	if m == nil {
		m = map[string]struct{}{}
		c.sets[name] = m
	}
	m[member] = struct{}{}
	c.mu.Unlock()
}

// Sample records an example case (a bounded number are kept).
func (c *Ctx) Sample(s interface{}) {
	c.mu.Lock()
	if len(c.res.Samples) < c.maxSamp {
		c.res.Samples = append(c.res.Samples, s)
	}
	c.mu.Unlock()
}

// WantSample reports whether more samples are wanted (cheap pre-check).
func (c *Ctx) WantSample() bool {
	c.mu.Lock()
	defer c.mu.Unlock()
	return len(c.res.Samples) < c.maxSamp
}

// Violate records a violation (at most a few witnesses per key are kept, all are counted).
func (c *Ctx) Violate(key, detail string, replay interface{}) {
	c.mu.Lock()
	c.res.ViolationCounts[key]++
	if c.res.ViolationCounts[key] <= int64(c.maxViolK) {
		c.res.Violations = append(c.res.Violations, Violation{Key: key, Detail: detail, Replay: replay})
	}
	c.mu.Unlock()
}

// Inconclusive records a reason why (part of) the run decides nothing.
func (c *Ctx) Inconclusive(reason string) {
	c.mu.Lock()
	if len(c.res.Inconclusive) < 50 {
		c.res.Inconclusive = append(c.res.Inconclusive, reason)
	}
	c.mu.Unlock()
}

// Set stores an extra evidence key.
func (c *Ctx) Set(key string, v interface{}) {
	c.mu.Lock()
	c.res.Extra[key] = v
	c.mu.Unlock()
}

// Rule sets the rule text.
func (c *Ctx) Rule(r string) { c.mu.Lock(); c.res.Rule = r; c.mu.Unlock() }

// Assume appends an assumption.
func (c *Ctx) Assume(a string) {
	c.mu.Lock()
	c.res.Assumptions = append(c.res.Assumptions, a)
	c.mu.Unlock()
}

// Exhaustive marks the run as having enumerated a finite space completely.
func (c *Ctx) Exhaustive(b bool) { c.mu.Lock(); c.res.Exhaustive = b; c.mu.Unlock() }

// Flush writes the result file (done=false marks a partial, pre-crash state).
func (c *Ctx) Flush(done bool) {
	c.mu.Lock()
	defer c.mu.Unlock()
	c.res.Done = done
	c.res.DistinctNontrivial = int64(len(c.hashes))
	c.res.WallS = time.Since(c.Start).Seconds()
	c.res.Sets = map[string][]string{}
	for k, m := range c.sets {
		var l []string
		for s := range m {
			l = append(l, s)
		}
		sort.Strings(l)
		c.res.Sets[k] = l
	}
	if c.Out == "" {
		b, _ := json.MarshalIndent(c.res, "", " ")
		fmt.Println(string(b))
		return
	}
	b, err := json.Marshal(c.res)
	if err != nil {
		fmt.Fprintln(os.Stderr, "vk: marshal:", err)
		os.Exit(3)
	}
	tmp := c.Out + ".tmp"
	if err := os.WriteFile(tmp, b, 0o644); err != nil {
		fmt.Fprintln(os.Stderr, "vk: write:", err)
		os.Exit(3)
	}
	os.Rename(tmp, c.Out)
	// hashes for cross-shard distinct counting
	hb := make([]byte, 0, 8*len(c.hashes))
	var x [8]byte
	for h := range c.hashes {
		binary.LittleEndian.PutUint64(x[:], h)
		hb = append(hb, x[:]...)
	}
	os.WriteFile(c.Out+".hashes", hb, 0o644)
}

// Finish flushes with done=true.
func (c *Ctx) Finish() { c.Flush(true) }

// Parallel runs fn(i) for i in [0,n) on w workers.
func Parallel(n, w int, fn func(i int)) {
	if w < 1 {
		w = 1
	}
	var wg sync.WaitGroup
	ch := make(chan int, 256)
	for k := 0; k < w; k++ {
		wg.Add(1)
		go func() {
			defer wg.Done()
			for i := range ch {
				func() {
					if onJobPanic != nil {
						defer func() {
							if p := recover(); p != nil {
								onJobPanic(i, p, debug.Stack())
							}
						}()
					}
					fn(i)
				}()
			}
		}()
	}
	for i := 0; i < n; i++ {
		ch <- i
	}
	close(ch)
	wg.Wait()
}

// Trunc shortens a string for reports.
func Trunc(s string, n int) string {
	if len(s) <= n {
		return s
	}
	return s[:n] + fmt.Sprintf("…(+%d bytes)", len(s)-n)
}
