// Package wire is the scripted transport: a net.Conn whose read side delivers
// exactly the chunks the test prescribes and whose write side records, stalls
// or fails on demand. The two directions share no mutex, channel or atomic
// (only Close touches both), so that under -race the transport adds no
// happens-before edge between the library's reader and writer goroutines.
package wire

import (
	"errors"
	"io"
	"net"
	"sync"
	"sync/atomic"
	"time"
)

type chunk struct {
	data  []byte
	eof   bool
	err   error
	delay time.Duration
}

// WriteRec is one Write call as seen by the transport.
type WriteRec struct {
	T    time.Time
	Data []byte
}

// ReadRec is one Read return.
type ReadRec struct {
	T time.Time
	N int
}

type timeoutErr struct{}

func (timeoutErr) Error() string   { return "i/o timeout (scripted: peer stopped reading)" }
func (timeoutErr) Timeout() bool   { return true }
func (timeoutErr) Temporary() bool { return true }

// WriteMode selects the behaviour of the write side.
type WriteMode int32

const (
	WriteAccept WriteMode = iota
	WriteStall            // block until the write deadline, then time out
)

// Conn implements net.Conn.
type Conn struct {
	Name string

	// read side (touched only by the reading goroutine, and by Feed through the channel)
	in          chan chunk
	rmu         sync.Mutex
	dropped     int64
	pending     []byte
	reads       []ReadRec
	rdone       bool
	rerr        error
	RecordReads bool
	rdeadline   int64 // unix nano, 0 = none; set by SetReadDeadline / SetDeadline

	// write side (touched only by the writing goroutine; observers take wmu)
	wmu       sync.Mutex
	writes    []WriteRec
	wdeadline time.Time
	wmode     int32 // WriteMode, atomic so that a fault injector can flip it
	failAt    int64 // fail the k-th write (1-based); 0 = never
	wcount    int64
	wdelay    int64 // nanoseconds each accepted write takes (a slow reader on the other side)
	partialAt int64 // the k-th write takes only partialN bytes, then runs into its deadline (0 = never)
	partialN  int64
	WriteErr  error
	notify    chan struct{} // optional, non-blocking tick per write (nil in -race runs)

	closeOnce sync.Once
	closed    chan struct{}
	closedAt  int64 // unix nano
	closeCnt  int32
}

// NewConn makes a scripted connection. notify=true gives observers a channel
// that ticks on every write (do not use under -race where the directions must
// stay independent of the observer).
func NewConn(name string, notify bool) *Conn {
	c := &Conn{Name: name, in: make(chan chunk, 1<<14), closed: make(chan struct{}), WriteErr: errors.New("scripted write error")}
	if notify {
		c.notify = make(chan struct{}, 1)
	}
	return c
}

// Feed queues bytes for the read side: one Read returns at most one fed chunk.
func (c *Conn) Feed(b []byte) { c.put(chunk{data: append([]byte(nil), b...)}) }

// put queues a chunk; once the connection is closed nobody reads any more and the chunk is dropped.
func (c *Conn) put(ch chunk) {
	select {
	case c.in <- ch:
		return
	default:
	}
	if atomic.LoadInt64(&c.dropped) > 0 {
		atomic.AddInt64(&c.dropped, 1) // the reader was already found dead once: do not wait again
		return
	}
	// queue full: the reader is slow or gone. Wait a bounded time, then drop (a scripted peer must never hang the harness).
	t := time.NewTimer(3 * time.Second)
	defer t.Stop()
	select {
	case c.in <- ch:
	case <-c.closed:
	case <-t.C:
		atomic.AddInt64(&c.dropped, 1)
	}
}

// Dropped reports how many fed chunks were abandoned because nobody read the connection for 3 s.
func (c *Conn) Dropped() int64 { return atomic.LoadInt64(&c.dropped) }

// FeedDelayed queues bytes that become readable only after d has passed once the reader reaches them.
func (c *Conn) FeedDelayed(b []byte, d time.Duration) {
	c.put(chunk{data: append([]byte(nil), b...), delay: d})
}

// FeedEOF makes the read side return io.EOF after everything queued so far.
func (c *Conn) FeedEOF() { c.put(chunk{eof: true}) }

// FeedErr makes the read side fail with err.
func (c *Conn) FeedErr(err error) { c.put(chunk{err: err}) }

func (c *Conn) Read(p []byte) (int, error) {
	// read-side lock only (never touched by the write side): a broken library may start
	// several readers on one connection, which a real socket tolerates
	c.rmu.Lock()
	defer c.rmu.Unlock()
	if len(c.pending) == 0 {
		if c.rdone {
			return 0, c.rerr
		}
		select {
		case <-c.closed:
			return 0, net.ErrClosed
		default:
		}
		var rdl <-chan time.Time
		if d := atomic.LoadInt64(&c.rdeadline); d != 0 {
			rdl = time.After(time.Until(time.Unix(0, d)))
		}
		select {
		case <-rdl:
			return 0, timeoutErr{}
		case ch := <-c.in:
			if ch.delay > 0 {
				select {
				case <-time.After(ch.delay):
				case <-c.closed:
					return 0, net.ErrClosed
				}
			}
			if ch.eof {
				c.rdone, c.rerr = true, io.EOF
				return 0, io.EOF
			}
			if ch.err != nil {
				c.rdone, c.rerr = true, ch.err
				return 0, ch.err
			}
			c.pending = ch.data
		case <-c.closed:
			return 0, net.ErrClosed
		}
	}
	n := copy(p, c.pending)
	c.pending = c.pending[n:]
	if c.RecordReads {
		c.reads = append(c.reads, ReadRec{T: time.Now(), N: n})
	}
	return n, nil
}

func (c *Conn) Write(p []byte) (int, error) {
	select {
	case <-c.closed:
		return 0, net.ErrClosed
	default:
	}
	k := atomic.AddInt64(&c.wcount, 1)
	if fa := atomic.LoadInt64(&c.failAt); fa != 0 && k >= fa {
		return 0, c.WriteErr
	}
	if pa := atomic.LoadInt64(&c.partialAt); pa != 0 && k == pa {
		// the peer's window fills up in the middle of this write: the first bytes are taken, the rest is not,
		// the write deadline expires; later writes are accepted again (the peer resumed reading)
		n := int(atomic.LoadInt64(&c.partialN))
		if n > len(p) {
			n = len(p)
		}
		c.wmu.Lock()
		c.writes = append(c.writes, WriteRec{T: time.Now(), Data: append([]byte(nil), p[:n]...)})
		c.wmu.Unlock()
		var wait <-chan time.Time
		if !c.wdeadline.IsZero() {
			wait = time.After(time.Until(c.wdeadline))
		}
		select {
		case <-wait:
			return n, timeoutErr{}
		case <-c.closed:
			return n, net.ErrClosed
		}
	}
	if WriteMode(atomic.LoadInt32(&c.wmode)) == WriteStall {
		var wait <-chan time.Time
		if !c.wdeadline.IsZero() {
			wait = time.After(time.Until(c.wdeadline))
		}
		tick := time.NewTicker(time.Millisecond)
		defer tick.Stop()
	stalled:
		for {
			select {
			case <-wait:
				return 0, timeoutErr{}
			case <-c.closed:
				return 0, net.ErrClosed
			case <-tick.C:
				// the peer reads again before the deadline: the write goes through after all
				if WriteMode(atomic.LoadInt32(&c.wmode)) != WriteStall {
					break stalled
				}
			}
		}
	}
	rec := WriteRec{T: time.Now(), Data: append([]byte(nil), p...)}
	if d := atomic.LoadInt64(&c.wdelay); d > 0 {
		time.Sleep(time.Duration(d))
	}
	c.wmu.Lock()
	c.writes = append(c.writes, rec)
	c.wmu.Unlock()
	if c.notify != nil {
		select {
		case c.notify <- struct{}{}:
		default:
		}
	}
	return len(p), nil
}

// SetWriteDelay makes every accepted write take d (the peer reads slowly).
func (c *Conn) SetWriteDelay(d time.Duration) { atomic.StoreInt64(&c.wdelay, int64(d)) }

// SetWriteMode flips the write side between accepting and stalling.
func (c *Conn) SetWriteMode(m WriteMode) { atomic.StoreInt32(&c.wmode, int32(m)) }

// FailWritesFrom makes the k-th and later writes fail (counted from the first write).
func (c *Conn) FailWritesFrom(k int) { atomic.StoreInt64(&c.failAt, int64(k)) }

// PartialStallAt makes the k-th write (1-based) accept only its first n bytes and then time out at its deadline.
func (c *Conn) PartialStallAt(k, n int) {
	atomic.StoreInt64(&c.partialN, int64(n))
	atomic.StoreInt64(&c.partialAt, int64(k))
}

// FailNextWrite makes the next write fail.
func (c *Conn) FailNextWrite() { atomic.StoreInt64(&c.failAt, atomic.LoadInt64(&c.wcount)+1) }

// Notify returns the per-write tick channel (nil when disabled).
func (c *Conn) Notify() <-chan struct{} { return c.notify }

// Writes returns a copy of what was written so far.
func (c *Conn) Writes() []WriteRec {
	c.wmu.Lock()
	defer c.wmu.Unlock()
	return append([]WriteRec(nil), c.writes...)
}

// Written returns the concatenated outbound stream.
func (c *Conn) Written() []byte {
	var out []byte
	for _, w := range c.Writes() {
		out = append(out, w.Data...)
	}
	return out
}

// Reads returns the read log; call only after the reader has stopped.
func (c *Conn) Reads() []ReadRec { return c.reads }

func (c *Conn) Close() error {
	atomic.AddInt32(&c.closeCnt, 1)
	c.closeOnce.Do(func() {
		atomic.StoreInt64(&c.closedAt, time.Now().UnixNano())
		close(c.closed)
	})
	return nil
}

// Closed reports whether Close was called, and when.
func (c *Conn) Closed() (bool, time.Time) {
	t := atomic.LoadInt64(&c.closedAt)
	if t == 0 {
		return false, time.Time{}
	}
	return true, time.Unix(0, t)
}

// ClosedCh is closed when Close is called.
func (c *Conn) ClosedCh() <-chan struct{} { return c.closed }

type addr string

func (a addr) Network() string { return "scripted" }
func (a addr) String() string  { return string(a) }

func (c *Conn) LocalAddr() net.Addr                { return addr("local:" + c.Name) }
func (c *Conn) RemoteAddr() net.Addr               { return addr("peer:" + c.Name) }
func (c *Conn) SetDeadline(t time.Time) error {
	c.wdeadline = t
	return c.SetReadDeadline(t)
}

// SetReadDeadline is honoured like a socket does: a Read that has nothing to return by then fails with a timeout.
func (c *Conn) SetReadDeadline(t time.Time) error {
	if t.IsZero() {
		atomic.StoreInt64(&c.rdeadline, 0)
	} else {
		atomic.StoreInt64(&c.rdeadline, t.UnixNano())
	}
	return nil
}
func (c *Conn) SetWriteDeadline(t time.Time) error { c.wdeadline = t; return nil }

// Listener hands scripted connections to an Acceptor.
type Listener struct {
	ch        chan net.Conn
	closeOnce sync.Once
	closed    chan struct{}
}

func NewListener() *Listener {
	return &Listener{ch: make(chan net.Conn, 64), closed: make(chan struct{})}
}

// Connect makes the next Accept return c.
func (l *Listener) Connect(c net.Conn) { l.ch <- c }

func (l *Listener) Accept() (net.Conn, error) {
	select {
	case <-l.closed:
		return nil, net.ErrClosed
	default:
	}
	select {
	case c := <-l.ch:
		return c, nil
	case <-l.closed:
		return nil, net.ErrClosed
	}
}

func (l *Listener) Close() error {
	l.closeOnce.Do(func() { close(l.closed) })
	return nil
}

func (l *Listener) Addr() net.Addr { return addr("scripted-listener") }

// IsClosed reports whether Close was called.
func (l *Listener) IsClosed() bool {
	select {
	case <-l.closed:
		return true
	default:
		return false
	}
}
