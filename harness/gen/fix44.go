package gen

import (
	"fmt"
	"math/rand"
	"reflect"

	"github.com/b2broker/simplefix-go/fix"
	fix44 "github.com/b2broker/simplefix-go/tests/fix44"

	"verifharness/fixref"
)

// F44Type is one generated message type of tests/fix44.
type F44Type struct {
	Name    string
	MsgType string
	New     func() *fix.Message
}

// F44Types lists every message type of the reference package.
var F44Types = []F44Type{
	{"Heartbeat", fix44.MsgTypeHeartbeat, func() *fix.Message { return fix44.NewHeartbeat().Message }},
	{"TestRequest", fix44.MsgTypeTestRequest, func() *fix.Message { return fix44.NewTestRequest().Message }},
	{"ResendRequest", fix44.MsgTypeResendRequest, func() *fix.Message { return fix44.NewResendRequest().Message }},
	{"Reject", fix44.MsgTypeReject, func() *fix.Message { return fix44.NewReject().Message }},
	{"SequenceReset", fix44.MsgTypeSequenceReset, func() *fix.Message { return fix44.NewSequenceReset().Message }},
	{"Logout", fix44.MsgTypeLogout, func() *fix.Message { return fix44.NewLogout().Message }},
	{"Logon", fix44.MsgTypeLogon, func() *fix.Message { return fix44.NewLogon().Message }},
	{"MarketDataRequest", fix44.MsgTypeMarketDataRequest, func() *fix.Message { return fix44.NewMarketDataRequest().Message }},
	{"MarketDataSnapshotFullRefresh", fix44.MsgTypeMarketDataSnapshotFullRefresh, func() *fix.Message { return fix44.NewMarketDataSnapshotFullRefresh().Message }},
	{"MarketDataIncrementalRefresh", fix44.MsgTypeMarketDataIncrementalRefresh, func() *fix.Message { return fix44.NewMarketDataIncrementalRefresh().Message }},
	{"MarketDataRequestReject", fix44.MsgTypeMarketDataRequestReject, func() *fix.Message { return fix44.NewMarketDataRequestReject().Message }},
}

func kindOf(v fix.Value) (Kind, bool) {
	switch v.(type) {
	case *fix.String:
		return KString, true
	case *fix.Int:
		return KInt, true
	case *fix.Uint:
		return KUint, true
	case *fix.Float:
		return KFloat, true
	case *fix.Time:
		return KTime, true
	case *fix.Bool:
		return KBool, true
	case *fix.Raw:
		return KRaw, true
	}
	return 0, false
}

// tagCounts counts template positions per tag (descending into group templates).
func tagCounts(items fix.Items, m map[string]int) {
	for _, it := range items {
		switch el := it.(type) {
		case *fix.KeyValue:
			if el != nil {
				m[el.Key]++
			}
		case *fix.Component:
			if el != nil {
				tagCounts(el.Items(), m)
			}
		case *fix.Group:
			if el != nil {
				m[el.NoTag()]++
				tagCounts(el.AsTemplate(), m)
			}
		}
	}
}

// TagCounts counts the template positions per tag.
func TagCounts(items fix.Items) map[string]int {
	m := map[string]int{}
	tagCounts(items, m)
	return m
}

// firstLeafTag returns the tag of the first leaf of an entry template.
func firstLeafTag(items fix.Items) string {
	for _, it := range items {
		switch el := it.(type) {
		case *fix.KeyValue:
			return el.Key
		case *fix.Component:
			if t := firstLeafTag(el.Items()); t != "" {
				return t
			}
		case *fix.Group:
			return el.NoTag()
		}
	}
	return ""
}

type libPop struct {
	r      *rand.Rand
	o      Opts
	dup    map[string]int
	decoys []string
	exp    []Exp
	errs   []string
	depth  int
}

func (lp *libPop) items(items fix.Items, path string, force bool) {
	for i, it := range items {
		f := force && i == 0
		switch el := it.(type) {
		case *fix.KeyValue:
			if lp.dup[el.Key] > 1 {
				continue
			}
			k, ok := kindOf(el.Value)
			if !ok {
				continue
			}
			if !f && lp.r.Float64() >= lp.o.PopulateProb {
				continue
			}
			v := RandValue(lp.r, k, lp.o, lp.decoys)
			if k == KRaw || lp.r.Intn(3) == 0 {
				if k == KFloat {
					v.Src = randFloatText(lp.r, v)
				}
				if err := el.FromBytes([]byte(v.Text())); err != nil {
					lp.errs = append(lp.errs, fmt.Sprintf("FromBytes(%q) tag %s: %v", v.Text(), el.Key, err))
				}
				lp.exp = append(lp.exp, Exp{Tag: el.Key, Val: v, Path: path, How: HowFromBytes})
			} else {
				if err := el.Value.Set(goValue(v)); err != nil {
					lp.errs = append(lp.errs, fmt.Sprintf("Set tag %s (%s): %v", el.Key, k, err))
				}
				lp.exp = append(lp.exp, Exp{Tag: el.Key, Val: v, Path: path, How: HowSet})
			}
		case *fix.Component:
			lp.items(el.Items(), path+"/c", f)
		case *fix.Group:
			if lp.dup[el.NoTag()] > 1 {
				continue
			}
			tmpl := el.AsTemplate()
			if ft := firstLeafTag(tmpl); ft == "" || lp.dup[ft] > 1 {
				continue
			}
			cnt := 0
			if lp.depth < 3 && (f || lp.r.Float64() < lp.o.PopulateProb/2) {
				cnt = 1 + lp.r.Intn(lp.o.MaxEntries)
			} else if f {
				cnt = 1
			}
			if cnt == 0 {
				continue
			}
			lp.exp = append(lp.exp, Exp{Tag: el.NoTag(), Count: cnt, Path: path + "/g"})
			lp.depth++
			for e := 0; e < cnt; e++ {
				entry := el.AsTemplate()
				lp.items(entry, path+"/g", true)
				el.AddEntry(entry)
			}
			lp.depth--
		}
	}
}

// PopulateLib populates a library message in place through Set/FromBytes on
// the items the library itself exposes (Header, Body, Trailer) and returns the
// fields that therefore must be on the wire, in order. Positions whose tag
// occurs more than once in the template are left unpopulated (C02's
// precondition).
func PopulateLib(r *rand.Rand, m *fix.Message, o Opts, withTrailer bool) (exp []Exp, errs []string) {
	dup := map[string]int{}
	tagCounts(m.Items(), dup)
	var decoys []string
	if o.Decoys {
		for t := range dup {
			decoys = append(decoys, t)
		}
		sortStrings(decoys)
	}
	lp := &libPop{r: r, o: o, dup: dup, decoys: decoys}
	if h := m.Header(); h != nil {
		lp.items(h.Items(), "H", false)
	}
	lp.items(m.Body(), "B", false)
	if withTrailer {
		if t := m.Trailer(); t != nil {
			lp.items(t.Items(), "T", false)
		}
	}
	return lp.exp, lp.errs
}

func sortStrings(s []string) {
	for i := 1; i < len(s); i++ {
		for j := i; j > 0 && s[j] < s[j-1]; j-- {
			s[j], s[j-1] = s[j-1], s[j]
		}
	}
}

// CompareTrees compares two library item trees (a populated original and a
// parsed copy): same structure, same null-ness, same typed values, same number
// and order of group entries. It returns human-readable differences.
func CompareTrees(a, b fix.Items, path string, out *[]string) {
	if len(a) != len(b) {
		*out = append(*out, fmt.Sprintf("%s: %d items vs %d", path, len(a), len(b)))
		return
	}
	for i := range a {
		p := fmt.Sprintf("%s[%d]", path, i)
		switch x := a[i].(type) {
		case *fix.KeyValue:
			y, ok := b[i].(*fix.KeyValue)
			if !ok {
				*out = append(*out, fmt.Sprintf("%s: KeyValue vs %T", p, b[i]))
				continue
			}
			if x == nil || y == nil {
				if (x == nil) != (y == nil) {
					*out = append(*out, p+": nil mismatch")
				}
				continue
			}
			p += "(tag " + x.Key + ")"
			if x.Key != y.Key {
				*out = append(*out, fmt.Sprintf("%s: tag %s vs %s", p, x.Key, y.Key))
				continue
			}
			if x.Value == nil || y.Value == nil {
				continue
			}
			if x.Value.IsNull() != y.Value.IsNull() {
				*out = append(*out, fmt.Sprintf("%s: populated=%v in the original, %v after parsing", p, !x.Value.IsNull(), !y.Value.IsNull()))
				continue
			}
			if x.Value.IsNull() {
				continue
			}
			if reflect.TypeOf(x.Value) != reflect.TypeOf(y.Value) {
				*out = append(*out, fmt.Sprintf("%s: value type %T in the original, %T after parsing", p, x.Value, y.Value))
				continue
			}
			if !reflect.DeepEqual(x.Value.Value(), y.Value.Value()) {
				*out = append(*out, fmt.Sprintf("%s: %s value %v in the original, %v after parsing", p, reflect.TypeOf(x.Value).Elem().Name(), x.Value.Value(), y.Value.Value()))
			}
		case *fix.Component:
			y, ok := b[i].(*fix.Component)
			if !ok {
				*out = append(*out, fmt.Sprintf("%s: Component vs %T", p, b[i]))
				continue
			}
			if x == nil || y == nil {
				continue
			}
			CompareTrees(x.Items(), y.Items(), p, out)
		case *fix.Group:
			y, ok := b[i].(*fix.Group)
			if !ok {
				*out = append(*out, fmt.Sprintf("%s: Group vs %T", p, b[i]))
				continue
			}
			p += "(group " + x.NoTag() + ")"
			if len(x.Entries()) != len(y.Entries()) {
				*out = append(*out, fmt.Sprintf("%s: %d entries in the original, %d after parsing", p, len(x.Entries()), len(y.Entries())))
				continue
			}
			for e := range x.Entries() {
				CompareTrees(x.Entries()[e], y.Entries()[e], fmt.Sprintf("%s.entry%d", p, e), out)
			}
		}
	}
}

// MatchExpected compares a tokenized wire field list (framing fields removed)
// with the expected list; it returns "" when they agree, else the first
// disagreement, classified.
func MatchExpected(exp []Exp, got []fixref.Field) (class, detail string) {
	n := len(exp)
	if len(got) < n {
		n = len(got)
	}
	for i := 0; i < n; i++ {
		if exp[i].Tag != got[i].Tag {
			// classify: missing, extra or reordered
			if indexTag(got[i:], exp[i].Tag) < 0 {
				return "missing-field/" + expClass(exp[i]), fmt.Sprintf("expected %s at position %d, wire has %s; the expected field is absent", exp[i], i, got[i])
			}
			if indexExp(exp[i:], got[i].Tag) < 0 {
				return "unexpected-field", fmt.Sprintf("wire has %s at position %d which no populated field accounts for (expected %s)", got[i], i, exp[i])
			}
			return "order", fmt.Sprintf("position %d: expected %s, wire has %s", i, exp[i], got[i])
		}
		if !exp[i].Match(got[i]) {
			return "wrong-text/" + expClass(exp[i]), fmt.Sprintf("position %d: expected %s, wire has %s", i, exp[i], got[i])
		}
	}
	if len(exp) > len(got) {
		return "missing-field/" + expClass(exp[n]), fmt.Sprintf("expected %s, absent from the wire (wire has %d fields, %d expected)", exp[n], len(got), len(exp))
	}
	if len(got) > len(exp) {
		return "unexpected-field", fmt.Sprintf("wire has extra field %s", got[n])
	}
	return "", ""
}

func expClass(e Exp) string {
	part := "body"
	if len(e.Path) > 0 {
		switch e.Path[0] {
		case 'H':
			part = "header"
		case 'T':
			part = "trailer"
		}
	}
	if e.Val == nil {
		return part + "/group-count"
	}
	return part + "/" + e.Val.K.String() + "/" + HowNames[e.How]
}

func indexTag(fs []fixref.Field, tag string) int {
	for i, f := range fs {
		if f.Tag == tag {
			return i
		}
	}
	return -1
}

func indexExp(es []Exp, tag string) int {
	for i, e := range es {
		if e.Tag == tag {
			return i
		}
	}
	return -1
}

// GroupInfo describes one repeating group of a library template.
type GroupInfo struct {
	Count   string
	First   string
	Members []string
	Depth   int
}

// LibTags lists the field tags and the groups of a library item tree.
func LibTags(items fix.Items) (fields []string, groups []GroupInfo) {
	var walk func(items fix.Items, depth int, members *[]string)
	walk = func(items fix.Items, depth int, members *[]string) {
		for _, it := range items {
			switch el := it.(type) {
			case *fix.KeyValue:
				if el != nil {
					fields = append(fields, el.Key)
					if members != nil {
						*members = append(*members, el.Key)
					}
				}
			case *fix.Component:
				if el != nil {
					walk(el.Items(), depth, members)
				}
			case *fix.Group:
				if el != nil {
					tmpl := el.AsTemplate()
					gi := GroupInfo{Count: el.NoTag(), First: firstLeafTag(tmpl), Depth: depth + 1}
					var mem []string
					idx := len(groups)
					groups = append(groups, gi)
					walk(tmpl, depth+1, &mem)
					groups[idx].Members = mem
					if members != nil {
						*members = append(*members, el.NoTag())
					}
				}
			}
		}
	}
	walk(items, 0, nil)
	return
}
