package gen

import (
	"bytes"
	"fmt"
	"time"

	"github.com/b2broker/simplefix-go/fix"
)

// Diff is one disagreement between a population spec and a parsed library tree.
type Diff struct {
	Class  string // stable class for keys
	Detail string
}

// CompareSpec walks the population spec and a parsed library item list in
// parallel: every populated leaf must be non-null, carry a value of the Go type
// of its template's value type, and equal the generated value; every
// unpopulated leaf must be null; groups must have the same number of entries in
// the same order.
func CompareSpec(ps []*Pop, items fix.Items, path string, inEntry bool, out *[]Diff) {
	if len(ps) != len(items) {
		*out = append(*out, Diff{"structure", fmt.Sprintf("%s: %d template positions, %d parsed items", path, len(ps), len(items))})
		return
	}
	where := "top"
	if inEntry {
		where = "group-entry"
	}
	for i, p := range ps {
		pp := fmt.Sprintf("%s[%d]", path, i)
		switch p.N.NK {
		case NField:
			kv, ok := items[i].(*fix.KeyValue)
			if !ok || kv == nil || kv.Value == nil {
				*out = append(*out, Diff{"structure", fmt.Sprintf("%s: parsed item is %T", pp, items[i])})
				continue
			}
			pp += "(tag " + kv.Key + ")"
			if kv.Key != p.N.Tag {
				*out = append(*out, Diff{"structure", fmt.Sprintf("%s: tag %s, template says %s", pp, kv.Key, p.N.Tag)})
				continue
			}
			if p.Val == nil {
				if !kv.Value.IsNull() {
					*out = append(*out, Diff{"phantom-value/" + where, fmt.Sprintf("%s: unpopulated in the original, parsed as %q", pp, kv.Value.ToBytes())})
				}
				continue
			}
			if kv.Value.IsNull() {
				*out = append(*out, Diff{"lost-value/" + where + "/" + p.Val.K.String(), fmt.Sprintf("%s: populated with %s in the original, null after parsing", pp, Trunc(p.Val.Text(), 60))})
				continue
			}
			got := kv.Value.Value()
			okv := false
			typeOK := true
			switch p.Val.K {
			case KString:
				s, t := got.(string)
				typeOK = t
				okv = t && s == p.Val.S
			case KInt:
				s, t := got.(int)
				typeOK = t
				okv = t && s == p.Val.I
			case KUint:
				s, t := got.(uint64)
				typeOK = t
				okv = t && s == p.Val.U
			case KFloat:
				s, t := got.(float64)
				typeOK = t
				okv = t && s == p.Val.F
			case KTime:
				s, t := got.(time.Time)
				typeOK = t
				okv = t && s.Equal(p.Val.T)
			case KBool:
				s, t := got.(bool)
				typeOK = t
				okv = t && s == p.Val.B
			case KRaw:
				s, t := got.([]byte)
				typeOK = t
				okv = t && bytes.Equal(s, p.Val.R)
			}
			if !typeOK {
				*out = append(*out, Diff{"type-lost/" + where + "/" + p.Val.K.String(), fmt.Sprintf("%s: template value type %s, parsed value is a %T (%T)", pp, p.Val.K, got, kv.Value)})
			} else if !okv {
				*out = append(*out, Diff{"value-changed/" + where + "/" + p.Val.K.String(), fmt.Sprintf("%s: original %s, parsed %v", pp, Trunc(p.Val.Text(), 60), got)})
			}
		case NComponent:
			c, ok := items[i].(*fix.Component)
			if !ok || c == nil {
				*out = append(*out, Diff{"structure", fmt.Sprintf("%s: parsed item is %T, want component", pp, items[i])})
				continue
			}
			CompareSpec(p.Kids, c.Items(), pp, inEntry, out)
		case NGroup:
			g, ok := items[i].(*fix.Group)
			if !ok || g == nil {
				*out = append(*out, Diff{"structure", fmt.Sprintf("%s: parsed item is %T, want group", pp, items[i])})
				continue
			}
			pp += "(group " + g.NoTag() + ")"
			if len(g.Entries()) != len(p.Entries) {
				*out = append(*out, Diff{"entry-count", fmt.Sprintf("%s: %d entries in the original, %d after parsing", pp, len(p.Entries), len(g.Entries()))})
				continue
			}
			for e := range p.Entries {
				CompareSpec(p.Entries[e], g.Entries()[e], fmt.Sprintf("%s.entry%d", pp, e), true, out)
			}
		}
	}
}

// Trunc shortens a string.
func Trunc(s string, n int) string {
	if len(s) <= n {
		return s
	}
	return s[:n] + "…"
}
