// Package gen produces message templates, populations and values, builds the
// corresponding library objects through the library's public constructors and
// setters, and computes — independently of the library — the field list that
// must appear on the wire.
package gen

import (
	"fmt"
	"math"
	"math/rand"
	"strconv"
	"strings"
	"time"

	"github.com/b2broker/simplefix-go/fix"

	"verifharness/fixref"
)

type Kind int

const (
	KString Kind = iota
	KInt
	KUint
	KFloat
	KTime
	KBool
	KRaw
	NKinds
)

func (k Kind) String() string {
	return [...]string{"String", "Int", "Uint", "Float", "Time", "Bool", "Raw"}[k]
}

type NodeKind int

const (
	NField NodeKind = iota
	NComponent
	NGroup
)

// Node is one position of a template.
type Node struct {
	NK   NodeKind
	Tag  string // field tag, or count tag of a group
	VK   Kind
	Kids []*Node
}

// Template is a whole message definition.
type Template struct {
	FT      fixref.FramingTags
	Begin   string
	MsgType string
	Header  []*Node
	Body    []*Node
	Trailer []*Node
}

// Value is a generated field value.
type Value struct {
	K Kind
	S string
	I int
	U uint64
	F float64
	T time.Time
	B bool
	R []byte
	// Src is the source text when the value was populated by parsing (FromBytes).
	Src string
}

// How a field was populated.
const (
	HowNew           = iota // NewString/NewInt/... constructor
	HowSet                  // zero value + Set
	HowFromBytes            // zero value + FromBytes(text)
	HowReSet                // FromBytes(other text) then Set(v): stale cached text must not survive
	HowKVSet                // KeyValue.Set(NewX(v)) replacing the value object
	HowParseClearSet        // FromBytes(text of v), Set(nil), Set(v): cleared and set again to the value it had
	NHow
)

var HowNames = [...]string{"New", "Set", "FromBytes", "FromBytesThenSet", "KeyValue.Set(New)", "FromBytes,Set(nil),Set(same)"}

// Pop is the population of one node.
type Pop struct {
	N       *Node
	Val     *Value // field: nil = unpopulated
	How     int
	Unset   bool     // field: populated first, then un-populated with Set(nil)
	Kids    []*Pop   // component
	Entries [][]*Pop // group
	ViaTmpl bool     // group: entries created through the library's AsTemplate
}

// MsgPop is the population of a message.
type MsgPop struct {
	T       *Template
	Header  []*Pop
	Body    []*Pop
	Trailer []*Pop
}

const TimeLayout = "20060102-15:04:05.000" // FIX UTCTimestamp with milliseconds

// Text is the canonical wire text the harness expects for a value populated by
// value; for floats see MatchText.
func (v *Value) Text() string {
	switch v.K {
	case KString:
		return v.S
	case KInt:
		return strconv.Itoa(v.I)
	case KUint:
		return strconv.FormatUint(v.U, 10)
	case KFloat:
		if v.Src != "" {
			return v.Src
		}
		return strconv.FormatFloat(v.F, 'f', -1, 64)
	case KTime:
		return v.T.Format(TimeLayout)
	case KBool:
		if v.B {
			return "Y"
		}
		return "N"
	case KRaw:
		return string(v.R)
	}
	return ""
}

// MatchText says whether wire text got is an acceptable canonical text of v.
// For floats populated by value any plain decimal that parses back to exactly
// the same float64 is accepted (the oracle does not pin the digit choice).
func (v *Value) MatchText(got []byte) bool {
	if v.K == KFloat && v.Src == "" {
		s := string(got)
		if !plainDecimal(s) {
			return false
		}
		f, err := strconv.ParseFloat(s, 64)
		return err == nil && f == v.F
	}
	return string(got) == v.Text()
}

func plainDecimal(s string) bool {
	if strings.HasPrefix(s, "-") {
		s = s[1:]
	}
	if s == "" {
		return false
	}
	dot := false
	digits := 0
	for i := 0; i < len(s); i++ {
		c := s[i]
		switch {
		case c >= '0' && c <= '9':
			digits++
		case c == '.' && !dot && i > 0 && i < len(s)-1:
			dot = true
		default:
			return false
		}
	}
	return digits > 0
}

// ---------------------------------------------------------------------------
// random generation

// Opts steer the generators.
type Opts struct {
	MaxDepth      int
	MaxWidth      int
	StdFraming    bool // use 8/9/35/10
	Kinds         []Kind
	Decoys        bool // strings that look like other fields of the same template
	RelatedTags   bool // tags that are decimal suffixes/prefixes of one another
	Trailer       bool // may populate trailer fields
	TrailerNested bool // the trailer may also hold components and repeating groups (default: plain fields only)
	AllowUnset    bool
	MaxStrLen     int
	MaxEntries    int
	HowSet        []int // population methods to draw from
	PopulateProb  float64
}

func DefaultOpts() Opts {
	return Opts{MaxDepth: 4, MaxWidth: 5, Kinds: []Kind{KString, KInt, KUint, KFloat, KTime, KBool, KRaw},
		Decoys: true, RelatedTags: true, Trailer: true, AllowUnset: true, MaxStrLen: 24, MaxEntries: 3,
		HowSet: []int{HowNew, HowSet, HowFromBytes, HowReSet, HowKVSet, HowParseClearSet}, PopulateProb: 0.7}
}

type tagPool struct {
	used map[string]bool
	list []string
	rel  bool
}

func (tp *tagPool) fresh(r *rand.Rand) string {
	for {
		var t string
		if tp.rel && len(tp.list) > 0 && r.Intn(3) == 0 {
			base := tp.list[r.Intn(len(tp.list))]
			switch r.Intn(4) {
			case 0:
				t = strconv.Itoa(1+r.Intn(9)) + base // base is a proper suffix of t
			case 1:
				t = base + strconv.Itoa(r.Intn(10)) // base is a proper prefix of t
			case 2:
				if len(base) > 1 {
					t = base[1:] // t is a proper suffix of base
				}
			case 3:
				if len(base) > 1 {
					t = base[:len(base)-1]
				}
			}
			if t == "" || t[0] == '0' || len(t) > 6 {
				continue
			}
		} else {
			switch r.Intn(4) {
			case 0:
				t = strconv.Itoa(1 + r.Intn(99))
			case 1:
				t = strconv.Itoa(100 + r.Intn(900))
			default:
				t = strconv.Itoa(1 + r.Intn(9999))
			}
		}
		if !tp.used[t] {
			tp.used[t] = true
			tp.list = append(tp.list, t)
			return t
		}
	}
}

// RandTemplate draws a template.
func RandTemplate(r *rand.Rand, o Opts) *Template {
	tp := &tagPool{used: map[string]bool{}, rel: o.RelatedTags}
	t := &Template{}
	if o.StdFraming || r.Intn(3) > 0 {
		t.FT = fixref.Std
		for _, x := range []string{"8", "9", "35", "10"} {
			tp.used[x] = true
		}
	} else {
		t.FT = fixref.FramingTags{Begin: tp.fresh(r), Len: tp.fresh(r), Type: tp.fresh(r), Sum: tp.fresh(r)}
	}
	// the framing tags take part in suffix/prefix relations too
	if o.RelatedTags {
		tp.list = append(tp.list, t.FT.Begin, t.FT.Len, t.FT.Type, t.FT.Sum)
	}
	t.Begin = []string{"FIX.4.4", "FIX.4.2", "FIXT.1.1", "F", "FIX=9"}[r.Intn(5)]
	t.MsgType = []string{"A", "0", "D", "8", "AE", "XYZ", "x=1"}[r.Intn(7)]
	width := func() int { return r.Intn(o.MaxWidth + 1) }
	t.Header = randNodes(r, o, tp, width(), 1)
	t.Body = randNodes(r, o, tp, width(), 1)
	if o.Trailer {
		if o.TrailerNested {
			t.Trailer = randNodes(r, o, tp, 1+r.Intn(3), o.MaxDepth-2)
		} else {
			t.Trailer = randNodes(r, o, tp, r.Intn(3), o.MaxDepth) // trailer: plain fields only
		}
	}
	return t
}

func randNodes(r *rand.Rand, o Opts, tp *tagPool, n, depth int) []*Node {
	out := make([]*Node, 0, n)
	for i := 0; i < n; i++ {
		out = append(out, randNode(r, o, tp, depth))
	}
	return out
}

func randNode(r *rand.Rand, o Opts, tp *tagPool, depth int) *Node {
	c := r.Intn(10)
	if depth >= o.MaxDepth || c < 6 {
		return &Node{NK: NField, Tag: tp.fresh(r), VK: o.Kinds[r.Intn(len(o.Kinds))]}
	}
	if c < 8 {
		return &Node{NK: NComponent, Kids: randNodes(r, o, tp, 1+r.Intn(o.MaxWidth), depth+1)}
	}
	g := &Node{NK: NGroup, Tag: tp.fresh(r), Kids: randNodes(r, o, tp, 1+r.Intn(o.MaxWidth), depth+1)}
	return g
}

// AllFieldTags lists every field and count tag of the template.
// FreshTag draws a tag no position of the template (and no framing field) uses.
func (t *Template) FreshTag(r *rand.Rand) string {
	used := map[string]bool{t.FT.Begin: true, t.FT.Len: true, t.FT.Type: true, t.FT.Sum: true}
	for _, x := range t.AllFieldTags() {
		used[x] = true
	}
	for {
		if x := strconv.Itoa(1 + r.Intn(9999)); !used[x] {
			return x
		}
	}
}

func (t *Template) AllFieldTags() []string {
	var out []string
	var walk func(ns []*Node)
	walk = func(ns []*Node) {
		for _, n := range ns {
			if n.NK != NComponent {
				out = append(out, n.Tag)
			}
			walk(n.Kids)
		}
	}
	walk(t.Header)
	walk(t.Body)
	walk(t.Trailer)
	return out
}

// Shape is a canonical text of the template's structure (for distinct counting).
func (t *Template) Shape() string {
	var sb strings.Builder
	var walk func(ns []*Node)
	walk = func(ns []*Node) {
		for _, n := range ns {
			switch n.NK {
			case NField:
				sb.WriteString(n.Tag + ":" + n.VK.String()[:1] + ",")
			case NComponent:
				sb.WriteString("(")
				walk(n.Kids)
				sb.WriteString(")")
			case NGroup:
				sb.WriteString(n.Tag + "[")
				walk(n.Kids)
				sb.WriteString("]")
			}
		}
	}
	sb.WriteString(t.FT.Begin + "/" + t.FT.Len + "/" + t.FT.Type + "/" + t.FT.Sum + ";H")
	walk(t.Header)
	sb.WriteString(";B")
	walk(t.Body)
	sb.WriteString(";T")
	walk(t.Trailer)
	return sb.String()
}

// MaxDepth returns the nesting depth of groups/components.
func (t *Template) MaxDepth() int {
	var d func(ns []*Node) int
	d = func(ns []*Node) int {
		m := 0
		for _, n := range ns {
			if n.NK != NField {
				if x := 1 + d(n.Kids); x > m {
					m = x
				}
			}
		}
		return m
	}
	m := d(t.Header)
	if x := d(t.Body); x > m {
		m = x
	}
	return m
}

var alphabet = []byte("abcXYZ019 =|=.-+:;/\x00\x02\x7f\x80\xff\xfe=10=35=")

// RandString draws a non-empty string without SOH.
func RandString(r *rand.Rand, maxLen int, decoyTags []string) string {
	if len(decoyTags) > 0 && r.Intn(4) == 0 {
		t := decoyTags[r.Intn(len(decoyTags))]
		switch r.Intn(4) {
		case 0:
			return t + "="
		case 1:
			return t + "=" + strconv.Itoa(r.Intn(5))
		case 2:
			return "x" + t + "=1"
		default:
			return t + "=" + t + "=2"
		}
	}
	n := 1 + r.Intn(maxLen)
	if r.Intn(20) == 0 {
		n = 1 + r.Intn(maxLen*20)
	}
	b := make([]byte, n)
	for i := range b {
		if r.Intn(4) == 0 {
			c := byte(r.Intn(256))
			if c == 1 {
				c = 2
			}
			b[i] = c
		} else {
			b[i] = alphabet[r.Intn(len(alphabet))]
		}
	}
	return string(b)
}

var intEdges = []int{0, 1, -1, 9, 10, 99, 100, 255, 256, math.MaxInt32, math.MinInt32, math.MaxInt64, math.MinInt64, math.MaxInt64 - 1, math.MinInt64 + 1}
var uintEdges = []uint64{0, 1, 9, 10, math.MaxUint32, math.MaxInt64, math.MaxInt64 + 1, math.MaxUint64, math.MaxUint64 - 1}
var floatEdges = []float64{0, math.Copysign(0, -1), 1, -1, 0.1, -0.1, 0.5, 1e21, 1e22, 1e-7, 1e300, -1e300, 1e-300,
	math.MaxFloat64, -math.MaxFloat64, math.SmallestNonzeroFloat64, 4.9e-324, 2.2250738585072014e-308, 2.225073858507201e-308,
	0.1 + 0.2, 1.0000000000000002, 9007199254740993, 123456789.12345678, 5e-324, 1.7976931348623157e308, 100, 1e15, 123456.789}

// RandValue draws a value of the kind.
func RandValue(r *rand.Rand, k Kind, o Opts, decoyTags []string) *Value {
	v := &Value{K: k}
	switch k {
	case KString:
		var d []string
		if o.Decoys {
			d = decoyTags
		}
		v.S = RandString(r, o.MaxStrLen, d)
	case KRaw:
		var d []string
		if o.Decoys {
			d = decoyTags
		}
		v.R = []byte(RandString(r, o.MaxStrLen, d))
	case KInt:
		switch r.Intn(3) {
		case 0:
			v.I = intEdges[r.Intn(len(intEdges))]
		case 1:
			v.I = r.Intn(2000) - 1000
		default:
			v.I = int(r.Uint64())
		}
	case KUint:
		switch r.Intn(3) {
		case 0:
			v.U = uintEdges[r.Intn(len(uintEdges))]
		case 1:
			v.U = uint64(r.Intn(2000))
		default:
			v.U = r.Uint64()
		}
	case KFloat:
		switch r.Intn(4) {
		case 0:
			v.F = floatEdges[r.Intn(len(floatEdges))]
		case 1:
			v.F = float64(r.Intn(200000)-100000) / 100
		case 2:
			for {
				f := math.Float64frombits(r.Uint64())
				if !math.IsNaN(f) && !math.IsInf(f, 0) {
					v.F = f
					break
				}
			}
		default:
			v.F = r.NormFloat64() * math.Pow(10, float64(r.Intn(40)-20))
		}
	case KTime:
		switch r.Intn(4) {
		case 0:
			edges := []time.Time{
				time.Date(1, 1, 1, 0, 0, 0, 0, time.UTC),
				time.Date(9999, 12, 31, 23, 59, 59, 999e6, time.UTC),
				time.Date(1999, 12, 31, 23, 59, 59, 999e6, time.UTC),
				time.Date(2000, 1, 1, 0, 0, 0, 0, time.UTC),
				time.Date(2024, 2, 29, 12, 0, 0, 1e6, time.UTC),
				// calendar rules: leap days of years divisible by 400 and by 4, last days of every month length,
				// the day after February in a common century year
				time.Date(2000, 2, 29, 12, 34, 56, 789e6, time.UTC),
				time.Date(2400, 2, 29, 0, 0, 0, 0, time.UTC),
				time.Date(1600, 2, 29, 23, 59, 59, 999e6, time.UTC),
				time.Date(1900, 2, 28, 23, 59, 59, 999e6, time.UTC),
				time.Date(1900, 3, 1, 0, 0, 0, 0, time.UTC),
				time.Date(2100, 2, 28, 12, 0, 0, 0, time.UTC),
				time.Date(2023, 1, 31, 1, 2, 3, 4e6, time.UTC),
				time.Date(2023, 4, 30, 1, 2, 3, 4e6, time.UTC),
				time.Date(2023, 12, 31, 23, 59, 59, 0, time.UTC),
				time.Date(2023, 10, 29, 2, 30, 0, 0, time.UTC),
				time.Date(2016, 12, 31, 23, 59, 59, 999e6, time.UTC),
				time.Date(1970, 1, 1, 0, 0, 0, 0, time.UTC),
				time.Date(2038, 1, 19, 3, 14, 7, 999e6, time.UTC),
			}
			v.T = edges[r.Intn(len(edges))]
		default:
			sec := r.Int63n(253402300800+62135596800) - 62135596800 // year 1 .. 9999
			v.T = time.Unix(sec, int64(r.Intn(1000))*1e6).UTC()
		}
	case KBool:
		v.B = r.Intn(2) == 0
	}
	return v
}

// RandPop populates a template. C02's preconditions are enforced: the first
// leaf of every group entry is populated, no empty values.
func RandPop(r *rand.Rand, t *Template, o Opts) *MsgPop {
	decoys := t.AllFieldTags()
	decoys = append(decoys, t.FT.Sum, t.FT.Type, t.FT.Len, t.FT.Begin)
	mp := &MsgPop{T: t}
	mp.Header = popNodes(r, t.Header, o, decoys, false)
	mp.Body = popNodes(r, t.Body, o, decoys, false)
	mp.Trailer = popNodes(r, t.Trailer, o, decoys, false)
	return mp
}

func popNodes(r *rand.Rand, ns []*Node, o Opts, decoys []string, forceFirst bool) []*Pop {
	out := make([]*Pop, len(ns))
	for i, n := range ns {
		out[i] = popNode(r, n, o, decoys, forceFirst && i == 0)
	}
	return out
}

func popNode(r *rand.Rand, n *Node, o Opts, decoys []string, force bool) *Pop {
	p := &Pop{N: n}
	switch n.NK {
	case NField:
		if force || r.Float64() < o.PopulateProb {
			p.Val = RandValue(r, n.VK, o, decoys)
			p.How = o.HowSet[r.Intn(len(o.HowSet))]
			if p.How == HowFromBytes && n.VK == KFloat {
				p.Val.Src = randFloatText(r, p.Val)
			}
		} else if o.AllowUnset && n.VK != KRaw && r.Intn(4) == 0 {
			p.Unset = true
		}
	case NComponent:
		p.Kids = popNodes(r, n.Kids, o, decoys, force)
	case NGroup:
		cnt := 0
		if force {
			cnt = 1 + r.Intn(o.MaxEntries)
		} else if r.Float64() < o.PopulateProb {
			cnt = r.Intn(o.MaxEntries + 1)
		}
		p.ViaTmpl = r.Intn(2) == 0
		for e := 0; e < cnt; e++ {
			p.Entries = append(p.Entries, popNodes(r, n.Kids, o, decoys, true))
		}
	}
	return p
}

// randFloatText picks a source text for a float populated by parsing: the
// parser keeps the text, so non-canonical spellings must survive a round trip.
func randFloatText(r *rand.Rand, v *Value) string {
	var s string
	switch r.Intn(5) {
	case 0:
		s = strconv.FormatFloat(v.F, 'f', -1, 64)
	case 1:
		s = strconv.FormatFloat(v.F, 'f', 2+r.Intn(6), 64)
	case 2:
		s = strconv.FormatFloat(v.F, 'e', -1, 64)
	case 3:
		s = "00" + strconv.FormatFloat(math.Abs(v.F), 'f', 3, 64)
	default:
		s = strconv.FormatFloat(v.F, 'g', 5, 64)
	}
	f, err := strconv.ParseFloat(s, 64)
	if err != nil {
		s = "1.50"
		f = 1.5
	}
	v.F = f
	return s
}

// ---------------------------------------------------------------------------
// building library objects

func zeroValue(k Kind) fix.Value {
	switch k {
	case KString:
		return &fix.String{}
	case KInt:
		return &fix.Int{}
	case KUint:
		return &fix.Uint{}
	case KFloat:
		return &fix.Float{}
	case KTime:
		return &fix.Time{}
	case KBool:
		return &fix.Bool{}
	default:
		return &fix.Raw{}
	}
}

func goValue(v *Value) interface{} {
	switch v.K {
	case KString:
		return v.S
	case KInt:
		return v.I
	case KUint:
		return v.U
	case KFloat:
		return v.F
	case KTime:
		return v.T
	case KBool:
		return v.B
	default:
		return v.R
	}
}

func newValue(v *Value) fix.Value {
	switch v.K {
	case KString:
		return fix.NewString(v.S)
	case KInt:
		return fix.NewInt(v.I)
	case KUint:
		return fix.NewUint(v.U)
	case KFloat:
		return fix.NewFloat(v.F)
	case KTime:
		return fix.NewTime(v.T)
	case KBool:
		b := &fix.Bool{} // there is no NewBool
		_ = b.Set(v.B)
		return b
	default:
		return fix.NewRaw(v.R)
	}
}

// otherText is a different, valid text of the same kind (for HowReSet).
func otherText(k Kind) string {
	switch k {
	case KString, KRaw:
		return "stale"
	case KInt, KUint:
		return "7"
	case KFloat:
		return "7.250"
	case KTime:
		return "20010203-04:05:06.007"
	default:
		return "Y"
	}
}

// BuildErr collects errors returned by setters during construction.
type BuildErr struct{ Errs []string }

func (b *BuildErr) add(format string, a ...interface{}) {
	b.Errs = append(b.Errs, fmt.Sprintf(format, a...))
}

func buildField(p *Pop, be *BuildErr) *fix.KeyValue {
	n := p.N
	if p.Val == nil {
		kv := fix.NewKeyValue(n.Tag, zeroValue(n.VK))
		if p.Unset {
			if err := kv.Value.FromBytes([]byte(otherText(n.VK))); err != nil {
				be.add("FromBytes(%q) on %s: %v", otherText(n.VK), n.VK, err)
			}
			if err := kv.Value.Set(nil); err != nil {
				be.add("Set(nil) on %s: %v", n.VK, err)
			}
		}
		return kv
	}
	switch p.How {
	case HowNew:
		return fix.NewKeyValue(n.Tag, newValue(p.Val))
	case HowSet:
		kv := fix.NewKeyValue(n.Tag, zeroValue(n.VK))
		if err := kv.Value.Set(goValue(p.Val)); err != nil {
			be.add("Set on %s: %v", n.VK, err)
		}
		return kv
	case HowFromBytes:
		kv := fix.NewKeyValue(n.Tag, zeroValue(n.VK))
		if err := kv.FromBytes([]byte(p.Val.Text())); err != nil {
			be.add("FromBytes(%q) on %s: %v", p.Val.Text(), n.VK, err)
		}
		return kv
	case HowReSet:
		kv := fix.NewKeyValue(n.Tag, zeroValue(n.VK))
		if err := kv.FromBytes([]byte(otherText(n.VK))); err != nil {
			be.add("FromBytes(%q) on %s: %v", otherText(n.VK), n.VK, err)
		}
		if err := kv.Value.Set(goValue(p.Val)); err != nil {
			be.add("Set on %s: %v", n.VK, err)
		}
		return kv
	case HowParseClearSet:
		kv := fix.NewKeyValue(n.Tag, zeroValue(n.VK))
		text := p.Val.Text()
		if p.Val.K == KFloat {
			text = strconv.FormatFloat(p.Val.F, 'f', -1, 64)
		}
		if err := kv.FromBytes([]byte(text)); err != nil {
			be.add("FromBytes(%q) on %s: %v", text, n.VK, err)
		}
		if n.VK != KRaw { // Raw has no way to be cleared through Set
			if err := kv.Value.Set(nil); err != nil {
				be.add("Set(nil) on %s: %v", n.VK, err)
			}
		}
		if err := kv.Value.Set(goValue(p.Val)); err != nil {
			be.add("Set on %s: %v", n.VK, err)
		}
		return kv
	default: // HowKVSet
		kv := fix.NewKeyValue(n.Tag, zeroValue(n.VK))
		kv.Set(newValue(p.Val))
		return kv
	}
}

func emptyItem(n *Node) fix.Item {
	switch n.NK {
	case NField:
		return fix.NewKeyValue(n.Tag, zeroValue(n.VK))
	case NComponent:
		return fix.NewComponent(emptyItems(n.Kids)...)
	default:
		return fix.NewGroup(n.Tag, emptyItems(n.Kids)...)
	}
}

func emptyItems(ns []*Node) []fix.Item {
	out := make([]fix.Item, len(ns))
	for i, n := range ns {
		out[i] = emptyItem(n)
	}
	return out
}

func buildItems(ps []*Pop, be *BuildErr) []fix.Item {
	out := make([]fix.Item, len(ps))
	for i, p := range ps {
		out[i] = buildItem(p, be)
	}
	return out
}

func buildItem(p *Pop, be *BuildErr) fix.Item {
	switch p.N.NK {
	case NField:
		return buildField(p, be)
	case NComponent:
		return fix.NewComponent(buildItems(p.Kids, be)...)
	default:
		g := fix.NewGroup(p.N.Tag, emptyItems(p.N.Kids)...)
		for _, e := range p.Entries {
			if p.ViaTmpl {
				entry := g.AsTemplate()
				fillFromTemplate(entry, e, be)
				g.AddEntry(entry)
			} else {
				g.AddEntry(buildItems(e, be))
			}
		}
		return g
	}
}

// fillFromTemplate populates items the library produced with AsTemplate. Values
// are put in through FromBytes, which every value type supports.
func fillFromTemplate(items fix.Items, ps []*Pop, be *BuildErr) {
	if len(items) != len(ps) {
		be.add("AsTemplate produced %d items for %d template positions", len(items), len(ps))
		return
	}
	for i, p := range ps {
		switch p.N.NK {
		case NField:
			kv, ok := items[i].(*fix.KeyValue)
			if !ok {
				be.add("AsTemplate item %d is %T, want *KeyValue", i, items[i])
				continue
			}
			if p.Val != nil {
				if err := kv.FromBytes([]byte(p.Val.Text())); err != nil {
					be.add("FromBytes(%q) on AsTemplate %T: %v", p.Val.Text(), kv.Value, err)
				}
				if p.Val.K == KFloat && p.Val.Src == "" {
					p.Val.Src = p.Val.Text()
				}
			}
		case NComponent:
			c, ok := items[i].(*fix.Component)
			if !ok {
				be.add("AsTemplate item %d is %T, want *Component", i, items[i])
				continue
			}
			fillFromTemplate(c.Items(), p.Kids, be)
		case NGroup:
			g, ok := items[i].(*fix.Group)
			if !ok {
				be.add("AsTemplate item %d is %T, want *Group", i, items[i])
				continue
			}
			for _, e := range p.Entries {
				entry := g.AsTemplate()
				fillFromTemplate(entry, e, be)
				g.AddEntry(entry)
			}
		}
	}
}

// Build makes the populated library message.
func (mp *MsgPop) Build() (*fix.Message, *BuildErr) {
	be := &BuildErr{}
	t := mp.T
	m := fix.NewMessage(t.FT.Begin, t.FT.Len, t.FT.Sum, t.FT.Type, t.Begin, t.MsgType)
	m.SetHeader(fix.NewComponent(buildItems(mp.Header, be)...))
	m.SetBody(buildItems(mp.Body, be)...)
	m.SetTrailer(fix.NewComponent(buildItems(mp.Trailer, be)...))
	return m, be
}

// Empty makes an unpopulated library message of the same type (to parse into).
func (t *Template) Empty() *fix.Message {
	m := fix.NewMessage(t.FT.Begin, t.FT.Len, t.FT.Sum, t.FT.Type, t.Begin, t.MsgType)
	m.SetHeader(fix.NewComponent(emptyItems(t.Header)...))
	m.SetBody(emptyItems(t.Body)...)
	m.SetTrailer(fix.NewComponent(emptyItems(t.Trailer)...))
	return m
}

// ---------------------------------------------------------------------------
// expectation

// Exp is one expected wire field.
type Exp struct {
	Tag   string
	Val   *Value // nil for a group count
	Count int
	Path  string // where it sits: H/B/T + nesting
	How   int
}

func (e Exp) Match(f fixref.Field) bool {
	if e.Tag != f.Tag {
		return false
	}
	if e.Val == nil {
		return string(f.Val) == strconv.Itoa(e.Count)
	}
	return e.Val.MatchText(f.Val)
}

func (e Exp) String() string {
	if e.Val == nil {
		return fmt.Sprintf("%s=%d", e.Tag, e.Count)
	}
	return e.Tag + "=" + e.Val.Text()
}

func expNodes(ps []*Pop, path string, out *[]Exp) {
	for _, p := range ps {
		switch p.N.NK {
		case NField:
			if p.Val != nil {
				*out = append(*out, Exp{Tag: p.N.Tag, Val: p.Val, Path: path, How: p.How})
			}
		case NComponent:
			expNodes(p.Kids, path+"/c", out)
		case NGroup:
			if len(p.Entries) > 0 {
				*out = append(*out, Exp{Tag: p.N.Tag, Count: len(p.Entries), Path: path + "/g"})
				for _, e := range p.Entries {
					expNodes(e, path+"/g", out)
				}
			}
		}
	}
}

// Expected lists the fields that must be on the wire between MsgType and
// CheckSum, in order. withTrailer selects whether trailer fields are included.
func (mp *MsgPop) Expected(withTrailer bool) []Exp {
	var out []Exp
	expNodes(mp.Header, "H", &out)
	expNodes(mp.Body, "B", &out)
	if withTrailer {
		expNodes(mp.Trailer, "T", &out)
	}
	return out
}

// CountPopulated returns the number of populated leaves.
func (mp *MsgPop) CountPopulated() int { return len(mp.Expected(true)) }

// Describe is a compact text of a population for samples/replays.
func (mp *MsgPop) Describe() string {
	var parts []string
	for _, e := range mp.Expected(true) {
		s := e.Path + ":" + e.String()
		if e.Val != nil {
			s += "(" + e.Val.K.String() + "," + HowNames[e.How] + ")"
		}
		if len(s) > 80 {
			s = s[:80] + "…"
		}
		parts = append(parts, s)
	}
	return strings.Join(parts, " | ")
}

// Serialize calls ToBytes under recover.
func Serialize(m interface{ ToBytes() ([]byte, error) }) (b []byte, err error, panicked string) {
	defer func() {
		if p := recover(); p != nil {
			panicked = fmt.Sprint(p)
		}
	}()
	b, err = m.ToBytes()
	if b != nil {
		b = append([]byte(nil), b...)
	}
	return
}

// SerializeKeep is Serialize that also returns the very slice ToBytes handed out (not a copy), so that a caller can
// see whether a later serialization of the same object writes into it.
func SerializeKeep(m interface{ ToBytes() ([]byte, error) }) (handedOut, b []byte, err error, panicked string) {
	defer func() {
		if p := recover(); p != nil {
			panicked = fmt.Sprint(p)
		}
	}()
	handedOut, err = m.ToBytes()
	if handedOut != nil {
		b = append([]byte(nil), handedOut...)
	}
	return
}

// StripFraming removes the three leading framing fields and the trailing
// CheckSum field when they carry the expected tags; ok=false otherwise.
func StripFraming(ft fixref.FramingTags, fs []fixref.Field) ([]fixref.Field, bool) {
	if len(fs) < 4 || fs[0].Tag != ft.Begin || fs[1].Tag != ft.Len || fs[2].Tag != ft.Type || fs[len(fs)-1].Tag != ft.Sum {
		return fs, false
	}
	return fs[3 : len(fs)-1], true
}
