package gen

import (
	fix44 "github.com/b2broker/simplefix-go/tests/fix44"
)

// F44Ctors lists the exported constructors of the reference package (for the reflective typed-API workloads).
var F44Ctors = []interface{}{
	fix44.NewAltMDSourceEntry,
	fix44.NewAltMDSourceGrp,
	fix44.NewEventsEntry,
	fix44.NewEventsGrp,
	fix44.NewHeader,
	fix44.NewHeartbeat,
	fix44.NewHopsEntry,
	fix44.NewHopsGrp,
	fix44.NewInstrument,
	fix44.NewInstrumentLeg,
	fix44.NewLegSecurityAltIDEntry,
	fix44.NewLegSecurityAltIDGrp,
	fix44.NewLegsEntry,
	fix44.NewLegsGrp,
	fix44.NewLogon,
	fix44.NewLogout,
	fix44.NewMDEntriesEntry,
	fix44.NewMDEntriesGrp,
	fix44.NewMDEntryTypesEntry,
	fix44.NewMDEntryTypesGrp,
	fix44.NewMarketDataIncrementalRefresh,
	fix44.NewMarketDataRequest,
	fix44.NewMarketDataRequestReject,
	fix44.NewMarketDataSnapshotFullRefresh,
	fix44.NewMsgTypesEntry,
	fix44.NewMsgTypesGrp,
	fix44.NewReject,
	fix44.NewRelatedSymEntry,
	fix44.NewRelatedSymGrp,
	fix44.NewResendRequest,
	fix44.NewSecurityAltIDEntry,
	fix44.NewSecurityAltIDGrp,
	fix44.NewSequenceReset,
	fix44.NewTestRequest,
	fix44.NewTradingSessionsEntry,
	fix44.NewTradingSessionsGrp,
	fix44.NewTrailer,
	fix44.NewUnderlyingInstrument,
	fix44.NewUnderlyingSecurityAltIDEntry,
	fix44.NewUnderlyingSecurityAltIDGrp,
	fix44.NewUnderlyingStipsEntry,
	fix44.NewUnderlyingStipsGrp,
	fix44.NewUnderlyingStipulations,
	fix44.NewUnderlyingsEntry,
	fix44.NewUnderlyingsGrp,
}

// F44TypedMessages lists the typed message constructors.
var F44TypedMessages = map[string]interface{}{
	"Heartbeat": fix44.NewHeartbeat,
	"TestRequest": fix44.NewTestRequest,
	"ResendRequest": fix44.NewResendRequest,
	"Reject": fix44.NewReject,
	"SequenceReset": fix44.NewSequenceReset,
	"Logout": fix44.NewLogout,
	"Logon": fix44.NewLogon,
	"MarketDataRequest": fix44.NewMarketDataRequest,
	"MarketDataSnapshotFullRefresh": fix44.NewMarketDataSnapshotFullRefresh,
	"MarketDataIncrementalRefresh": fix44.NewMarketDataIncrementalRefresh,
	"MarketDataRequestReject": fix44.NewMarketDataRequestReject,
}
