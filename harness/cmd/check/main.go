// Command check is the orchestrator: it rebuilds a property workload against
// /repo's working tree (hooks on: -tags verif), runs it as child processes
// under a watchdog, merges their results, classifies violations against
// KNOWN_FINDINGS.txt, writes evidence/<id>.json and decides the exit code.
//
//	exit 0  property held on everything observed (known findings are listed, not alarms)
//	exit 1  a violation that KNOWN_FINDINGS.txt does not list (VIOLATION line printed)
//	exit 2  inconclusive (INCONCLUSIVE line printed) — never folded into 0 or 1
package main

import (
	"bufio"
	"bytes"
	"encoding/binary"
	"encoding/json"
	"fmt"
	"hash/fnv"
	"os"
	"os/exec"
	"path/filepath"
	"sort"
	"strconv"
	"strings"
	"sync"
	"time"

	"verifharness/fixref"
	"verifharness/vk"
)

type propCfg struct {
	Level          string
	QuickShards    int
	ThoroughShard  int
	Parallel       int           // shards run at once
	QuickTimeout   time.Duration // per shard
	ThorTimeout    time.Duration
	CrashIsFinding bool // a child that dies is itself a violation (C11)
}

var cfg = map[string]propCfg{
	"C01": {Level: "exploration", QuickShards: 1, ThoroughShard: 1, Parallel: 1, QuickTimeout: 5 * time.Minute, ThorTimeout: 40 * time.Minute},
	"C02": {Level: "exploration", QuickShards: 1, ThoroughShard: 1, Parallel: 1, QuickTimeout: 5 * time.Minute, ThorTimeout: 40 * time.Minute},
	"C03": {Level: "exploration", QuickShards: 1, ThoroughShard: 1, Parallel: 1, QuickTimeout: 8 * time.Minute, ThorTimeout: 60 * time.Minute},
	"C04": {Level: "exploration", QuickShards: 1, ThoroughShard: 1, Parallel: 1, QuickTimeout: 8 * time.Minute, ThorTimeout: 60 * time.Minute},
	"C05": {Level: "exploration", QuickShards: 3, ThoroughShard: 3, Parallel: 3, QuickTimeout: 8 * time.Minute, ThorTimeout: 60 * time.Minute},
	"C06": {Level: "exploration", QuickShards: 1, ThoroughShard: 1, Parallel: 1, QuickTimeout: 8 * time.Minute, ThorTimeout: 60 * time.Minute},
	"C07": {Level: "exploration", QuickShards: 1, ThoroughShard: 1, Parallel: 1, QuickTimeout: 8 * time.Minute, ThorTimeout: 60 * time.Minute},
	"C08": {Level: "exploration", QuickShards: 1, ThoroughShard: 1, Parallel: 1, QuickTimeout: 8 * time.Minute, ThorTimeout: 60 * time.Minute},
	"C09": {Level: "exploration", QuickShards: 1, ThoroughShard: 1, Parallel: 1, QuickTimeout: 8 * time.Minute, ThorTimeout: 60 * time.Minute},
	"C10": {Level: "exploration", QuickShards: 1, ThoroughShard: 1, Parallel: 1, QuickTimeout: 8 * time.Minute, ThorTimeout: 60 * time.Minute},
	"C11": {Level: "exploration", CrashIsFinding: true, QuickShards: 1, ThoroughShard: 1, Parallel: 1, QuickTimeout: 10 * time.Minute, ThorTimeout: 90 * time.Minute},
	"C12": {Level: "translation_validation", QuickShards: 1, ThoroughShard: 1, Parallel: 1, QuickTimeout: 15 * time.Minute, ThorTimeout: 120 * time.Minute},
	"C13": {Level: "fault_enumeration", QuickShards: 1, ThoroughShard: 1, Parallel: 1, QuickTimeout: 10 * time.Minute, ThorTimeout: 90 * time.Minute},
	"C14": {Level: "exploration", QuickShards: 1, ThoroughShard: 1, Parallel: 1, QuickTimeout: 8 * time.Minute, ThorTimeout: 60 * time.Minute},
	"C15": {Level: "exploration", QuickShards: 1, ThoroughShard: 1, Parallel: 1, QuickTimeout: 8 * time.Minute, ThorTimeout: 60 * time.Minute},
	"C16": {Level: "exploration", QuickShards: 1, ThoroughShard: 1, Parallel: 1, QuickTimeout: 8 * time.Minute, ThorTimeout: 60 * time.Minute},
	"C17": {Level: "exploration", QuickShards: 1, ThoroughShard: 1, Parallel: 1, QuickTimeout: 5 * time.Minute, ThorTimeout: 40 * time.Minute},
	"C18": {Level: "exploration", QuickShards: 1, ThoroughShard: 1, Parallel: 1, QuickTimeout: 5 * time.Minute, ThorTimeout: 40 * time.Minute},
	"C19": {Level: "fault_enumeration", QuickShards: 1, ThoroughShard: 1, Parallel: 1, QuickTimeout: 8 * time.Minute, ThorTimeout: 60 * time.Minute},
	"C20": {Level: "exploration", QuickShards: 1, ThoroughShard: 1, Parallel: 1, QuickTimeout: 15 * time.Minute, ThorTimeout: 120 * time.Minute},
}

type finding struct {
	Status   string // open | fixed
	Property string
	Key      string
	Text     string
}

func readFindings(path string) ([]finding, error) {
	f, err := os.Open(path)
	if err != nil {
		if os.IsNotExist(err) {
			return nil, nil
		}
		return nil, err
	}
	defer f.Close()
	var out []finding
	sc := bufio.NewScanner(f)
	sc.Buffer(make([]byte, 1<<20), 1<<20)
	for sc.Scan() {
		line := strings.TrimSpace(sc.Text())
		if line == "" || strings.HasPrefix(line, "#") {
			continue
		}
		var fd finding
		switch {
		case strings.HasPrefix(line, "open:"):
			fd.Status = "open"
			line = strings.TrimSpace(line[5:])
		case strings.HasPrefix(line, "fixed:"):
			fd.Status = "fixed"
			line = strings.TrimSpace(line[6:])
		default:
			continue
		}
		for _, tok := range strings.Fields(line) {
			if strings.HasPrefix(tok, "property=") && fd.Property == "" {
				fd.Property = tok[9:]
			} else if strings.HasPrefix(tok, "key=") && fd.Key == "" {
				fd.Key = tok[4:]
			}
		}
		fd.Text = line
		out = append(out, fd)
	}
	return out, sc.Err()
}

var root string

func main() {
	root = os.Getenv("VERIF_ROOT")
	if root == "" {
		root = "/verif"
	}
	args := os.Args[1:]
	if len(args) == 0 {
		fmt.Fprintln(os.Stderr, "usage: check <ID> [quick|thorough] [--replay file] | check --setup")
		os.Exit(2)
	}
	if args[0] == "--setup" {
		setup()
		return
	}
	id := strings.ToUpper(args[0])
	tier := os.Getenv("VERIF_TIER")
	replay := ""
	for i := 1; i < len(args); i++ {
		switch args[i] {
		case "quick", "thorough":
			tier = args[i]
		case "--replay":
			if i+1 < len(args) {
				replay = args[i+1]
				i++
			}
		}
	}
	if tier != "thorough" {
		tier = "quick"
	}
	seed := int64(1)
	if s := os.Getenv("VERIF_SEED"); s != "" {
		if v, err := strconv.ParseInt(s, 10, 64); err == nil {
			seed = v
		}
	}
	if replay != "" {
		// a replay file records the key, seed and tier of the run that found the violation: print the
		// witness and run the same check again with that seed (generated cases are functions of the seed;
		// schedule-dependent ones are replayed by repetition)
		if b, err := os.ReadFile(replay); err == nil {
			var rp struct {
				Key       string         `json:"key"`
				Seed      int64          `json:"seed"`
				Tier      string         `json:"tier"`
				Witnesses []vk.Violation `json:"witnesses"`
			}
			if json.Unmarshal(b, &rp) == nil {
				fmt.Printf("replaying %s (key %s, seed %d, tier %s)\n", replay, rp.Key, rp.Seed, rp.Tier)
				if len(rp.Witnesses) > 0 {
					fmt.Printf("  recorded witness: %s\n", vk.Trunc(rp.Witnesses[0].Detail, 1200))
				}
				seed = rp.Seed
				if rp.Tier == "thorough" || rp.Tier == "quick" {
					tier = rp.Tier
				}
			}
		} else {
			fmt.Fprintf(os.Stderr, "cannot read replay file: %v\n", err)
		}
	}
	pc, ok := cfg[id]
	if !ok {
		fmt.Fprintf(os.Stderr, "unknown property %s\n", id)
		os.Exit(2)
	}
	os.Exit(run(id, tier, seed, pc, replay))
}

func goEnv() []string {
	env := os.Environ()
	env = append(env, "GOFLAGS=-mod=mod", "GOPROXY=off", "GOSUMDB=off", "GOTOOLCHAIN=local")
	return env
}

func build(id string, work string) (string, error) {
	bin := filepath.Join(work, "bin-"+strings.ToLower(id))
	cmd := exec.Command("go", "build", "-tags", "verif", "-o", bin, "./props/"+strings.ToLower(id))
	cmd.Dir = filepath.Join(root, "harness")
	cmd.Env = goEnv()
	out, err := cmd.CombinedOutput()
	if err != nil {
		return "", fmt.Errorf("%v\n%s", err, out)
	}
	return bin, nil
}

func setup() {
	// warm the build cache: build every workload once
	os.MkdirAll(filepath.Join(root, ".work", "setup"), 0o755)
	ids := make([]string, 0, len(cfg))
	for id := range cfg {
		ids = append(ids, id)
	}
	sort.Strings(ids)
	fail := false
	for _, id := range ids {
		if _, err := os.Stat(filepath.Join(root, "harness", "props", strings.ToLower(id))); err != nil {
			continue
		}
		if _, err := build(id, filepath.Join(root, ".work", "setup")); err != nil {
			fmt.Fprintf(os.Stderr, "setup: build %s: %v\n", id, err)
			fail = true
		}
	}
	os.RemoveAll(filepath.Join(root, ".work", "setup"))
	if fail {
		os.Exit(1)
	}
	fmt.Println("setup ok")
}

type shardOutcome struct {
	res     *vk.Result
	hashes  []uint64
	died    bool
	timeout bool
	log     string
}

func runShard(bin, id, tier string, seed int64, shard, nshards int, work string, timeout time.Duration, replay string) shardOutcome {
	out := filepath.Join(work, fmt.Sprintf("result-%d.json", shard))
	logf := filepath.Join(work, fmt.Sprintf("shard-%d.log", shard))
	os.Remove(out)
	os.Remove(out + ".hashes")
	swork := filepath.Join(work, fmt.Sprintf("scratch-%d", shard))
	os.RemoveAll(swork)
	os.MkdirAll(swork, 0o755)
	args := []string{"-s", "QUIT", "-k", "20", fmt.Sprintf("%d", int(timeout.Seconds())), bin,
		"-tier", tier, "-seed", fmt.Sprint(seed), "-shard", fmt.Sprint(shard), "-nshards", fmt.Sprint(nshards),
		"-out", out, "-work", swork}
	if replay != "" {
		args = append(args, "-replay", replay)
	}
	cmd := exec.Command("timeout", args...)
	cmd.Dir = filepath.Join(root, "harness")
	cmd.Env = append(goEnv(), "VERIF_ROOT="+root)
	lf, _ := os.Create(logf)
	cmd.Stdout = lf
	cmd.Stderr = lf
	err := cmd.Run()
	lf.Close()
	so := shardOutcome{log: logf}
	if err != nil {
		if ee, ok := err.(*exec.ExitError); ok && ee.ExitCode() == 124 {
			so.timeout = true
		}
	}
	b, rerr := os.ReadFile(out)
	if rerr == nil {
		var r vk.Result
		if json.Unmarshal(b, &r) == nil {
			so.res = &r
		}
	}
	if so.res == nil || !so.res.Done {
		so.died = true
	}
	if hb, e := os.ReadFile(out + ".hashes"); e == nil {
		for i := 0; i+8 <= len(hb); i += 8 {
			so.hashes = append(so.hashes, binary.LittleEndian.Uint64(hb[i:]))
		}
	}
	os.RemoveAll(swork)
	return so
}

// crashed reports whether the log of a workload process shows a crash of the Go runtime (an unrecovered panic or a
// fatal error), as opposed to a process that was killed from outside.
func crashed(path string) bool {
	b, err := os.ReadFile(path)
	if err != nil {
		return false
	}
	return bytes.Contains(b, []byte("\npanic: ")) || bytes.HasPrefix(b, []byte("panic: ")) || bytes.Contains(b, []byte("fatal error: "))
}

func tail(path string, n int) string {
	b, err := os.ReadFile(path)
	if err != nil {
		return ""
	}
	lines := strings.Split(string(b), "\n")
	if len(lines) > n {
		lines = lines[len(lines)-n:]
	}
	return strings.Join(lines, "\n")
}

func run(id, tier string, seed int64, pc propCfg, replay string) int {
	start := time.Now()
	work := filepath.Join(root, ".work", id)
	os.RemoveAll(work)
	os.MkdirAll(work, 0o755)
	evPath := filepath.Join(root, "evidence", id+".json")
	os.MkdirAll(filepath.Dir(evPath), 0o755)

	inconclusive := func(reason string) int {
		fmt.Printf("INCONCLUSIVE property=%s reason=%s\n", id, reason)
		return 2
	}
	if err := fixref.SelfTest(); err != nil {
		return inconclusive("fixref-selftest:" + err.Error())
	}
	bin, err := build(id, work)
	if err != nil {
		fmt.Println(err)
		return inconclusive("build-failed")
	}
	findings, err := readFindings(filepath.Join(root, "KNOWN_FINDINGS.txt"))
	if err != nil {
		return inconclusive("known-findings-unreadable")
	}
	nsh := pc.QuickShards
	to := pc.QuickTimeout
	if tier == "thorough" {
		nsh = pc.ThoroughShard
		to = pc.ThorTimeout
	}
	if nsh < 1 {
		nsh = 1
	}
	par := pc.Parallel
	if par < 1 {
		par = 1
	}
	outcomes := make([]shardOutcome, nsh)
	sem := make(chan struct{}, par)
	var wg sync.WaitGroup
	for i := 0; i < nsh; i++ {
		wg.Add(1)
		go func(i int) {
			defer wg.Done()
			sem <- struct{}{}
			defer func() { <-sem }()
			outcomes[i] = runShard(bin, id, tier, seed, i, nsh, work, to, replay)
		}(i)
	}
	wg.Wait()
	// retry shards that decided nothing because of the machine (alone, sequentially)
	retries := 0
	for i := range outcomes {
		for attempt := 0; attempt < 2; attempt++ {
			o := outcomes[i]
			needs := (o.died && !(pc.CrashIsFinding && !o.timeout && crashed(o.log))) || (o.res != nil && len(o.res.Inconclusive) > 0 && len(o.res.Violations) == 0)
			if !needs {
				break
			}
			retries++
			fmt.Printf("note: shard %d of %s decided nothing (died=%v timeout=%v inconclusive=%v); re-running it alone\n", i, id, o.died, o.timeout, o.res != nil && len(o.res.Inconclusive) > 0)
			if o.res != nil {
				for _, r := range o.res.Inconclusive {
					fmt.Println("  reason:", r)
				}
			}
			outcomes[i] = runShard(bin, id, tier, seed, i, nsh, work, to, replay)
		}
	}

	// merge
	merged := vk.Result{Property: id, Tier: tier, Seed: seed, Extra: map[string]interface{}{}, Counters: map[string]int64{}, ViolationCounts: map[string]int64{}}
	hashes := map[uint64]struct{}{}
	sets := map[string]map[string]struct{}{}
	var inconcl []string
	exhaustive := true
	for i, o := range outcomes {
		if o.res == nil || o.died {
			if pc.CrashIsFinding && !o.timeout && crashed(o.log) {
				merged.ViolationCounts[id+"/child-died"]++
				merged.Violations = append(merged.Violations, vk.Violation{Key: id + "/child-died", Detail: "workload process died:\n" + tail(o.log, 60), Replay: map[string]interface{}{"shard": i, "seed": seed, "tier": tier}})
			} else {
				why := "child-died"
				if o.timeout {
					why = "watchdog-timeout"
				}
				inconcl = append(inconcl, fmt.Sprintf("shard %d: %s (log %s)", i, why, o.log))
			}
			if o.res == nil {
				continue
			}
		}
		r := o.res
		merged.Evaluations += r.Evaluations
		for _, h := range o.hashes {
			hashes[h] = struct{}{}
		}
		if merged.Rule == "" {
			merged.Rule = r.Rule
		}
		for _, s := range r.Samples {
			if len(merged.Samples) < 8 {
				merged.Samples = append(merged.Samples, s)
			}
		}
		for k, v := range r.Extra {
			if _, dup := merged.Extra[k]; !dup {
				merged.Extra[k] = v
			}
		}
		for k, v := range r.Counters {
			if strings.HasPrefix(k, "max_") {
				if v > merged.Counters[k] {
					merged.Counters[k] = v
				}
			} else {
				merged.Counters[k] += v
			}
		}
		for k, l := range r.Sets {
			m := sets[k]
			if m == nil {
				m = map[string]struct{}{}
				sets[k] = m
			}
			for _, s := range l {
				m[s] = struct{}{}
			}
		}
		for k, v := range r.ViolationCounts {
			merged.ViolationCounts[k] += v
		}
		merged.Violations = append(merged.Violations, r.Violations...)
		inconcl = append(inconcl, r.Inconclusive...)
		merged.Assumptions = append(merged.Assumptions, r.Assumptions...)
		if !r.Exhaustive {
			exhaustive = false
		}
	}
	merged.DistinctNontrivial = int64(len(hashes))

	// classify
	open := map[string]finding{}
	for _, f := range findings {
		if f.Status == "open" && f.Property == id {
			open[f.Key] = f
		}
	}
	keys := make([]string, 0, len(merged.ViolationCounts))
	for k := range merged.ViolationCounts {
		keys = append(keys, k)
	}
	sort.Strings(keys)
	unknown := 0
	knownObserved := map[string]int64{}
	for _, k := range keys {
		if _, ok := open[k]; ok {
			knownObserved[k] = merged.ViolationCounts[k]
			continue
		}
		unknown++
		// replay file
		h := fnv.New32a()
		h.Write([]byte(k))
		rp := filepath.Join(root, "replays", id, fmt.Sprintf("%08x.json", h.Sum32()))
		os.MkdirAll(filepath.Dir(rp), 0o755)
		var wit []vk.Violation
		for _, v := range merged.Violations {
			if v.Key == k {
				wit = append(wit, v)
			}
		}
		rb, _ := json.MarshalIndent(map[string]interface{}{"property": id, "key": k, "seed": seed, "tier": tier, "count": merged.ViolationCounts[k], "witnesses": wit}, "", " ")
		os.WriteFile(rp, rb, 0o644)
		fmt.Printf("VIOLATION property=%s replay=%s\n", id, rp)
		fmt.Printf("  key=%s count=%d\n", k, merged.ViolationCounts[k])
		if len(wit) > 0 {
			fmt.Printf("  detail: %s\n", vk.Trunc(wit[0].Detail, 1500))
		}
	}
	okeys := make([]string, 0, len(open))
	for k := range open {
		okeys = append(okeys, k)
	}
	sort.Strings(okeys)
	for _, k := range okeys {
		fmt.Printf("KNOWN-FINDING: property=%s %s (observed %d times in this run)\n", id, strings.TrimPrefix(open[k].Text, "property="+id+" "), knownObserved[k])
	}

	// evidence
	cov := map[string]interface{}{
		"evaluations":         merged.Evaluations,
		"distinct_nontrivial": merged.DistinctNontrivial,
		"rule":                merged.Rule,
		"samples":             merged.Samples,
		"exhaustive":          exhaustive && merged.Evaluations > 0,
		"counters":            merged.Counters,
		"shards":              nsh,
		"shard_reruns":        retries,
	}
	if cov["samples"] == nil {
		cov["samples"] = []interface{}{}
	}
	for k, v := range merged.Extra {
		cov[k] = v
	}
	setSizes := map[string]int{}
	setMembers := map[string][]string{}
	for k, m := range sets {
		setSizes[k] = len(m)
		l := make([]string, 0, len(m))
		for s := range m {
			l = append(l, s)
		}
		sort.Strings(l)
		if len(l) > 80 {
			l = append(l[:80], fmt.Sprintf("…(+%d more)", len(m)-80))
		}
		setMembers[k] = l
	}
	cov["coverage_set_sizes"] = setSizes
	cov["coverage_sets"] = setMembers
	cov["known_findings_observed"] = knownObserved
	cov["inconclusive_reasons"] = inconcl
	verdict := "held_on_observed"
	code := 0
	if unknown > 0 {
		verdict = "violated"
		code = 1
	} else if len(inconcl) > 0 || merged.Evaluations == 0 || merged.DistinctNontrivial < 2 {
		verdict = "inconclusive"
		code = 2
	}
	cov["verdict"] = verdict
	ev := map[string]interface{}{
		"property_id": id,
		"tier":        tier,
		"seed":        seed,
		"level":       pc.Level,
		"coverage":    cov,
		"assumptions": dedup(merged.Assumptions),
		"wall_s":      time.Since(start).Seconds(),
		"violations":  unknown,
	}
	if pc.Level == "translation_validation" {
		if v, ok := merged.Counters["programs"]; ok {
			cov["programs"] = v
		}
		if v, ok := merged.Counters["disagreements_checked"]; ok {
			cov["disagreements_checked"] = v
		}
	}
	var buf bytes.Buffer
	enc := json.NewEncoder(&buf)
	enc.SetIndent("", " ")
	enc.SetEscapeHTML(false)
	if err := enc.Encode(ev); err != nil {
		return inconclusive("evidence-encode:" + err.Error())
	}
	if err := os.WriteFile(evPath, buf.Bytes(), 0o644); err != nil {
		return inconclusive("evidence-write:" + err.Error())
	}
	fmt.Printf("property=%s tier=%s seed=%d verdict=%s evaluations=%d distinct_nontrivial=%d known_findings=%d wall=%.1fs\n",
		id, tier, seed, verdict, merged.Evaluations, merged.DistinctNontrivial, len(knownObserved), time.Since(start).Seconds())
	if code == 2 {
		for _, r := range inconcl {
			fmt.Println("  inconclusive:", r)
		}
		if merged.Evaluations == 0 || merged.DistinctNontrivial < 2 {
			fmt.Println("  inconclusive: the run observed (almost) nothing")
		}
		fmt.Printf("INCONCLUSIVE property=%s reason=see-above\n", id)
	}
	return code
}

func dedup(in []string) []string {
	seen := map[string]bool{}
	out := []string{}
	for _, s := range in {
		if !seen[s] {
			seen[s] = true
			out = append(out, s)
		}
	}
	return out
}
