package rig

import (
	"math/big"
	"strconv"

	"verifharness/fixref"
)

// Logon classes of an inbound symbol.
const (
	NotLogon = iota
	LogonGood
	LogonHbLow
	LogonHbHigh
	LogonBadMethod
	LogonCredsRefused
	LogonBadChecksum
	LogonBadLength
	LogonNonNumericHb
)

// Sym is one letter of the history alphabet.
type Sym struct {
	Name       string
	Local      bool // local action instead of an inbound message
	LogonClass int
	Type       string
	Build      func(p *Peer, lim [2]int) []byte
}

const BadUser = "refuse-me"

// Approve is the application's logon policy used by the step-driven checks: only user/pw is approved.
func Approve(username, password string) bool { return username == "user" && password == "pw" }

// Alphabet returns the inbound/local symbols used by the step-driven checks.
func Alphabet() []Sym {
	good := func(hbSel int) func(p *Peer, lim [2]int) []byte {
		return func(p *Peer, lim [2]int) []byte {
			hb := (lim[0] + lim[1]) / 2
			if hbSel == 1 {
				hb = lim[0]
			} else if hbSel == 2 {
				hb = lim[1]
			}
			return p.Logon(hb, "0", fixref.F(TUser, "user"), fixref.F(TPass, "pw"))
		}
	}
	mid := func(lim [2]int) int { return (lim[0] + lim[1]) / 2 }
	return []Sym{
		{Name: "LogonGood", LogonClass: LogonGood, Type: "A", Build: good(0)},
		{Name: "LogonGoodMinHb", LogonClass: LogonGood, Type: "A", Build: good(1)},
		{Name: "LogonGoodMaxHb", LogonClass: LogonGood, Type: "A", Build: good(2)},
		{Name: "LogonGoodOtherCompIDs", LogonClass: LogonGood, Type: "A", Build: func(p *Peer, lim [2]int) []byte {
			// a well-formed, acceptable Logon that names other parties and another interval
			q := &Peer{Sender: "MALLORY", Target: "ELSEWHERE", Seq: p.Seq}
			hb := lim[0] + 1
			if hb > lim[1] {
				hb = lim[1]
			}
			m := q.Logon(hb, "0", fixref.F(TUser, "user"), fixref.F(TPass, "pw"))
			p.Seq = q.Seq
			return m
		}},
		{Name: "LogonHbBelowMin", LogonClass: LogonHbLow, Type: "A", Build: func(p *Peer, lim [2]int) []byte {
			return p.Logon(lim[0]-1, "0", fixref.F(TUser, "user"), fixref.F(TPass, "pw"))
		}},
		{Name: "LogonHbAboveMax", LogonClass: LogonHbHigh, Type: "A", Build: func(p *Peer, lim [2]int) []byte {
			return p.Logon(lim[1]+1, "0", fixref.F(TUser, "user"), fixref.F(TPass, "pw"))
		}},
		{Name: "LogonBadMethod", LogonClass: LogonBadMethod, Type: "A", Build: func(p *Peer, lim [2]int) []byte {
			return p.Logon(mid(lim), "1", fixref.F(TUser, "user"), fixref.F(TPass, "pw"))
		}},
		{Name: "LogonCredsRefused", LogonClass: LogonCredsRefused, Type: "A", Build: func(p *Peer, lim [2]int) []byte {
			return p.Logon(mid(lim), "0", fixref.F(TUser, BadUser), fixref.F(TPass, "x"))
		}},
		// well-formed Logons that simply omit a field: nothing may be inherited from an earlier Logon
		{Name: "LogonNoCredentials", LogonClass: LogonCredsRefused, Type: "A", Build: func(p *Peer, lim [2]int) []byte { return p.Logon(mid(lim), "0") }},
		{Name: "LogonNoHeartBtInt", LogonClass: LogonHbLow, Type: "A", Build: func(p *Peer, lim [2]int) []byte {
			return p.Msg("A", fixref.F(TEncrypt, "0"), fixref.F(TUser, "user"), fixref.F(TPass, "pw"))
		}},
		{Name: "LogonNoEncryptMethod", LogonClass: LogonBadMethod, Type: "A", Build: func(p *Peer, lim [2]int) []byte {
			return p.Msg("A", fixref.F(THeartBt, strconv.Itoa(mid(lim))), fixref.F(TUser, "user"), fixref.F(TPass, "pw"))
		}},
		{Name: "LogonBadChecksum", LogonClass: LogonBadChecksum, Type: "A", Build: func(p *Peer, lim [2]int) []byte { return BadChecksum(p.Logon(mid(lim), "0")) }},
		{Name: "LogonChecksumNotThreeDigits", LogonClass: LogonBadChecksum, Type: "A", Build: func(p *Peer, lim [2]int) []byte {
			return ChecksumOtherForm(p.Logon(mid(lim), "0", fixref.F(TUser, "user"), fixref.F(TPass, "pw")), p.Seq)
		}},
		// damaged Logons whose header carries the text '34=' inside a value in front of the genuine MsgSeqNum (a
		// base64 SenderSubID, say): the Reject still refers to the Logon's number
		{Name: "LogonBadChecksumWithSeqTagTextInFrontOfSeq", LogonClass: LogonBadChecksum, Type: "A", Build: func(p *Peer, lim [2]int) []byte {
			p.Seq++
			return BadChecksum(fixref.Encode(fixref.Std, "FIX.4.4", "A", []fixref.Field{
				fixref.F(TSender, p.Sender), fixref.F(TTarget, p.Target), fixref.F("50", "a2V5A34="), fixref.F(TSeq, strconv.Itoa(p.Seq)),
				fixref.F(TTime, "20240101-00:00:00.000"), fixref.F(TEncrypt, "0"), fixref.F(THeartBt, strconv.Itoa(mid(lim))), fixref.F(TUser, "user"), fixref.F(TPass, "pw")}))
		}},
		{Name: "LogonBadLength", LogonClass: LogonBadLength, Type: "A", Build: func(p *Peer, lim [2]int) []byte { return BadLength(p.Logon(mid(lim), "0")) }},
		{Name: "LogonNonNumericHb", LogonClass: LogonNonNumericHb, Type: "A", Build: func(p *Peer, lim [2]int) []byte {
			return p.Msg("A", fixref.F(TEncrypt, "0"), fixref.F(THeartBt, "3x"))
		}},
		// a repeating group that announces fewer entries than it carries (MsgTypes group of the Logon): not well-formed
		{Name: "LogonGroupCountBelowEntries", LogonClass: LogonNonNumericHb, Type: "A", Build: func(p *Peer, lim [2]int) []byte {
			return p.Msg("A", fixref.F(TEncrypt, "0"), fixref.F(THeartBt, strconv.Itoa(mid(lim))), fixref.F("384", "1"), fixref.F("372", "D"), fixref.F("385", "S"), fixref.F("372", "8"), fixref.F("385", "R"), fixref.F(TUser, "user"), fixref.F(TPass, "pw"))
		}},
		// numeric fields whose value exceeds 64 bits and would wrap to an acceptable number
		{Name: "LogonHbWrapsAround2^64", LogonClass: LogonNonNumericHb, Type: "A", Build: func(p *Peer, lim [2]int) []byte {
			return p.Msg("A", fixref.F(TEncrypt, "0"), fixref.F(THeartBt, Plus2to64(mid(lim))), fixref.F(TUser, "user"), fixref.F(TPass, "pw"))
		}},
		{Name: "LogonBodyLengthWrapsAround2^64", LogonClass: LogonBadLength, Type: "A", Build: func(p *Peer, lim [2]int) []byte {
			return HugeLength(p.Logon(mid(lim), "0", fixref.F(TUser, "user"), fixref.F(TPass, "pw")))
		}},
		// two reasons to refuse at once: an unacceptable parameter AND credentials the application refuses — there is an
		// offending field, and the Reject names it
		{Name: "LogonHbAboveMaxAndCredsRefused", LogonClass: LogonHbHigh, Type: "A", Build: func(p *Peer, lim [2]int) []byte {
			return p.Logon(lim[1]+1, "0", fixref.F(TUser, BadUser), fixref.F(TPass, "x"))
		}},
		{Name: "LogonBadMethodAndCredsRefused", LogonClass: LogonBadMethod, Type: "A", Build: func(p *Peer, lim [2]int) []byte {
			return p.Logon(mid(lim), "1", fixref.F(TUser, BadUser), fixref.F(TPass, "x"))
		}},
		{Name: "Heartbeat", Type: "0", Build: func(p *Peer, lim [2]int) []byte { return p.Heartbeat() }},
		{Name: "TestRequest", Type: "1", Build: func(p *Peer, lim [2]int) []byte { return p.TestRequest("id" + strconv.Itoa(p.Seq+1)) }},
		{Name: "ResendAll", Type: "2", Build: func(p *Peer, lim [2]int) []byte { return p.Resend(1, 0) }},
		{Name: "Resend1to2", Type: "2", Build: func(p *Peer, lim [2]int) []byte { return p.Resend(1, 2) }},
		{Name: "Logout", Type: "5", Build: func(p *Peer, lim [2]int) []byte { return p.Logout() }},
		{Name: "App", Type: "V", Build: func(p *Peer, lim [2]int) []byte { return p.App("r" + strconv.Itoa(p.Seq+1)) }},
		// an application message whose header fields stand in front of MsgType, the first of them with the value "A", and
		// which carries the fields a Logon would carry: it is not a Logon
		{Name: "AppWithValueAInFrontOfMsgType", Type: "D", Build: func(p *Peer, lim [2]int) []byte {
			p.Seq++
			mid := "49=A\x0135=D\x0156=" + p.Target + "\x0134=" + strconv.Itoa(p.Seq) + "\x0152=20240101-00:00:00.000\x0198=0\x01108=" + strconv.Itoa(mid(lim)) + "\x01553=user\x01554=pw\x01"
			return fixref.EncodeRaw(fixref.Std, "FIX.4.4", []byte(mid))
		}},
		{Name: "Unknown", Type: "ZZ", Build: func(p *Peer, lim [2]int) []byte { return p.Msg("ZZ", fixref.F("58", "hello")) }},
		{Name: "LocalSend", Local: true},
		{Name: "LocalLogout", Local: true},
	}
}

// Plus2to64 renders 2^64 + n in decimal.
func Plus2to64(n int) string {
	x := new(big.Int).Lsh(big.NewInt(1), 64)
	return x.Add(x, big.NewInt(int64(n))).String()
}

// HugeLength returns a copy whose BodyLength value is 2^64 + the real length (checksum recomputed, so only the
// length field is wrong: it does not state the number of bytes that follow).
func HugeLength(m []byte) []byte {
	fs, err := fixref.TokenizeLoose(m)
	if err != nil || len(fs) < 4 {
		return m
	}
	n, _ := strconv.Atoi(string(fs[1].Val))
	var out []byte
	out = append(out, (fs[0].Tag + "=" + string(fs[0].Val) + "\x01")...)
	out = append(out, (fs[1].Tag + "=" + Plus2to64(n) + "\x01")...)
	for _, f := range fs[2 : len(fs)-1] {
		out = append(out, (f.Tag + "=")...)
		out = append(out, f.Val...)
		out = append(out, 1)
	}
	out = append(out, (fs[len(fs)-1].Tag + "=" + fixref.Sum3(out) + "\x01")...)
	return out
}
