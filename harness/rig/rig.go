// Package rig drives real sessions: a deterministic step driver at handler
// level (logical time only) and a full-stack rig on the scripted transport.
package rig

import (
	"bytes"
	"strconv"
	"time"

	"github.com/b2broker/simplefix-go/session"
	"github.com/b2broker/simplefix-go/session/messages"
	fixgen "github.com/b2broker/simplefix-go/tests/fix44"

	"verifharness/fixref"
)

func atoi(s string) int {
	i, err := strconv.Atoi(s)
	if err != nil {
		panic(err)
	}
	return i
}

// Opts builds the session options the way an application would from the
// generated package (fresh builders per call; nothing shared between sessions).
func Opts() *session.Opts {
	return &session.Opts{
		MessageBuilders: session.MessageBuilders{
			HeaderBuilder:        fixgen.Header{}.New(),
			TrailerBuilder:       fixgen.Trailer{}.New(),
			LogonBuilder:         fixgen.Logon{}.New(),
			LogoutBuilder:        fixgen.Logout{}.New(),
			RejectBuilder:        fixgen.Reject{}.New(),
			HeartbeatBuilder:     fixgen.Heartbeat{}.New(),
			TestRequestBuilder:   fixgen.TestRequest{}.New(),
			ResendRequestBuilder: fixgen.ResendRequest{}.New(),
		},
		Tags: &messages.Tags{
			MsgType:         atoi(fixgen.FieldMsgType),
			MsgSeqNum:       atoi(fixgen.FieldMsgSeqNum),
			HeartBtInt:      atoi(fixgen.FieldHeartBtInt),
			EncryptedMethod: atoi(fixgen.FieldEncryptMethod),
		},
		AllowedEncryptedMethods: map[string]struct{}{
			fixgen.EnumEncryptMethodNoneother: {},
		},
		SessionErrorCodes: &messages.SessionErrorCodes{
			InvalidTagNumber:         atoi(fixgen.EnumSessionRejectReasonInvalidtagnumber),
			RequiredTagMissing:       atoi(fixgen.EnumSessionRejectReasonRequiredtagmissing),
			UndefinedTag:             atoi(fixgen.EnumSessionRejectReasonUndefinedtag),
			TagSpecialWithoutValue:   atoi(fixgen.EnumSessionRejectReasonTagspecifiedwithoutavalue),
			IncorrectValue:           atoi(fixgen.EnumSessionRejectReasonValueisincorrectoutofrangeforthistag),
			IncorrectDataFormatValue: atoi(fixgen.EnumSessionRejectReasonIncorrectdataformatforvalue),
			DecryptionProblem:        atoi(fixgen.EnumSessionRejectReasonDecryptionproblem),
			SignatureProblem:         atoi(fixgen.EnumSessionRejectReasonSignatureproblem),
			CompIDProblem:            atoi(fixgen.EnumSessionRejectReasonCompidproblem),
			Other:                    atoi(fixgen.EnumSessionRejectReasonOther),
		},
	}
}

// FIX tag numbers used by the peer scripts (from the FIX 4.4 specification).
const (
	TSender    = "49"
	TTarget    = "56"
	TSeq       = "34"
	TTime      = "52"
	TEncrypt   = "98"
	THeartBt   = "108"
	TUser      = "553"
	TPass      = "554"
	TTestReqID = "112"
	TBeginSeq  = "7"
	TEndSeq    = "16"
	TRefSeq    = "45"
	TRefTag    = "371"
	TReason    = "373"
	TText      = "58"
)

const (
	PeerID = "PEER"
	LibID  = "LIB"
)

// Peer builds inbound messages with the reference encoder.
type Peer struct {
	Sender, Target string
	Seq            int
}

func NewPeer() *Peer { return &Peer{Sender: PeerID, Target: LibID} }

// Msg builds a well-formed message of the given type with the next sequence number.
func (p *Peer) Msg(msgType string, fields ...fixref.Field) []byte {
	p.Seq++
	return p.MsgSeq(msgType, p.Seq, fields...)
}

// MsgSeq builds a message with an explicit sequence number.
func (p *Peer) MsgSeq(msgType string, seq int, fields ...fixref.Field) []byte {
	hdr := []fixref.Field{
		fixref.F(TSender, p.Sender), fixref.F(TTarget, p.Target),
		fixref.F(TSeq, strconv.Itoa(seq)),
		fixref.F(TTime, time.Now().UTC().Format("20060102-15:04:05.000")),
	}
	return fixref.Encode(fixref.Std, "FIX.4.4", msgType, append(hdr, fields...))
}

func (p *Peer) Logon(hb int, method string, extra ...fixref.Field) []byte {
	fs := []fixref.Field{fixref.F(TEncrypt, method), fixref.F(THeartBt, strconv.Itoa(hb))}
	return p.Msg("A", append(fs, extra...)...)
}
func (p *Peer) Heartbeat() []byte            { return p.Msg("0") }
func (p *Peer) TestRequest(id string) []byte { return p.Msg("1", fixref.F(TTestReqID, id)) }
func (p *Peer) Resend(b, e int) []byte {
	return p.Msg("2", fixref.F(TBeginSeq, strconv.Itoa(b)), fixref.F(TEndSeq, strconv.Itoa(e)))
}
func (p *Peer) Logout() []byte { return p.Msg("5") }
func (p *Peer) App(text string) []byte {
	return p.Msg("V", fixref.F("262", text), fixref.F("263", "1"), fixref.F("264", "0"))
}

// Corrupt returns a copy with a wrong checksum (last digit changed).
func BadChecksum(m []byte) []byte {
	out := append([]byte(nil), m...)
	i := len(out) - 2
	if out[i] == '9' {
		out[i] = '0'
	} else {
		out[i]++
	}
	return out
}

// ChecksumOtherForm returns a copy whose CheckSum field carries the right number in a form that is not the
// three-digit one: without its leading zeros when it has any, otherwise with a sign (k even) or one more zero (k odd).
func ChecksumOtherForm(m []byte, k int) []byte {
	cut := bytes.LastIndex(m[:len(m)-1], []byte{1})
	if cut < 0 || len(m)-cut < 6 {
		return m
	}
	digits := string(m[cut+4 : len(m)-1])
	n, err := strconv.Atoi(digits)
	if err != nil {
		return m
	}
	v := strconv.Itoa(n)
	if len(v) == 3 {
		if k%2 == 0 {
			v = "+" + v
		} else {
			v = "0" + v
		}
	}
	return append(append([]byte(nil), m[:cut+1]...), []byte("10="+v+"\x01")...)
}

// BadLength returns a copy whose BodyLength value is off by one (checksum
// recomputed, so only the length is wrong).
func BadLength(m []byte) []byte {
	fs, err := fixref.TokenizeLoose(m)
	if err != nil || len(fs) < 4 {
		return m
	}
	n, _ := strconv.Atoi(string(fs[1].Val))
	var out []byte
	out = append(out, (fs[0].Tag + "=" + string(fs[0].Val) + "\x01")...)
	out = append(out, (fs[1].Tag + "=" + strconv.Itoa(n+1) + "\x01")...)
	for _, f := range fs[2 : len(fs)-1] {
		out = append(out, (f.Tag + "=")...)
		out = append(out, f.Val...)
		out = append(out, 1)
	}
	out = append(out, (fs[len(fs)-1].Tag + "=" + fixref.Sum3(out) + "\x01")...)
	return out
}

// Reframe re-encodes a message after replacing / removing fields (correct framing).
func Reframe(m []byte, replace map[string]string, remove map[string]bool) []byte {
	fs, err := fixref.TokenizeLoose(m)
	if err != nil || len(fs) < 4 {
		return m
	}
	var mid []fixref.Field
	for _, f := range fs[3 : len(fs)-1] {
		if remove[f.Tag] {
			continue
		}
		if v, ok := replace[f.Tag]; ok {
			f.Val = []byte(v)
		}
		mid = append(mid, f)
	}
	return fixref.Encode(fixref.Std, string(fs[0].Val), string(fs[2].Val), mid)
}
