package rig

import (
	"context"
	"fmt"
	"runtime/pprof"
	"sync"
	"sync/atomic"
	"time"

	simplefixgo "github.com/b2broker/simplefix-go"
	"github.com/b2broker/simplefix-go/session"
	"github.com/b2broker/simplefix-go/storages/memory"
	"github.com/b2broker/simplefix-go/utils"

	"verifharness/fixref"
	"verifharness/wire"
)

// FullCfg configures a full-stack session: the real Initiator.Serve or
// Acceptor.ListenAndServe goroutine structure on the scripted transport.
type FullCfg struct {
	Role         Role
	HeartBtInt   int // initiator: configured interval (acceptor takes it from the peer's Logon)
	Limits       *session.IntLimits
	BufSize      int
	WriteTimeout time.Duration
	CloseTimeout time.Duration
	LogonTimeout time.Duration // LogonSettings.LogonTimeout (default 30 s)
	Counter      session.CounterStorage
	Messages     session.MessageStorage
	Notify       bool   // observers may wait on writes (off under -race)
	Label        string // pprof label "scn" for every goroutine the library spawns
	RecordReads  bool
	// OnSession runs right after the session is constructed (before Session.Run), on
	// the goroutine that constructs it.
	OnSession func(h *simplefixgo.DefaultHandler, s *session.Session)
	// AfterRun runs right after Session.Run returned.
	AfterRun func(h *simplefixgo.DefaultHandler, s *session.Session)
	OnLogon  func(*session.LogonSettings) error
	// SharedOpts, when set, is the one session.Opts object handed to every session of the acceptor (the way the
	// library's examples do it); otherwise every session gets an object of its own.
	SharedOpts *session.Opts
	// Location is Opts.Location of the sessions of this rig (the zone their SendingTime is written in; "" = UTC).
	Location string
}

// Link is one connection with its handler and session.
type Link struct {
	Conn *wire.Conn
	H    *simplefixgo.DefaultHandler
	S    *session.Session
	Peer *Peer
	// LogonExtra are additional fields the scripted peer puts into its Logon.
	LogonExtra []fixref.Field

	Disconnected int64 // unix nano of OnDisconnect, 0 if never
	Stopped      int64 // unix nano of OnStopped
	Connected    int64
	EvDisconnect int64 // session-level EventDisconnect
	RunErr       error
}

// Full is a running full-stack rig.
type Full struct {
	Cfg      FullCfg
	Listener *wire.Listener
	Acc      *simplefixgo.Acceptor
	Ini      *simplefixgo.Initiator
	Links    []*Link
	linkCh   chan *Link
	ServeRet chan struct{} // closed when Serve / ListenAndServe returned
	ServeErr error
	ServeAt  int64
	mu       sync.Mutex
	pending  *wire.Conn
}

func now() int64 { return time.Now().UnixNano() }

func (f *Full) hookHandler(l *Link) {
	l.H.OnDisconnect(func() bool { atomic.CompareAndSwapInt64(&l.Disconnected, 0, now()); return true })
	l.H.OnStopped(func() bool { atomic.CompareAndSwapInt64(&l.Stopped, 0, now()); return true })
	l.H.OnConnect(func() bool { atomic.CompareAndSwapInt64(&l.Connected, 0, now()); return true })
}

func (f *Full) stores() (session.CounterStorage, session.MessageStorage) {
	cs, ms := f.Cfg.Counter, f.Cfg.Messages
	if cs == nil || ms == nil {
		st := memory.NewStorage()
		if cs == nil {
			cs = st
		}
		if ms == nil {
			ms = st
		}
	}
	return cs, ms
}

// StartFull starts the serving side. For an acceptor, connections are added with Connect.
// For an initiator the single connection exists at once (Links[0]).
func StartFull(cfg FullCfg) (*Full, error) {
	if cfg.WriteTimeout == 0 {
		cfg.WriteTimeout = 5 * time.Second
	}
	if cfg.Limits == nil {
		cfg.Limits = &session.IntLimits{Min: 1, Max: 60}
	}
	if cfg.OnLogon == nil {
		cfg.OnLogon = func(*session.LogonSettings) error { return nil }
	}
	f := &Full{Cfg: cfg, ServeRet: make(chan struct{}), linkCh: make(chan *Link, 16)}
	labels := pprof.Labels("scn", cfg.Label)
	if cfg.Role == Acceptor {
		f.Listener = wire.NewListener()
		factory := simplefixgo.NewAcceptorHandlerFactory("35", cfg.BufSize)
		f.Acc = simplefixgo.NewAcceptor(f.Listener, factory, cfg.WriteTimeout, func(h simplefixgo.AcceptorHandler) {
			dh := h.(*simplefixgo.DefaultHandler)
			f.mu.Lock()
			conn := f.pending
			f.pending = nil
			f.mu.Unlock()
			l := &Link{Conn: conn, H: dh, Peer: NewPeer()}
			f.hookHandler(l)
			cs, ms := f.stores()
			opts := cfg.SharedOpts
			if opts == nil {
				opts = Opts()
				opts.Location = cfg.Location
			}
			s, err := session.NewAcceptorSession(opts, dh, &session.LogonSettings{
				LogonTimeout: logonTimeout(cfg), HeartBtLimits: cfg.Limits, CloseTimeout: cfg.CloseTimeout,
			}, func(ls *session.LogonSettings) error { return cfg.OnLogon(ls) }, cs, ms)
			if err != nil {
				l.RunErr = err
				f.linkCh <- l
				return
			}
			l.S = s
			s.OnChangeState(utils.EventDisconnect, func() bool { atomic.CompareAndSwapInt64(&l.EvDisconnect, 0, now()); return true })
			if cfg.OnSession != nil {
				cfg.OnSession(dh, s)
			}
			l.RunErr = s.Run()
			if cfg.AfterRun != nil {
				cfg.AfterRun(dh, s)
			}
			f.linkCh <- l
		})
		go pprof.Do(context.Background(), labels, func(context.Context) {
			f.ServeErr = f.Acc.ListenAndServe()
			atomic.StoreInt64(&f.ServeAt, now())
			close(f.ServeRet)
		})
		return f, nil
	}
	conn := wire.NewConn(cfg.Label, cfg.Notify)
	conn.RecordReads = cfg.RecordReads
	h := simplefixgo.NewInitiatorHandler(context.Background(), "35", cfg.BufSize)
	l := &Link{Conn: conn, H: h, Peer: NewPeer()}
	f.hookHandler(l)
	f.Ini = simplefixgo.NewInitiator(conn, h, cfg.BufSize, cfg.WriteTimeout)
	hb := cfg.HeartBtInt
	if hb == 0 {
		hb = 30
	}
	cs, ms := f.stores()
	iopts := Opts()
	iopts.Location = cfg.Location
	s, err := session.NewInitiatorSession(h, iopts, &session.LogonSettings{
		TargetCompID: PeerID, SenderCompID: LibID, HeartBtInt: hb, EncryptMethod: "0",
		Username: "user", Password: "pw", CloseTimeout: cfg.CloseTimeout, LogonTimeout: logonTimeout(cfg),
	}, cs, ms)
	if err != nil {
		return nil, err
	}
	l.S = s
	s.OnChangeState(utils.EventDisconnect, func() bool { atomic.CompareAndSwapInt64(&l.EvDisconnect, 0, now()); return true })
	if cfg.OnSession != nil {
		cfg.OnSession(h, s)
	}
	f.Links = append(f.Links, l)
	started := make(chan struct{})
	go pprof.Do(context.Background(), labels, func(context.Context) {
		close(started)
		f.ServeErr = f.Ini.Serve()
		atomic.StoreInt64(&f.ServeAt, now())
		close(f.ServeRet)
	})
	<-started
	// Session.Run sends the Logon; with an unbuffered handler it needs the serving loops to be up
	runDone := make(chan struct{})
	go pprof.Do(context.Background(), labels, func(context.Context) {
		l.RunErr = s.Run()
		if cfg.AfterRun != nil {
			cfg.AfterRun(h, s)
		}
		close(runDone)
	})
	select {
	case <-runDone:
	case <-time.After(10 * time.Second):
		return f, fmt.Errorf("Session.Run did not return within 10 s")
	}
	return f, nil
}

// Connect adds a connection to an acceptor and waits until its session exists.
func (f *Full) Connect(name string) (*Link, error) {
	conn := wire.NewConn(name, f.Cfg.Notify)
	conn.RecordReads = f.Cfg.RecordReads
	f.mu.Lock()
	f.pending = conn
	f.mu.Unlock()
	f.Listener.Connect(conn)
	select {
	case l := <-f.linkCh:
		f.Links = append(f.Links, l)
		if l.RunErr != nil {
			return l, l.RunErr
		}
		return l, nil
	case <-time.After(10 * time.Second):
		return nil, fmt.Errorf("acceptor did not create a handler for %s within 10 s", name)
	}
}

// Frame is one message found on the outbound stream.
type Frame struct {
	T      time.Time // time of the Write call that completed it
	Raw    []byte
	Fields []fixref.Field
	Type   string
	Seq    string
}

// Frames splits what the library wrote so far into messages (reference splitter).
func (l *Link) Frames() (frames []Frame, rest []byte) {
	ws := l.Conn.Writes()
	var stream []byte
	var ends []int
	for _, w := range ws {
		stream = append(stream, w.Data...)
		ends = append(ends, len(stream))
	}
	msgs, rest := fixref.SplitStream("10", stream)
	off := 0
	wi := 0
	for _, m := range msgs {
		off += len(m)
		for wi < len(ends) && ends[wi] < off {
			wi++
		}
		fr := Frame{Raw: m}
		if wi < len(ws) {
			fr.T = ws[wi].T
		}
		fr.Fields, _ = fixref.TokenizeLoose(m)
		fr.Type = fixref.GetS(fr.Fields, "35")
		fr.Seq = fixref.GetS(fr.Fields, TSeq)
		frames = append(frames, fr)
	}
	return frames, rest
}

// WaitFrames waits until pred holds on the frames written so far.
func (l *Link) WaitFrames(timeout time.Duration, pred func([]Frame) bool) bool {
	deadline := time.Now().Add(timeout)
	for {
		fr, _ := l.Frames()
		if pred(fr) {
			return true
		}
		if time.Now().After(deadline) {
			return false
		}
		if n := l.Conn.Notify(); n != nil {
			select {
			case <-n:
			case <-time.After(20 * time.Millisecond):
			}
		} else {
			time.Sleep(5 * time.Millisecond)
		}
	}
}

// Logon performs the peer's side of the logon and waits until the session reports logged on.
func (l *Link) Logon(role Role, hb int, timeout time.Duration) bool {
	if role == Initiator {
		// wait for the library's Logon first
		if !l.WaitFrames(timeout, func(fs []Frame) bool { return len(fs) >= 1 }) {
			return false
		}
	}
	l.Conn.Feed(l.Peer.Logon(hb, "0", l.LogonExtra...))
	deadline := time.Now().Add(timeout)
	for time.Now().Before(deadline) {
		if l.S != nil && l.S.IsLogged() {
			if role == Acceptor {
				return l.WaitFrames(timeout, func(fs []Frame) bool { return len(fs) >= 1 })
			}
			return true
		}
		time.Sleep(2 * time.Millisecond)
	}
	return false
}

// Relogon performs a Logout exchange started by the peer followed by a second Logon on the same
// connection (interval hb). It returns the instant the second Logon was handed to the connection.
func (l *Link) Relogon(role Role, hb int, timeout time.Duration) (time.Time, bool) {
	count := func(fs []Frame, typ string) int {
		n := 0
		for _, f := range fs {
			if f.Type == typ {
				n++
			}
		}
		return n
	}
	fs0, _ := l.Frames()
	logouts, logons := count(fs0, "5"), count(fs0, "A")
	l.Conn.Feed(l.Peer.Logout())
	if !l.WaitFrames(timeout, func(fs []Frame) bool { return count(fs, "5") > logouts }) {
		return time.Time{}, false
	}
	deadline := time.Now().Add(timeout)
	for l.S.IsLogged() && time.Now().Before(deadline) {
		time.Sleep(time.Millisecond)
	}
	// let the inbound handler finish its state changes for the Logout before the next message arrives
	time.Sleep(20 * time.Millisecond)
	at := time.Now()
	l.Conn.Feed(l.Peer.Logon(hb, "0"))
	for time.Now().Before(deadline) {
		if l.S.IsLogged() {
			if role == Acceptor {
				return at, l.WaitFrames(timeout, func(fs []Frame) bool { return count(fs, "A") > logons })
			}
			return at, true
		}
		time.Sleep(time.Millisecond)
	}
	return at, false
}

// Since returns the frames written at or after t.
func Since(fs []Frame, t time.Time) []Frame {
	for i, f := range fs {
		if !f.T.Before(t) {
			return fs[i:]
		}
	}
	return nil
}

// Shutdown closes whatever is still open.
func (f *Full) Shutdown() {
	if f.Acc != nil {
		f.Acc.Close()
	}
	if f.Ini != nil {
		f.Ini.Close()
	}
	for _, l := range f.Links {
		if l.Conn != nil {
			l.Conn.Close()
		}
		if l.H != nil {
			l.H.Stop()
		}
	}
}

// Served reports whether the serving call has returned.
func (f *Full) Served() bool {
	select {
	case <-f.ServeRet:
		return true
	default:
		return false
	}
}

func logonTimeout(cfg FullCfg) time.Duration {
	if cfg.LogonTimeout != 0 {
		return cfg.LogonTimeout
	}
	return 30 * time.Second
}
