package rig

import (
	"bytes"
	"context"
	"fmt"
	"runtime/debug"
	"sync"
	"sync/atomic"
	"time"

	simplefixgo "github.com/b2broker/simplefix-go"
	"github.com/b2broker/simplefix-go/session"
	"github.com/b2broker/simplefix-go/storages/memory"
	"github.com/b2broker/simplefix-go/utils"

	"verifharness/fixref"
)

type Role int

const (
	Acceptor Role = iota
	Initiator
)

func (r Role) String() string {
	if r == Acceptor {
		return "acceptor"
	}
	return "initiator"
}

// StepCfg configures one step-driven session.
type StepCfg struct {
	Role         Role
	HeartBtInt   int // initiator's configured interval
	Limits       *session.IntLimits
	OnLogon      func(*session.LogonSettings) error
	Counter      session.CounterStorage
	Messages     session.MessageStorage
	BufferSize   int
	CloseTimeout time.Duration
	Username     string
	Password     string
	// BeforeRun is called with the handler and the session after construction and
	// before Session.Run (to register application handlers first).
	BeforeRun func(h *simplefixgo.DefaultHandler, s *session.Session)
	// AfterRun is called after Session.Run and before the barrier handlers are registered.
	AfterRun func(h *simplefixgo.DefaultHandler, s *session.Session)
	Watchdog time.Duration
	// OnHandler is called with the handler before the session is constructed.
	OnHandler func(h *simplefixgo.DefaultHandler)
	// SentinelBarrier: instead of per-type barrier handlers, a sentinel message of a
	// private type is fed after each inbound message; the handler is unbuffered, so the
	// sentinel is taken only after the message before it has been served completely.
	// Use when application type handlers may refuse (which would skip a barrier handler).
	SentinelBarrier bool
	// OptsMod, when set, may change the session options before the session is constructed (option combinations).
	OptsMod func(o *session.Opts)
}

// Timeouts counts watchdog expiries of all step rigs in this process.
var Timeouts int64

// SentinelType is the MsgType of the sentinel message.
const SentinelType = "ZZS"

// IsSentinel reports whether raw is the sentinel message.
func IsSentinel(raw []byte) bool { return bytes.Contains(raw, []byte("\x0135="+SentinelType+"\x01")) }

var sentinelMsg = fixref.Encode(fixref.Std, "FIX.4.4", SentinelType, nil)

// Out is one message emitted by the library.
type Out struct {
	Raw    []byte
	Fields []fixref.Field
	Type   string
	Err    error // tokenizer error, if any
}

// StepResult is what one step produced and the state sampled after it.
type StepResult struct {
	StateLocked bool // IsLogged() did not return within 2 s
	Outs        []Out
	Logged      bool
	CtxErr      error
	Events      []utils.Event // events fired during this step
	RunEnded    bool          // the handler's Run loop returned during/before this step
	RunErr      error
	Panic       string // panic inside the handler's Run goroutine (library frames), with stack
	TimedOut    bool   // watchdog fired: nothing is known about this step
	SendErr     error  // result of a local action
	Took        time.Duration
}

// StepRig is a real DefaultHandler + Session driven one step at a time.
type StepRig struct {
	Cfg StepCfg
	H   *simplefixgo.DefaultHandler
	S   *session.Session

	mu      sync.Mutex
	outs    []Out
	events  []utils.Event
	syncCh  chan chan struct{}
	holdCh  chan chan struct{}
	stopCol chan struct{}
	colDone chan struct{}

	barrier    chan struct{}
	registered map[string]bool
	runDone    chan struct{}
	runErr     error
	runPanic   string
	cancel     context.CancelFunc
	Started    time.Time
	InitOuts   []Out // what Session.Run itself emitted (initiator Logon)
	RunError   error // error returned by Session.Run
}

var allEvents = []utils.Event{utils.EventDisconnect, utils.EventConnect, utils.EventStopped, utils.EventLogon, utils.EventRequest, utils.EventLogout}

// NewStepRig builds and starts the handler and session.
func NewStepRig(cfg StepCfg) (*StepRig, error) {
	if cfg.Watchdog == 0 {
		cfg.Watchdog = 5 * time.Second
	}
	if cfg.Counter == nil || cfg.Messages == nil {
		st := memory.NewStorage()
		if cfg.Counter == nil {
			cfg.Counter = st
		}
		if cfg.Messages == nil {
			cfg.Messages = st
		}
	}
	if cfg.OnLogon == nil {
		cfg.OnLogon = func(*session.LogonSettings) error { return nil }
	}
	r := &StepRig{Cfg: cfg, syncCh: make(chan chan struct{}), holdCh: make(chan chan struct{}), stopCol: make(chan struct{}), colDone: make(chan struct{}),
		barrier: make(chan struct{}, 4), registered: map[string]bool{}, runDone: make(chan struct{}), Started: time.Now()}
	ctx, cancel := context.WithCancel(context.Background())
	r.cancel = cancel
	var err error
	opts := Opts()
	if cfg.OptsMod != nil {
		cfg.OptsMod(opts)
	}
	if cfg.Role == Acceptor {
		r.H = simplefixgo.NewAcceptorHandler(ctx, "35", cfg.BufferSize)
		if cfg.OnHandler != nil {
			cfg.OnHandler(r.H)
		}
		lim := cfg.Limits
		if lim == nil {
			lim = &session.IntLimits{Min: 5, Max: 60}
		}
		r.S, err = session.NewAcceptorSession(opts, r.H, &session.LogonSettings{
			LogonTimeout: 30 * time.Second, HeartBtLimits: lim, CloseTimeout: cfg.CloseTimeout,
		}, func(ls *session.LogonSettings) error { return cfg.OnLogon(ls) }, cfg.Counter, cfg.Messages)
	} else {
		r.H = simplefixgo.NewInitiatorHandler(ctx, "35", cfg.BufferSize)
		if cfg.OnHandler != nil {
			cfg.OnHandler(r.H)
		}
		hb := cfg.HeartBtInt
		if hb == 0 {
			hb = 10
		}
		r.S, err = session.NewInitiatorSession(r.H, opts, &session.LogonSettings{
			TargetCompID: PeerID, SenderCompID: LibID, HeartBtInt: hb, EncryptMethod: "0",
			Username: cfg.Username, Password: cfg.Password, CloseTimeout: cfg.CloseTimeout, LogonTimeout: 30 * time.Second,
		}, cfg.Counter, cfg.Messages)
	}
	if err != nil {
		cancel()
		return nil, err
	}
	for _, ev := range allEvents {
		ev := ev
		r.S.OnChangeState(ev, func() bool {
			r.mu.Lock()
			r.events = append(r.events, ev)
			r.mu.Unlock()
			return true
		})
	}
	// collector
	go func() {
		defer close(r.colDone)
		for {
			select {
			case m := <-r.H.Outgoing():
				o := Out{Raw: append([]byte(nil), m...)}
				o.Fields, o.Err = fixref.TokenizeLoose(m)
				o.Type = fixref.GetS(o.Fields, "35")
				r.mu.Lock()
				r.outs = append(r.outs, o)
				r.mu.Unlock()
			case ack := <-r.syncCh:
				close(ack)
			case rel := <-r.holdCh:
				select {
				case <-rel:
				case <-r.stopCol:
					return
				}
			case <-r.stopCol:
				return
			}
		}
	}()
	if cfg.BeforeRun != nil {
		cfg.BeforeRun(r.H, r.S)
	}
	before := r.mark()
	r.RunError = r.S.Run()
	r.syncCollector()
	r.InitOuts = r.since(before).Outs
	if cfg.AfterRun != nil {
		cfg.AfterRun(r.H, r.S)
	}
	if !cfg.SentinelBarrier {
		for _, t := range []string{"A", "5", "0", "1", "2", "3", "4", "V", "W", "X", "Y", "D", "8", "ZZ"} {
			r.ensureBarrier(t)
		}
	}
	go func() {
		defer close(r.runDone)
		defer func() {
			if p := recover(); p != nil {
				r.runPanic = fmt.Sprintf("%v\n%s", p, debug.Stack())
			}
		}()
		r.runErr = r.H.Run()
	}()
	return r, nil
}

func (r *StepRig) ensureBarrier(msgType string) {
	if r.registered[msgType] {
		return
	}
	r.registered[msgType] = true
	r.H.HandleIncoming(msgType, func([]byte) bool {
		r.barrier <- struct{}{}
		return true
	})
}

type mark struct{ outs, events int }

func (r *StepRig) mark() mark {
	r.mu.Lock()
	defer r.mu.Unlock()
	return mark{len(r.outs), len(r.events)}
}

func (r *StepRig) syncCollector() {
	ack := make(chan struct{})
	select {
	case r.syncCh <- ack:
		<-ack
	case <-r.colDone:
	}
}

func (r *StepRig) since(m mark) StepResult {
	r.mu.Lock()
	defer r.mu.Unlock()
	res := StepResult{}
	res.Outs = append(res.Outs, r.outs[m.outs:]...)
	res.Events = append(res.Events, r.events[m.events:]...)
	return res
}

func (r *StepRig) sample(res *StepResult, t0 time.Time) {
	// IsLogged takes the session's state lock: a library that is stuck while holding it must not hang the harness
	lg := make(chan bool, 1)
	go func() { lg <- r.S.IsLogged() }()
	select {
	case v := <-lg:
		res.Logged = v
	case <-time.After(2 * time.Second):
		res.TimedOut = true
		res.StateLocked = true
	}
	res.CtxErr = r.S.Context().Err()
	select {
	case <-r.runDone:
		res.RunEnded = true
		res.RunErr = r.runErr
		res.Panic = r.runPanic
	default:
	}
	res.Took = time.Since(t0)
}

// Inbound feeds one message and waits until the session has finished with it.
func (r *StepRig) Inbound(msg []byte) StepResult {
	t0 := time.Now()
	m := r.mark()
	if atomic.LoadInt64(&Timeouts) > 40 {
		// circuit breaker: the code under test stopped serving messages; do not spend the watchdog on every further step
		res := r.since(m)
		res.TimedOut = true
		r.sample(&res, t0)
		return res
	}
	if !r.Cfg.SentinelBarrier {
		if fs, err := fixref.TokenizeLoose(msg); err == nil {
			if ty, ok := fixref.Get(fs, "35"); ok {
				r.ensureBarrier(string(ty))
			}
		}
	}
	served := make(chan struct{})
	go func() {
		defer close(served)
		r.H.ServeIncoming(msg)
		if r.Cfg.SentinelBarrier {
			r.H.ServeIncoming(sentinelMsg)
		}
	}()
	timer := time.NewTimer(r.Cfg.Watchdog)
	defer timer.Stop()
	var res StepResult
	select {
	case <-served:
	case <-r.runDone:
		res = r.since(m)
		r.sample(&res, t0)
		return res
	case <-timer.C:
		atomic.AddInt64(&Timeouts, 1)
		res = r.since(m)
		res.TimedOut = true
		r.sample(&res, t0)
		return res
	}
	if !r.Cfg.SentinelBarrier {
		select {
		case <-r.barrier:
		case <-r.runDone:
		case <-timer.C:
			atomic.AddInt64(&Timeouts, 1)
			res = r.since(m)
			res.TimedOut = true
			r.sample(&res, t0)
			return res
		}
	}
	r.syncCollector()
	res = r.since(m)
	r.sample(&res, t0)
	return res
}

// Do runs a local action (Send, Logout, Stop, ...) synchronously; with an
// unbuffered handler everything it emits is collected before it returns.
func (r *StepRig) Do(fn func() error) StepResult {
	t0 := time.Now()
	m := r.mark()
	done := make(chan error, 1)
	go func() {
		defer func() {
			if p := recover(); p != nil {
				done <- fmt.Errorf("panic in local action: %v\n%s", p, debug.Stack())
			}
		}()
		done <- fn()
	}()
	var res StepResult
	select {
	case err := <-done:
		r.syncCollector()
		res = r.since(m)
		res.SendErr = err
	case <-time.After(r.Cfg.Watchdog):
		res = r.since(m)
		res.TimedOut = true
	}
	r.sample(&res, t0)
	return res
}

// Drain returns what was emitted since the mark-less last call (for asynchronous effects).
func (r *StepRig) Snapshot() (outs int, events int) {
	m := r.mark()
	return m.outs, m.events
}

// HoldOutgoing makes the collector stop taking messages from Outgoing() until the returned function is
// called: with a buffered handler what the session sends meanwhile stays queued in the handler's channel.
// Do not call Do/Inbound/AllOuts while holding (they wait for the collector).
func (r *StepRig) HoldOutgoing() (release func()) {
	rel := make(chan struct{})
	select {
	case r.holdCh <- rel:
	case <-r.colDone:
	}
	return func() { close(rel) }
}

// AllOuts returns every message emitted so far.
func (r *StepRig) AllOuts() []Out {
	r.syncCollector()
	r.mu.Lock()
	defer r.mu.Unlock()
	return append([]Out(nil), r.outs...)
}

// AllEvents returns every event fired so far.
func (r *StepRig) AllEvents() []utils.Event {
	r.mu.Lock()
	defer r.mu.Unlock()
	return append([]utils.Event(nil), r.events...)
}

// Close cancels the handler context and stops the collector.
func (r *StepRig) Close() {
	r.cancel()
	select {
	case <-r.runDone:
		// what Initiator.Serve / Acceptor.serve do when they end: without it the handler's goroutine that drains
		// late errors waits for ever (one goroutine and everything it refers to per rig)
		func() {
			defer func() { _ = recover() }()
			r.H.CloseErrorChan()
		}()
	case <-time.After(2 * time.Second):
	}
	close(r.stopCol)
}

// Elapsed is the wall time since the rig was built.
func (r *StepRig) Elapsed() time.Duration { return time.Since(r.Started) }
