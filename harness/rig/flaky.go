package rig

import (
	"errors"
	"sync/atomic"

	simplefixgo "github.com/b2broker/simplefix-go"
	"github.com/b2broker/simplefix-go/fix"
	"github.com/b2broker/simplefix-go/storages/memory"
)

// FlakyStore is the bundled in-memory store with scripted transient faults: each Fail* flag, when set to 1, makes
// the next matching call fail once and clears itself.
type FlakyStore struct {
	*memory.Storage
	FailNextOutgoingNumber int32 // GetNextSeqNum for the outgoing side
	FailNextIncomingRecord int32 // SetSeqNum for the incoming side
	FailNextSave           int32 // Save
	Faults                 int32 // how many faults were delivered
}

func NewFlakyStore() *FlakyStore { return &FlakyStore{Storage: memory.NewStorage()} }

var errScripted = errors.New("scripted: store unavailable")

func (f *FlakyStore) GetNextSeqNum(id fix.StorageID) (int, error) {
	if id.Side == fix.Outgoing && atomic.CompareAndSwapInt32(&f.FailNextOutgoingNumber, 1, 0) {
		atomic.AddInt32(&f.Faults, 1)
		return 0, errScripted
	}
	return f.Storage.GetNextSeqNum(id)
}

func (f *FlakyStore) SetSeqNum(id fix.StorageID, n int) error {
	if id.Side == fix.Incoming && atomic.CompareAndSwapInt32(&f.FailNextIncomingRecord, 1, 0) {
		atomic.AddInt32(&f.Faults, 1)
		return errScripted
	}
	return f.Storage.SetSeqNum(id, n)
}

func (f *FlakyStore) Save(id fix.StorageID, msg simplefixgo.SendingMessage, n int) error {
	if atomic.CompareAndSwapInt32(&f.FailNextSave, 1, 0) {
		atomic.AddInt32(&f.Faults, 1)
		return errScripted
	}
	return f.Storage.Save(id, msg, n)
}
