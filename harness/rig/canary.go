package rig

import (
	"sync/atomic"
	"time"
)

// Canary measures scheduler oversleep: a goroutine sleeping 5 ms in a loop
// records by how much each sleep overshot. Timing verdicts use it as slack and
// turn overloaded runs into "inconclusive".
type Canary struct {
	max  int64
	stop chan struct{}
}

func StartCanary() *Canary {
	c := &Canary{stop: make(chan struct{})}
	go func() {
		for {
			t0 := time.Now()
			select {
			case <-c.stop:
				return
			case <-time.After(5 * time.Millisecond):
			}
			if d := int64(time.Since(t0) - 5*time.Millisecond); d > atomic.LoadInt64(&c.max) {
				atomic.StoreInt64(&c.max, d)
			}
		}
	}()
	return c
}

// Max is the largest oversleep seen so far.
func (c *Canary) Max() time.Duration { return time.Duration(atomic.LoadInt64(&c.max)) }

// Reset forgets the maximum (per-scenario measurement).
func (c *Canary) Reset() { atomic.StoreInt64(&c.max, 0) }

func (c *Canary) Stop() { close(c.stop) }
