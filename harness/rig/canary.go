package rig

import (
	"sync"
	"sync/atomic"
	"time"
)

// Canary measures scheduler oversleep: a goroutine sleeping 5 ms in a loop
// records by how much each sleep overshot. Timing verdicts use it as slack and
// turn overloaded runs into "inconclusive".
type Canary struct {
	max  int64
	stop chan struct{}

	mu      sync.Mutex
	samples []canarySample // every sleep that overshot by more than 1 ms
}

type canarySample struct {
	from, to time.Time
	over     time.Duration
}

func StartCanary() *Canary {
	c := &Canary{stop: make(chan struct{})}
	go func() {
		for {
			t0 := time.Now()
			select {
			case <-c.stop:
				return
			case <-time.After(5 * time.Millisecond):
			}
			t1 := time.Now()
			d := int64(t1.Sub(t0) - 5*time.Millisecond)
			if d > atomic.LoadInt64(&c.max) {
				atomic.StoreInt64(&c.max, d)
			}
			if d > int64(time.Millisecond) {
				c.mu.Lock()
				c.samples = append(c.samples, canarySample{t0, t1, time.Duration(d)})
				c.mu.Unlock()
			}
		}
	}()
	return c
}

// Max is the largest oversleep seen so far.
func (c *Canary) Max() time.Duration { return time.Duration(atomic.LoadInt64(&c.max)) }

// MaxBetween is the largest oversleep of a sleep that overlapped [from, to] (1 ms when none overshot by more).
func (c *Canary) MaxBetween(from, to time.Time) time.Duration {
	m := time.Millisecond
	c.mu.Lock()
	defer c.mu.Unlock()
	for _, s := range c.samples {
		if s.to.Before(from) || s.from.After(to) {
			continue
		}
		if s.over > m {
			m = s.over
		}
	}
	return m
}

// Reset forgets the maximum (per-scenario measurement).
func (c *Canary) Reset() { atomic.StoreInt64(&c.max, 0) }

func (c *Canary) Stop() { close(c.stop) }
