package rig

import (
	"bufio"
	"bytes"
	"regexp"
	"runtime/pprof"
	"strconv"
	"strings"
)

// GStack is one group of goroutines with identical stacks in a goroutine profile.
type GStack struct {
	Count  int
	Label  string   // value of the "scn" label, "" if none
	Frames []string // function names, innermost first
}

var reHead = regexp.MustCompile(`^(\d+) @`)
var reLabel = regexp.MustCompile(`"scn":"([^"]*)"`)

// GoroutineProfile parses runtime/pprof's goroutine profile (debug=1).
func GoroutineProfile() []GStack {
	var buf bytes.Buffer
	_ = pprof.Lookup("goroutine").WriteTo(&buf, 1)
	var out []GStack
	var cur *GStack
	sc := bufio.NewScanner(&buf)
	sc.Buffer(make([]byte, 1<<20), 1<<26)
	for sc.Scan() {
		line := sc.Text()
		if m := reHead.FindStringSubmatch(line); m != nil {
			n, _ := strconv.Atoi(m[1])
			out = append(out, GStack{Count: n})
			cur = &out[len(out)-1]
			continue
		}
		if cur == nil {
			continue
		}
		if strings.HasPrefix(line, "# labels:") {
			if m := reLabel.FindStringSubmatch(line); m != nil {
				cur.Label = m[1]
			}
			continue
		}
		if strings.HasPrefix(line, "#\t") {
			parts := strings.Split(line, "\t")
			if len(parts) >= 3 {
				fn := parts[2]
				if i := strings.LastIndex(fn, "+0x"); i > 0 {
					fn = fn[:i]
				}
				cur.Frames = append(cur.Frames, fn)
			}
		}
	}
	return out
}

const libPrefix = "github.com/b2broker/simplefix-go"

// IsLibFrame reports whether a function belongs to the library (not the generated test package).
func IsLibFrame(fn string) bool {
	return strings.HasPrefix(fn, libPrefix) && !strings.HasPrefix(fn, libPrefix+"/tests")
}

// StartedByLibrary reports whether the goroutine's entry function is a library
// function or an errgroup worker started by one.
func (g GStack) StartedByLibrary() bool {
	if len(g.Frames) == 0 {
		return false
	}
	entry := g.Frames[len(g.Frames)-1]
	if IsLibFrame(entry) {
		return true
	}
	if strings.HasPrefix(entry, "golang.org/x/sync/errgroup.") {
		for _, f := range g.Frames {
			if IsLibFrame(f) {
				return true
			}
		}
	}
	return false
}

// TopLibFrame is the innermost library function of the stack.
func (g GStack) TopLibFrame() string {
	for _, f := range g.Frames {
		if IsLibFrame(f) {
			return strings.TrimPrefix(f, libPrefix)
		}
	}
	return ""
}

// Has reports whether any frame contains the substring.
func (g GStack) Has(sub string) bool {
	for _, f := range g.Frames {
		if strings.Contains(f, sub) {
			return true
		}
	}
	return false
}

// Sig is a stable signature of the stack.
func (g GStack) Sig() string { return strings.Join(g.Frames, "<") }
