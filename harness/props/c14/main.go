// C14 — a TestRequest is answered by one Heartbeat echoing its TestReqID.
package main

import (
	"bytes"
	"errors"
	"fmt"
	"runtime"
	"strings"
	"sync"
	"sync/atomic"
	"time"

	simplefixgo "github.com/b2broker/simplefix-go"
	"github.com/b2broker/simplefix-go/fix"
	"github.com/b2broker/simplefix-go/session"
	"github.com/b2broker/simplefix-go/storages/memory"
	fixgen "github.com/b2broker/simplefix-go/tests/fix44"

	"verifharness/fixref"
	"verifharness/gen"
	"verifharness/rig"
	"verifharness/vk"
)

func idFor(c *vk.Ctx, i int) []byte {
	r := c.Rand("c14-id", int64(i))
	switch {
	case i < 255: // every single byte value except SOH
		b := byte(i)
		if b >= 1 {
			b++
		}
		return []byte{b}
	case i < 255+40:
		decoys := []string{"112=", "112=x", "10=", "10=000", "35=A", "35=0", "34=1", "9=5", "8=FIX.4.4", "=", "==", " ", "  a  ", "0", "00", "-1", "1e5",
			"112=112=", "x112=1", "a=b=c", "|", "Y", "N", "\x00", "\x00\x00", "\xff\xfe", "\x02", "id 10=123 tail", "T35=5", "49=PEER", "56=LIB", "52=20240101-00:00:00.000",
			"7=1", "16=0", "45=3", "371=34", "373=5", "108=30", "98=0", "141=Y"}
		return []byte(decoys[i-255])
	case i < 255+40+12:
		lens := []int{2, 3, 7, 16, 63, 64, 255, 256, 1000, 4095, 4096, 10000}
		n := lens[i-255-40]
		b := make([]byte, n)
		for k := range b {
			b[k] = "abcdefghij=0123 "[r.Intn(16)]
		}
		return b
	}
	return []byte(gen.RandString(r, 40, []string{"112", "10", "35", "34", "9"}))
}

var can *rig.Canary

// stuck: a step that takes microseconds has not finished when the 5 s watchdog fired. On a machine whose scheduler was
// on time during those seconds the handler loop is blocked for good: the TestRequest of this step (or the next one)
// is never answered. With a late scheduler nothing is concluded.
func stuck(c *vk.Ctx, since time.Time, role rig.Role, what, ctx string, i int) {
	if jit := can.MaxBetween(since, time.Now()); jit > 100*time.Millisecond {
		c.Inconclusive(fmt.Sprintf("watchdog (scheduler oversleep %v)", jit))
		return
	}
	c.Violate("C14/testrequest-never-answered/handler-loop-stuck", fmt.Sprintf("%s session: 5 s after %s was handed to the session the handler loop had not finished serving it; no TestRequest is answered any more (context: %s)", role, what, ctx), map[string]interface{}{"role": role.String(), "context": ctx, "index": i, "seed": c.Seed})
}

func main() {
	c := vk.Init("C14")
	can = rig.StartCanary()
	defer can.Stop()
	c.Rule("TestReqID values: every single byte value except SOH (255), 40 decoys ('112=', '10=000', '35=A', '=', spaces, digits, NUL, high bytes, text resembling other fields), lengths up to 10000, random strings; each injected at every kind of position of a logged-on history (directly after logon, several in a row, between Heartbeats / application messages / rejected messages / local sends), both roles; every fifth session on a counter store that fails once to record the TestRequest's incoming number; every fifth session with an application OnError handler that sends an alert through the session, and Rejects failing on transient store faults before some of the TestRequests; plus real-time sessions (N=1) in which the session's own TestRequest is pending when the peer's TestRequests arrive; plus real-time sessions observed for 2.4 s after an answer (the periodic Heartbeats that follow must not carry the TestReqID again); plus sessions on the full stack (scripted net.Conn, connection reader/writer) given identifiers of 1..70000 bytes incl. every length 4088..4104 and 8184..8200, and bursts of 40 TestRequests against a slowly reading peer (handler buffers 0/1/4/10; answers must come in request order); plus answers whose write stalls after 1..60 bytes until the write deadline: the connection is ended, or the peer has received one well-formed Heartbeat. Oracle per TestRequest step: exactly one message emitted in that step (so before any later reply), MsgType 0, its 112 value (reference tokenizer) byte-equal to the ID. distinct = distinct (ID bytes, role, context); non-trivial = all")
	n := c.Pick(700, 12000)
	vk.Parallel(n, runtime.NumCPU(), func(i int) {
		r := c.Rand("c14", int64(i))
		role := rig.Role(i % 2)
		// every fifth session runs on a counter store that, when armed, fails once to record an incoming sequence
		// number (a transient fault of the application's store): the TestRequest was received all the same
		scfg := rig.StepCfg{Role: role, HeartBtInt: 30, Limits: &session.IntLimits{Min: 5, Max: 60}}
		var flaky *flakyCounter
		if i%5 == 2 {
			flaky = &flakyCounter{Storage: memory.NewStorage()}
			scfg.Counter, scfg.Messages, scfg.SentinelBarrier = flaky, flaky, true
		}
		// every fifth session: the application reacts to errors the session reports (OnError) by sending an alert
		// through the same session; before some of the TestRequests a Reject of the session fails on a transient store
		// fault (message store or counter store), which is such an error
		var reacting *rig.FlakyStore
		if i%5 == 4 {
			reacting = rig.NewFlakyStore()
			scfg.Counter, scfg.Messages, scfg.SentinelBarrier = reacting, reacting, true
			scfg.AfterRun = func(_ *simplefixgo.DefaultHandler, s *session.Session) {
				s.OnError(func(error) {
					_ = s.Send(fixgen.CreateMarketDataRequestReject("alert"))
				})
			}
		}
		// every sixth session: the application watches TestRequests with two incoming observers registered before
		// Session.Run and takes them out again, in registration order, once the session is logged on
		var trObs [2]int64
		watch := i%6 == 3
		if watch {
			prev := scfg.BeforeRun
			scfg.BeforeRun = func(h *simplefixgo.DefaultHandler, s *session.Session) {
				if prev != nil {
					prev(h, s)
				}
				trObs[0] = h.HandleIncoming("1", func([]byte) bool { return true })
				trObs[1] = h.HandleIncoming("1", func([]byte) bool { return true })
			}
		}
		rg, err := rig.NewStepRig(scfg)
		if err != nil {
			c.Inconclusive("rig: " + err.Error())
			return
		}
		defer rg.Close()
		p := rig.NewPeer()
		if watch {
			defer c.Count("sessions_with_testrequest_observers_removed_in_order", 1)
		}
		if res := rg.Inbound(p.Logon(30, "0")); !res.Logged {
			c.Inconclusive("could not log on")
			return
		}
		if watch {
			_ = rg.H.RemoveIncomingHandler("1", trObs[0])
			_ = rg.H.RemoveIncomingHandler("1", trObs[1])
		}
		steps := 1 + r.Intn(6)
		var ctx []string
		for k := 0; k < steps; k++ {
			// interleave other traffic
			switch r.Intn(6) {
			case 0:
				rg.Inbound(p.Heartbeat())
				ctx = append(ctx, "hb")
			case 1:
				rg.Inbound(p.App("x"))
				ctx = append(ctx, "app")
			case 2:
				rg.Inbound(rig.BadChecksum(p.Heartbeat()))
				ctx = append(ctx, "bad")
			case 3:
				rg.Do(func() error { return rg.S.Send(fixgen.CreateMarketDataRequestReject("r")) })
				ctx = append(ctx, "send")
			case 4:
				// a sloppy peer asks for retransmissions over ranges that cannot be served as they stand
				rs := [][2]int{{0, 0}, {0, 1}, {1, 0}, {5, 2}, {1, 99999}}[r.Intn(5)]
				rg.Inbound(p.Resend(rs[0], rs[1]))
				ctx = append(ctx, fmt.Sprintf("resend(%d,%d)", rs[0], rs[1]))
			}
			id := idFor(c, (i*7+k*131)%(255+40+12+400))
			if i < 255+40+12 && k == 0 {
				id = idFor(c, i)
			}
			if reacting != nil && r.Intn(2) == 0 {
				if r.Intn(2) == 0 {
					atomic.StoreInt32(&reacting.FailNextSave, 1)
				} else {
					atomic.StoreInt32(&reacting.FailNextOutgoingNumber, 1)
				}
				t0 := time.Now()
				if res := rg.Inbound(rig.BadChecksum(p.Heartbeat())); res.TimedOut {
					stuck(c, t0, role, "the damaged Heartbeat whose Reject failed on a store fault (the application's OnError handler sends through the session)", strings.Join(ctx, ","), i)
					return
				}
				ctx = append(ctx, "reject-failed-on-store-fault+application-alert")
				c.Count("reported_send_errors_the_application_reacted_to_by_sending", 1)
			}
			msg := p.Msg("1", fixref.Field{Tag: rig.TTestReqID, Val: id})
			if flaky != nil && r.Intn(2) == 0 {
				atomic.StoreInt32(&flaky.armed, 1)
				ctx = append(ctx, "counter-store-fault")
				c.Count("testrequests_whose_incoming_number_could_not_be_recorded", 1)
			}
			t0 := time.Now()
			res := rg.Inbound(msg)
			ctx = append(ctx, "TR")
			if res.TimedOut {
				stuck(c, t0, role, "the TestRequest", strings.Join(ctx, ","), i)
				return
			}
			c.Eval(vk.Hash64(id, []byte(role.String()), []byte(strings.Join(ctx, ","))), true)
			c.SetAdd("id_lengths", fmt.Sprint(len(id)))
			if len(id) == 1 {
				c.SetAdd("single_byte_ids", fmt.Sprintf("%02x", id[0]))
			}
			c.SetAdd("contexts", strings.Join(ctx[max(0, len(ctx)-2):], ">"))
			replay := map[string]interface{}{"id_hex": fmt.Sprintf("%x", id), "role": role.String(), "context": strings.Join(ctx, ","), "index": i, "seed": c.Seed}
			if res.Panic != "" {
				c.Violate("C14/panic", "panic: "+vk.Trunc(res.Panic, 500), replay)
				return
			}
			cls := "plain"
			if bytes.Contains(id, []byte("=")) {
				cls = "contains-equals"
			}
			if len(id) > 256 {
				cls = "long"
			}
			if len(res.Outs) != 1 || res.Outs[0].Type != "0" {
				var t []string
				for _, o := range res.Outs {
					t = append(t, o.Type)
				}
				c.Violate("C14/not-exactly-one-heartbeat/"+cls, fmt.Sprintf("TestRequest with ID %q answered with %v in its own step, want exactly one Heartbeat", vk.Trunc(string(id), 80), t), replay)
				continue
			}
			got, ok := fixref.Get(res.Outs[0].Fields, rig.TTestReqID)
			if !ok || !bytes.Equal(got, id) {
				c.Violate("C14/testreqid-not-echoed/"+cls, fmt.Sprintf("TestReqID sent %q, Heartbeat carries %q", vk.Trunc(string(id), 80), vk.Trunc(string(got), 80)), replay)
			}
			if c.WantSample() && i%53 == 1 {
				c.Sample(map[string]interface{}{"id": vk.Trunc(string(id), 60), "role": role.String(), "context": strings.Join(ctx, ","), "heartbeat": vk.Trunc(fixref.Pretty(res.Outs[0].Raw), 200)})
			}
		}
	})
	// real time: the session's own TestRequest is pending (the peer was silent for N+1 s) when the peer's TestRequest arrives
	nrt := c.Pick(4, 24)
	var wg sync.WaitGroup
	for i := 0; i < nrt; i++ {
		wg.Add(1)
		go func(i int) {
			defer wg.Done()
			role := rig.Role(i % 2)
			desc := fmt.Sprintf("%s N=1: logon, 2.3 s of silence (the session sends its own TestRequest), then 2 TestRequests from the peer", role)
			rg, err := rig.NewStepRig(rig.StepCfg{Role: role, HeartBtInt: 1, Limits: &session.IntLimits{Min: 1, Max: 60}})
			if err != nil {
				return
			}
			defer rg.Close()
			p := rig.NewPeer()
			if res := rg.Inbound(p.Logon(1, "0")); !res.Logged {
				return
			}
			time.Sleep(2300*time.Millisecond + time.Duration(i*20)*time.Millisecond)
			own := 0
			for _, o := range rg.AllOuts() {
				if o.Type == "1" {
					own++
				}
			}
			if own == 0 {
				c.Count("realtime_scenarios_without_own_testrequest", 1)
				return
			}
			for k := 0; k < 2; k++ {
				id := []byte(fmt.Sprintf("PING=%d-%d", i, k))
				res := rg.Inbound(p.Msg("1", fixref.Field{Tag: rig.TTestReqID, Val: id}))
				if res.TimedOut {
					return
				}
				var hb []rig.Out
				for _, o := range res.Outs {
					if o.Type == "0" {
						if v, ok := fixref.Get(o.Fields, rig.TTestReqID); ok && bytes.Equal(v, id) {
							hb = append(hb, o)
						}
					}
				}
				c.Eval(vk.Hash64(id, []byte(desc)), true)
				c.Count("testrequests_while_own_testrequest_pending", 1)
				if len(hb) != 1 {
					var t []string
					for _, o := range res.Outs {
						t = append(t, o.Type)
					}
					c.Violate("C14/not-exactly-one-heartbeat/own-testrequest-pending", fmt.Sprintf("%s: TestRequest %q answered with %v", desc, id, t), map[string]interface{}{"scenario": desc})
				}
			}
		}(i)
	}
	wg.Wait()
	// real time: after the answer, the session's periodic Heartbeats (N=1) must not carry that TestReqID again
	nst := c.Pick(4, 16)
	for i := 0; i < nst; i++ {
		wg.Add(1)
		go func(i int) {
			defer wg.Done()
			role := rig.Role(i % 2)
			desc := fmt.Sprintf("%s N=1: logon, one TestRequest, then 2.4 s in which the peer only sends Heartbeats", role)
			rg, err := rig.NewStepRig(rig.StepCfg{Role: role, HeartBtInt: 1, Limits: &session.IntLimits{Min: 1, Max: 60}})
			if err != nil {
				return
			}
			defer rg.Close()
			p := rig.NewPeer()
			if res := rg.Inbound(p.Logon(1, "0")); !res.Logged {
				return
			}
			id := []byte(fmt.Sprintf("PING=%d A", i))
			rg.Inbound(p.Msg("1", fixref.Field{Tag: rig.TTestReqID, Val: id}))
			for k := 0; k < 3; k++ {
				time.Sleep(800 * time.Millisecond)
				rg.Inbound(p.Heartbeat())
			}
			n, periodic := 0, 0
			for _, o := range rg.AllOuts() {
				if o.Type != "0" {
					continue
				}
				if v, ok := fixref.Get(o.Fields, rig.TTestReqID); ok && bytes.Equal(v, id) {
					n++
				} else if !ok {
					periodic++
				}
			}
			c.Eval(vk.Hash64(id, []byte(desc)), periodic > 0)
			c.Count("answers_followed_by_periodic_heartbeats", 1)
			if n != 1 {
				c.Violate("C14/not-exactly-one-heartbeat/testreqid-repeated-on-later-heartbeats", fmt.Sprintf("%s: %d Heartbeats carry the TestReqID %q (the answer and %d later ones); %d periodic Heartbeats without it", desc, n, id, n-1, periodic), map[string]interface{}{"scenario": desc})
			}
		}(i)
	}
	wg.Wait()
	fullStack(c)
	stalledAnswer(c)
	c.Finish()
}

// fullStack sends TestRequests through the whole stack (scripted net.Conn, the library's connection reader and writer,
// handler, session): long identifiers around the sizes of I/O buffers, one at a time, and the reply is read from the
// bytes the library wrote.
func fullStack(c *vk.Ctx) {
	lengths := []int{1, 50, 1000, 4000, 5000, 8192, 10000, 16384, 70000}
	for d := -8; d <= 8; d++ {
		lengths = append(lengths, 4096+d, 8192+d)
	}
	if c.Thorough() {
		for d := -40; d <= 40; d++ {
			lengths = append(lengths, 4096+d, 65536+d)
		}
	}
	var wg sync.WaitGroup
	for ri, role := range []rig.Role{rig.Acceptor, rig.Initiator} {
		for part := 0; part < 4; part++ {
			wg.Add(1)
			go func(ri int, role rig.Role, part int) {
				defer wg.Done()
				f, err := rig.StartFull(rig.FullCfg{Role: role, HeartBtInt: 30, BufSize: []int{0, 1, 10, 10}[part], Notify: true, Label: fmt.Sprintf("c14-full-%d-%d", ri, part)})
				if err != nil {
					c.Inconclusive("rig: " + err.Error())
					return
				}
				defer f.Shutdown()
				var l *rig.Link
				if role == rig.Acceptor {
					if l, err = f.Connect("c14"); err != nil {
						c.Inconclusive("connect: " + err.Error())
						return
					}
				} else {
					l = f.Links[0]
				}
				if !l.Logon(role, 30, 5*time.Second) {
					c.Inconclusive("full-stack logon did not complete")
					return
				}
				for k, n := range lengths {
					if k%4 != part {
						continue
					}
					r := c.Rand("c14-full", int64(n*10+ri))
					id := make([]byte, n)
					for j := range id {
						id[j] = "abcdefghijklmnopqrstuvwxyz0123456789= "[r.Intn(38)]
					}
					fr0, _ := l.Frames()
					before := len(fr0)
					l.Conn.Feed(l.Peer.Msg("1", fixref.Field{Tag: rig.TTestReqID, Val: id}))
					ok := l.WaitFrames(5*time.Second, func(fs []rig.Frame) bool { return len(fs) > before })
					time.Sleep(5 * time.Millisecond)
					fr, _ := l.Frames()
					c.Eval(vk.Hash64(id, []byte(role.String()), []byte("full-stack")), true)
					c.SetAdd("full_stack_id_lengths", fmt.Sprint(n))
					c.Count("full_stack_testrequests", 1)
					replay := map[string]interface{}{"id_length": n, "role": role.String(), "seed": c.Seed, "stack": "scripted net.Conn"}
					closed, _ := l.Conn.Closed()
					if !ok || len(fr) != before+1 || fr[before].Type != "0" {
						var t []string
						for _, x := range fr[before:] {
							t = append(t, x.Type)
						}
						c.Violate("C14/full-stack/not-exactly-one-heartbeat", fmt.Sprintf("%s: a TestRequest whose TestReqID is %d bytes long, sent over the connection, was answered with %v (connection closed by the library: %v)", role, n, t, closed), replay)
						return
					}
					if got, has := fixref.Get(fr[before].Fields, rig.TTestReqID); !has || !bytes.Equal(got, id) {
						c.Violate("C14/full-stack/testreqid-not-echoed", fmt.Sprintf("%s: TestReqID of %d bytes came back as %d bytes", role, n, len(got)), replay)
						return
					}
				}
			}(ri, role, part)
		}
	}
	// a burst of TestRequests while the peer reads slowly (the outgoing queue is full most of the time): every
	// answer still comes before the answer to any later request
	for ri, role := range []rig.Role{rig.Acceptor, rig.Initiator} {
		for bi, buf := range []int{0, 1, 4, 10} {
			wg.Add(1)
			go func(ri int, role rig.Role, bi, buf int) {
				defer wg.Done()
				f, err := rig.StartFull(rig.FullCfg{Role: role, HeartBtInt: 30, BufSize: buf, Notify: true, Label: fmt.Sprintf("c14-burst-%d-%d", ri, bi)})
				if err != nil {
					c.Inconclusive("rig: " + err.Error())
					return
				}
				defer f.Shutdown()
				var l *rig.Link
				if role == rig.Acceptor {
					if l, err = f.Connect("c14b"); err != nil {
						c.Inconclusive("connect: " + err.Error())
						return
					}
				} else {
					l = f.Links[0]
				}
				if !l.Logon(role, 30, 5*time.Second) {
					c.Inconclusive("full-stack logon did not complete")
					return
				}
				fr0, _ := l.Frames()
				before := len(fr0)
				l.Conn.SetWriteDelay(2 * time.Millisecond)
				const nReq = 40
				var burst []byte
				var ids []string
				for k := 0; k < nReq; k++ {
					id := fmt.Sprintf("REQ-%03d", k)
					ids = append(ids, id)
					burst = append(burst, l.Peer.Msg("1", fixref.F(rig.TTestReqID, id))...)
				}
				l.Conn.Feed(burst)
				l.WaitFrames(10*time.Second, func(fs []rig.Frame) bool { return len(fs) >= before+nReq })
				time.Sleep(20 * time.Millisecond)
				fr, _ := l.Frames()
				var got []string
				for _, x := range fr[before:] {
					if x.Type == "0" {
						if v, ok := fixref.Get(x.Fields, rig.TTestReqID); ok {
							got = append(got, string(v))
						}
					}
				}
				desc := fmt.Sprintf("%s buffer=%d: %d TestRequests in one burst, the peer takes 2 ms per message it reads", role, buf, nReq)
				c.Eval(vk.Hash64([]byte(desc)), true)
				c.Count("full_stack_burst_testrequests", nReq)
				replay := map[string]interface{}{"scenario": desc, "seed": c.Seed, "answers_in_wire_order": strings.Join(got, ",")}
				if len(got) != nReq {
					c.Violate("C14/full-stack/burst-not-every-request-answered-once", fmt.Sprintf("%s: %d answers", desc, len(got)), replay)
					return
				}
				for k := range got {
					if got[k] != ids[k] {
						c.Violate("C14/full-stack/burst-answers-out-of-order", fmt.Sprintf("%s: answer #%d echoes %s but request #%d was %s", desc, k, got[k], k, ids[k]), replay)
						return
					}
				}
			}(ri, role, bi, buf)
		}
	}
	wg.Wait()
}

// flakyCounter is the bundled store whose next SetSeqNum for the incoming side fails once when armed.
type flakyCounter struct {
	*memory.Storage
	armed int32
}

func (f *flakyCounter) SetSeqNum(id fix.StorageID, n int) error {
	if id.Side == fix.Incoming && atomic.CompareAndSwapInt32(&f.armed, 1, 0) {
		return errors.New("scripted: counter store unavailable")
	}
	return f.Storage.SetSeqNum(id, n)
}

func max(a, b int) int {
	if a > b {
		return a
	}
	return b
}

// stalledAnswer: the peer's window fills up in the middle of the Heartbeat that answers its TestRequest — the first
// bytes are taken, the rest is not, and the write deadline expires; afterwards the peer reads again. Either the
// connection is ended (then nothing more is owed), or it goes on — and then what the peer received for that
// TestRequest is one well-formed Heartbeat with its TestReqID, not fragments of one.
func stalledAnswer(c *vk.Ctx) {
	var wg sync.WaitGroup
	for i := 0; i < c.Pick(8, 48); i++ {
		wg.Add(1)
		go func(i int) {
			defer wg.Done()
			role := rig.Role(i % 2)
			taken := []int{1, 7, 20, 40, 60}[(i/2)%5]
			desc := fmt.Sprintf("%s: the write of the Heartbeat answer stalls after %d bytes until the write deadline (150 ms), then the peer reads again", role, taken)
			f, err := rig.StartFull(rig.FullCfg{Role: role, HeartBtInt: 30, BufSize: []int{0, 4}[(i/10)%2], WriteTimeout: 150 * time.Millisecond, Notify: true, Label: fmt.Sprintf("c14-stall-%d", i)})
			if err != nil {
				c.Inconclusive("rig: " + err.Error())
				return
			}
			defer f.Shutdown()
			var l *rig.Link
			if role == rig.Acceptor {
				if l, err = f.Connect("c14-stall"); err != nil {
					c.Inconclusive("connect: " + err.Error())
					return
				}
			} else {
				l = f.Links[0]
			}
			if !l.Logon(role, 30, 5*time.Second) {
				c.Inconclusive("stalled-answer logon did not complete")
				return
			}
			l.Conn.PartialStallAt(len(l.Conn.Writes())+1, taken)
			l.Conn.Feed(l.Peer.TestRequest("TR-ONE"))
			time.Sleep(700 * time.Millisecond) // several write deadlines
			closed, _ := l.Conn.Closed()
			c.Eval(vk.Hash64([]byte(desc), []byte{byte(i)}), true)
			c.Count("answers_whose_write_stalled_midway", 1)
			if closed {
				c.Count("stalled_answers_after_which_the_connection_was_ended", 1)
				return
			}
			// the connection lives on: the peer must have received one well-formed answer
			l.Conn.Feed(l.Peer.TestRequest("TR-TWO"))
			l.WaitFrames(2*time.Second, func(fs []rig.Frame) bool {
				for _, fr := range fs {
					if fr.Type == "0" && fixref.GetS(fr.Fields, rig.TTestReqID) == "TR-TWO" {
						return true
					}
				}
				return false
			})
			stream := l.Conn.Written()
			msgs, rest := fixref.SplitStream("10", stream)
			good := 0
			for _, m := range msgs {
				if fixref.CheckFrame(fixref.Std, m) != nil {
					continue
				}
				fs, _ := fixref.TokenizeLoose(m)
				if fixref.GetS(fs, "35") == "0" && fixref.GetS(fs, rig.TTestReqID) == "TR-ONE" {
					good++
				}
			}
			if good != 1 || len(rest) != 0 {
				c.Violate("C14/not-exactly-one-heartbeat/write-stalled-midway", fmt.Sprintf("%s: the session went on serving, but the peer received %d well-formed Heartbeats for TR-ONE; the outbound stream: %s", desc, good, vk.Trunc(fixref.Pretty(stream), 600)), map[string]interface{}{"case": desc, "index": i})
			}
		}(i)
	}
	wg.Wait()
}
