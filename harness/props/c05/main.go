// C05 — outbound messages are numbered 1,2,3,... with no gap, duplicate or reordering.
package main

import (
	"bytes"
	"fmt"
	"math/rand"
	"runtime"
	"strconv"
	"strings"
	"sync"
	"sync/atomic"
	"time"

	"github.com/anishathalye/porcupine"
	simplefixgo "github.com/b2broker/simplefix-go"
	"github.com/b2broker/simplefix-go/fix"
	"github.com/b2broker/simplefix-go/session"
	"github.com/b2broker/simplefix-go/storages/memory"
	fixgen "github.com/b2broker/simplefix-go/tests/fix44"

	"verifharness/fixref"
	"verifharness/rig"
	"verifharness/vk"
	"verifharness/wire"
)

// slowStore delegates to the bundled store and sleeps a little inside every call
// (after the atomic increment of GetNextSeqNum, inside Save).
type slowStore struct {
	*memory.Storage
	n      int64
	delays int64
	maxUs  int64
}

func (s *slowStore) nap() {
	k := atomic.AddInt64(&s.n, 1)
	h := uint64(k) * 0x9e3779b97f4a7c15
	us := int64(h>>40) % (s.maxUs + 1)
	if h&3 == 0 {
		us = 0
	}
	if us > 0 {
		atomic.AddInt64(&s.delays, 1)
		time.Sleep(time.Duration(us) * time.Microsecond)
	} else if h&4 == 0 {
		runtime.Gosched()
	}
}
func (s *slowStore) GetNextSeqNum(id fix.StorageID) (int, error) {
	n, err := s.Storage.GetNextSeqNum(id)
	s.nap()
	return n, err
}
func (s *slowStore) Save(id fix.StorageID, m simplefixgo.SendingMessage, seq int) error {
	s.nap()
	return s.Storage.Save(id, m, seq)
}

// gateStore holds the first GetNextSeqNum call (made under the session's send lock) until the gate opens.
type gateStore struct {
	*memory.Storage
	armed   int32
	entered chan struct{}
	gate    chan struct{}
	// logonSeen is set by the application's Logon callback, which the session calls after it has taken the peer's
	// identifiers over; afterLogon[n] says whether it was set when number n was asked for (under the send lock)
	logonSeen  int32
	mu         sync.Mutex
	afterLogon map[int]bool
}

func (s *gateStore) GetNextSeqNum(id fix.StorageID) (int, error) {
	seen := atomic.LoadInt32(&s.logonSeen) == 1
	n, err := s.Storage.GetNextSeqNum(id)
	s.mu.Lock()
	s.afterLogon[n] = seen
	s.mu.Unlock()
	if atomic.CompareAndSwapInt32(&s.armed, 1, 2) {
		close(s.entered)
		<-s.gate
	} else {
		time.Sleep(time.Millisecond) // under the send lock: whoever is next finds the inbound path well past its take-over
	}
	return n, err
}

// sendsAcrossLogon: accepting side. One application Send sits in the counter store (under the send lock) while K more
// Sends queue up behind it and the peer's Logon arrives; then the store lets go. The session takes the peer's
// identifiers over before it numbers its Logon reply, and numbering order is wire order, so every message that
// follows the Logon reply on the wire was numbered after the take-over and must carry the mirrored identifiers;
// messages in front of it carry either none (numbered before the take-over) or the mirrored ones. Numbers are
// consecutive from 1 whatever the order. Decided on the peer-side capture only; the sleeps only shape the schedule.
func sendsAcrossLogon(c *vk.Ctx, i int) {
	K := 1 + i%6
	buf := []int{0, 1, 10}[(i/6)%3]
	desc := fmt.Sprintf("acceptor sends-across-logon K=%d buf=%d logonQueuedFirst=%v GOMAXPROCS=%d #%d", K, buf, (i/18)%2 == 0, runtime.GOMAXPROCS(0), i)
	replay := map[string]interface{}{"scenario": desc, "index": i, "seed": c.Seed}
	st := &gateStore{Storage: memory.NewStorage(), armed: 1, entered: make(chan struct{}), gate: make(chan struct{}), afterLogon: map[int]bool{}}
	f, err := rig.StartFull(rig.FullCfg{Role: rig.Acceptor, HeartBtInt: 30, BufSize: buf, Counter: st, Messages: st, Notify: true, Label: fmt.Sprintf("c05-across-%d", i),
		OnLogon: func(*session.LogonSettings) error { atomic.StoreInt32(&st.logonSeen, 1); return nil }})
	if err != nil {
		c.Inconclusive("rig: " + err.Error())
		return
	}
	defer f.Shutdown()
	opened := false
	defer func() {
		if !opened {
			close(st.gate)
		}
	}()
	l, err := f.Connect("c05-across")
	if err != nil {
		c.Inconclusive("connect: " + err.Error())
		return
	}
	var wg sync.WaitGroup
	send := func(id string) {
		wg.Add(1)
		go func() {
			defer wg.Done()
			_ = l.S.Send(fixgen.CreateMarketDataRequestReject(id))
		}()
	}
	send("across-x")
	select {
	case <-st.entered:
	case <-time.After(5 * time.Second):
		c.Inconclusive("the first Send never reached the counter store: " + desc)
		return
	}
	logonFirst := (i/18)%2 == 0
	if logonFirst {
		// the inbound path queues on the send lock in front of the K sends (the lock is handed on in arrival order
		// once somebody has waited a millisecond)
		l.Conn.Feed(l.Peer.Logon(30, "0"))
		time.Sleep(time.Duration(5+(i/3)%20) * time.Millisecond)
	}
	for k := 0; k < K; k++ {
		send(fmt.Sprintf("across-y%d", k))
	}
	time.Sleep(time.Duration(5+i%20) * time.Millisecond) // the K sends are (most likely) waiting for the send lock now
	if !logonFirst {
		l.Conn.Feed(l.Peer.Logon(30, "0"))
		time.Sleep(time.Duration(5+(i/3)%20) * time.Millisecond) // and so is the inbound path with the Logon
	}
	opened = true
	close(st.gate)
	want := K + 2
	if !l.WaitFrames(8*time.Second, func(fs []rig.Frame) bool { return len(fs) >= want }) {
		c.Inconclusive("fewer than K+2 messages on the wire after 8 s: " + desc)
		return
	}
	wg.Wait()
	frames, _ := l.Frames()
	replyAt := -1
	var order []string
	for j, fr := range frames {
		order = append(order, fr.Type+":"+fr.Seq+":"+fixref.GetS(fr.Fields, rig.TSender))
		if fr.Type == "A" && replyAt < 0 {
			replyAt = j
		}
	}
	replay["wire(type:34:49)"] = strings.Join(order, " ")
	if replyAt < 0 {
		c.Inconclusive("no Logon reply on the wire: " + desc)
		return
	}
	c.Eval(vk.Hash64([]byte("across"), []byte(fmt.Sprint(K, buf, replyAt))), true)
	c.Count("sends_across_logon/scenarios", 1)
	c.Count("sends_across_logon/messages_behind_the_logon_reply", int64(len(frames)-1-replyAt))
	c.SetAdd("sends_across_logon/position_of_logon_reply", strconv.Itoa(replyAt))
	for j, fr := range frames {
		if err := fixref.CheckFrame(fixref.Std, fr.Raw); err != nil {
			c.Violate("C05/invalid-frame-on-wire(C01)", fmt.Sprintf("%s: frame #%d: %v", desc, j, err), replay)
			return
		}
		if fr.Seq != strconv.Itoa(j+1) {
			c.Violate("C05/sequence-across-logon", fmt.Sprintf("%s: wire position %d carries 34=%s, want %d", desc, j, fr.Seq, j+1), replay)
			return
		}
		sn, tg := fixref.GetS(fr.Fields, rig.TSender), fixref.GetS(fr.Fields, rig.TTarget)
		mirrored := sn == rig.LibID && tg == rig.PeerID
		st.mu.Lock()
		numberedAfter := st.afterLogon[j+1]
		st.mu.Unlock()
		if numberedAfter {
			c.Count("sends_across_logon/messages_numbered_after_the_logon_callback", 1)
			if fr.Type != "A" {
				c.Count("sends_across_logon/application_sends_numbered_after_the_logon_callback", 1)
			}
		}
		if numberedAfter && !mirrored {
			c.Violate("C05/wrong-comp-ids/numbered-after-the-logon-take-over", fmt.Sprintf("%s: frame %d (35=%s 34=%s) got its number after the application's Logon callback had run (the session takes the peer's identifiers over before it calls it), but carries 49=%q 56=%q, want 49=%s 56=%s", desc, j, fr.Type, fr.Seq, sn, tg, rig.LibID, rig.PeerID), replay)
			return
		}
		if j >= replyAt && !mirrored {
			c.Violate("C05/wrong-comp-ids/numbered-after-the-logon-take-over", fmt.Sprintf("%s: frame %d (35=%s 34=%s) follows the session's Logon reply (34=%s) on the wire, so it was numbered after the peer's identifiers were taken over, but carries 49=%q 56=%q, want 49=%s 56=%s", desc, j, fr.Type, fr.Seq, frames[replyAt].Seq, sn, tg, rig.LibID, rig.PeerID), replay)
			return
		}
		if j < replyAt && !mirrored && !(sn == "" && tg == "") {
			c.Violate("C05/wrong-comp-ids/before-the-logon-reply", fmt.Sprintf("%s: frame %d (35=%s 34=%s) carries 49=%q 56=%q: neither the unset identifiers of a session nobody has logged on to nor the mirrored ones", desc, j, fr.Type, fr.Seq, sn, tg), replay)
			return
		}
	}
}

type sendRec struct {
	g         int
	call, ret int64
	seq       int
	err       error
}

const layout = "20060102-15:04:05.000"

func sourceOf(f rig.Frame) string {
	switch f.Type {
	case "Y":
		id := fixref.GetS(f.Fields, "262")
		if i := strings.Index(id, "-"); i > 0 {
			return "app:" + id[:i]
		}
		return "app"
	case "0":
		if _, ok := fixref.Get(f.Fields, rig.TTestReqID); ok {
			return "reply"
		}
		return "hb-timer"
	case "1":
		return "tr-timer"
	case "3":
		return "reject"
	case "A":
		return "logon"
	}
	return f.Type
}

// ownFrames drops the frames that repeat an earlier frame byte for byte (retransmissions).
func ownFrames(c *vk.Ctx, frames []rig.Frame) []rig.Frame {
	seen := map[string]bool{}
	var own []rig.Frame
	for _, f := range frames {
		if seen[string(f.Raw)] {
			c.Count("wire_messages/retransmission(not numbered)", 1)
			continue
		}
		seen[string(f.Raw)] = true
		own = append(own, f)
	}
	return own
}

func checkWire(c *vk.Ctx, desc string, frames []rig.Frame, c0 int, role rig.Role, sawLogon bool, replay map[string]interface{}, locs ...*time.Location) (sig string, switches int) {
	return checkWireIDs(c, desc, frames, c0, role, sawLogon, replay, rig.LibID, rig.PeerID, locs...)
}

// checkWireIDs is checkWire for a session whose identifiers are not the rig's default ones.
func checkWireIDs(c *vk.Ctx, desc string, frames []rig.Frame, c0 int, role rig.Role, sawLogon bool, replay map[string]interface{}, wantSender, wantTarget string, locs ...*time.Location) (sig string, switches int) {
	loc := time.UTC
	if len(locs) > 0 && locs[0] != nil {
		loc = locs[0]
	}
	var prevT time.Time
	prevSrc := ""
	var sb strings.Builder
	// "retransmissions requested by the peer aside": a frame that repeats an earlier frame byte for byte is the
	// retransmission of that frame (C10 judges those); everything else is a message of its own and is numbered
	for i, f := range frames {
		if err := fixref.CheckFrame(fixref.Std, f.Raw); err != nil {
			c.Violate("C05/invalid-frame-on-wire(C01)", fmt.Sprintf("%s: frame #%d fails the framing oracle: %v: %s", desc, i, err, vk.Trunc(fixref.Pretty(f.Raw), 300)), replay)
			return
		}
		want := c0 + 1 + i
		if fixref.GetS(frames[0].Fields, "141") == "Y" {
			// the session announces a sequence reset in its own Logon: the numbering restarts at 1 with that message
			want = 1 + i
		}
		got, err := strconv.Atoi(f.Seq)
		if err != nil || got != want {
			cls := "gap"
			if err == nil && got < want {
				cls = "duplicate-or-reordered"
			}
			var seqs []string
			for _, x := range frames {
				seqs = append(seqs, x.Seq)
			}
			c.Violate("C05/sequence-"+cls, fmt.Sprintf("%s: wire position %d carries 34=%s, want %d; wire order of 34: %s", desc, i, f.Seq, want, vk.Trunc(strings.Join(seqs, ","), 600)), replay)
			return
		}
		if sawLogon || i > 0 || role == rig.Initiator {
			if fixref.GetS(f.Fields, rig.TSender) != wantSender || fixref.GetS(f.Fields, rig.TTarget) != wantTarget {
				c.Violate("C05/wrong-comp-ids/"+role.String(), fmt.Sprintf("%s: frame %d (35=%s 34=%s) carries 49=%s 56=%s, want 49=%s 56=%s", desc, i, f.Type, f.Seq, fixref.GetS(f.Fields, rig.TSender), fixref.GetS(f.Fields, rig.TTarget), wantSender, wantTarget), replay)
				return
			}
		}
		ts, err := time.ParseInLocation(layout, fixref.GetS(f.Fields, rig.TTime), loc)
		if err != nil {
			c.Violate("C05/sending-time-format", fmt.Sprintf("%s: frame %d has 52=%q", desc, i, fixref.GetS(f.Fields, rig.TTime)), replay)
			return
		}
		if !prevT.IsZero() && ts.Before(prevT) {
			c.Violate("C05/sending-time-goes-backwards", fmt.Sprintf("%s: frame %d (34=%s) has 52=%s, the previous frame on the wire has %s: the time was not taken at send time under the numbering lock", desc, i, f.Seq, ts.Format(layout), prevT.Format(layout)), replay)
			return
		}
		if ts.After(f.T.Add(2 * time.Millisecond)) {
			c.Violate("C05/sending-time-after-write", fmt.Sprintf("%s: frame %d has 52=%s but was written at %s", desc, i, ts.Format(layout), f.T.UTC().Format(layout)), replay)
			return
		}
		prevT = ts
		src := sourceOf(f)
		kind := src
		if strings.HasPrefix(kind, "app:") {
			kind = "app"
		}
		if src != prevSrc {
			if prevSrc != "" {
				switches++
			}
			sb.WriteString(kind[:1])
			prevSrc = src
		}
		c.Count("wire_messages/"+kind, 1)
	}
	return sb.String(), switches
}

func scenario(c *vk.Ctx, i int) {
	r := c.Rand("c05", int64(i))
	role := rig.Role(i % 2)
	G := []int{1, 2, 4, 8, 16}[r.Intn(5)]
	M := 3 + r.Intn(14)
	buf := []int{0, 1, 10}[r.Intn(3)]
	chatty := r.Intn(2) == 0
	st := &slowStore{Storage: memory.NewStorage(), maxUs: int64([]int{0, 200, 2000}[r.Intn(3)])}
	flood := (i/2)%3 == 0 // every third scenario: dense back-to-back sends against a slow reader, so that the buffer is full most of the time
	if flood {
		st.maxUs = 0
		M = 25
		if G < 4 {
			G = 4
		}
	}
	// every fifth scenario: the session writes its SendingTime in another zone (Opts.Location) than the sessions that
	// run next to it in this process
	var loc *time.Location
	locName := ""
	if (i/2)%5 == 2 {
		if l, err := time.LoadLocation("Asia/Tokyo"); err == nil {
			loc, locName = l, "Asia/Tokyo"
			c.Count("sessions_with_their_own_time_zone", 1)
		}
	}
	// every fourth scenario: the (chatty) peer also sends ResendRequests for a few messages below the last one sent
	partialResend := (i/2)%4 == 1
	if partialResend {
		chatty = true
	}
	// every sixth scenario: a large outgoing buffer, messages of 1.5 kB and a peer that does not read at all during
	// the first 1.3 s — several hundred kB are queued when the writer gets going again
	backlog := (i/2)%6 == 3
	pad := ""
	if backlog {
		buf = 512
		pad = strings.Repeat("p", 1500)
		c.Count("scenarios_with_a_backlog_of_several_hundred_kB", 1)
	}
	c0 := 0
	if r.Intn(3) == 0 {
		c0 = r.Intn(500)
		_ = st.SetSeqNum(fix.StorageID{Side: fix.Outgoing}, c0)
	}
	slowPeer := []time.Duration{0, 100 * time.Microsecond, 300 * time.Microsecond}[r.Intn(3)]
	reuse := (i/2)%2 == 1 // every sender goroutine builds one message object and sends that object M times
	desc := fmt.Sprintf("%s reusedObjects=%v flood=%v backlog=%v partialResends=%v zone=%q G=%d M=%d buf=%d chatty=%v storeDelayMaxUs=%d peerReadsEvery=%v c0=%d GOMAXPROCS=%d #%d", role, reuse, flood, backlog, partialResend, locName, G, M, buf, chatty, st.maxUs, slowPeer, c0, runtime.GOMAXPROCS(0), i)
	_ = desc
	replay := map[string]interface{}{"scenario": desc, "index": i, "seed": c.Seed}
	holdCh := make(chan struct{})
	f, err := rig.StartFull(rig.FullCfg{Role: role, HeartBtInt: 1, BufSize: buf, Counter: st, Messages: st, Notify: true, Location: locName, Label: fmt.Sprintf("c05-%d", i),
		AfterRun: func(h *simplefixgo.DefaultHandler, s *session.Session) {
			h.HandleOutgoing(simplefixgo.AllMsgTypes, func(m simplefixgo.SendingMessage) bool {
				st.nap()
				if b, _ := m.ToBytes(); bytes.Contains(b, []byte("262=hold-me")) {
					<-holdCh // a send that is still in flight (delayed in a handler) when its connection is lost
				}
				return true
			})
		}})
	if err != nil {
		c.Inconclusive("rig: " + err.Error())
		return
	}
	defer f.Shutdown()
	defer func() {
		if holdCh != nil {
			close(holdCh)
		}
	}()
	var l *rig.Link
	if role == rig.Acceptor {
		if l, err = f.Connect("c05"); err != nil {
			c.Inconclusive("connect: " + err.Error())
			return
		}
	} else {
		l = f.Links[0]
	}
	if (i/4)%3 == 1 {
		l.LogonExtra = []fixref.Field{fixref.F("141", "Y")} // the peer asks for a sequence reset (ResetSeqNumFlag)
		c.Count("sessions_whose_peer_logon_carries_ResetSeqNumFlag", 1)
	}
	refusedFirst := role == rig.Acceptor && (i/8)%2 == 1
	if refusedFirst {
		// the peer's first Logon is refused (interval above the limit): the Reject is the session's first message and
		// already carries the identifiers mirrored from that Logon
		l.Conn.Feed(l.Peer.Logon(1000, "0"))
		if !l.WaitFrames(3*time.Second, func(fs []rig.Frame) bool { return len(fs) >= 1 }) {
			c.Inconclusive("no answer to the refused Logon: " + desc)
			return
		}
		c.Count("sessions_whose_first_logon_was_refused", 1)
	}
	if !l.Logon(role, 1, 5*time.Second) {
		c.Inconclusive("logon did not complete: " + desc)
		return
	}
	if flood && slowPeer == 0 {
		slowPeer = 300 * time.Microsecond
	}
	l.Conn.SetWriteDelay(slowPeer) // a peer that reads slowly: the outgoing buffer fills up during bursts
	if backlog {
		l.Conn.SetWriteMode(wire.WriteStall)
		go func() {
			time.Sleep(1300 * time.Millisecond)
			l.Conn.SetWriteMode(wire.WriteAccept)
		}()
	}
	// senders: bursts whose start times are spread across the 1 s heartbeat and 2 s test-request expiries
	var mu sync.Mutex
	var sends []sendRec
	var wg sync.WaitGroup
	start := time.Now()
	for g := 0; g < G; g++ {
		wg.Add(1)
		go func(g int) {
			defer wg.Done()
			rr := rand.New(rand.NewSource(int64(i*100 + g)))
			time.Sleep(time.Duration(rr.Intn(900)) * time.Millisecond)
			own := fixgen.CreateMarketDataRequestReject(fmt.Sprintf("g%d-reused%s", g, pad))
			for k := 0; k < M; k++ {
				if !flood && rr.Intn(4) == 0 {
					time.Sleep(time.Duration(rr.Intn(700)) * time.Millisecond)
				}
				m := fixgen.CreateMarketDataRequestReject(fmt.Sprintf("g%d-%d%s", g, k, pad))
				if reuse {
					m = own
				}
				t0 := time.Now().UnixNano()
				err := l.S.Send(m)
				t1 := time.Now().UnixNano()
				mu.Lock()
				sends = append(sends, sendRec{g: g, call: t0, ret: t1, seq: m.HeaderBuilder().MsgSeqNum(), err: err})
				mu.Unlock()
			}
		}(g)
	}
	// the peer: test requests and damaged messages draw replies and rejects on the inbound goroutine
	stopPeer := make(chan struct{})
	var pw sync.WaitGroup
	pw.Add(1)
	go func() {
		defer pw.Done()
		rr := rand.New(rand.NewSource(int64(i)))
		for k := 0; ; k++ {
			d := time.Duration(50+rr.Intn(350)) * time.Millisecond
			if !chatty {
				d = time.Duration(2200+rr.Intn(400)) * time.Millisecond // silent long enough for a TestRequest from the library
			}
			select {
			case <-stopPeer:
				return
			case <-time.After(d):
			}
			if partialResend && k%2 == 1 {
				// the peer asks for a few messages again, with an explicit end below the last number sent
				if fr, _ := l.Frames(); len(fr) >= 4 {
					last, _ := strconv.Atoi(fr[len(fr)-1].Seq)
					e := last - 1 - rr.Intn(2)
					b := e - rr.Intn(3)
					if b > c0 && b >= 1 {
						l.Conn.Feed(l.Peer.Resend(b, e))
						c.Count("partial_resend_requests_during_traffic", 1)
						continue
					}
				}
			}
			switch rr.Intn(3) {
			case 0:
				l.Conn.Feed(l.Peer.TestRequest("p" + strconv.Itoa(k)))
			case 1:
				l.Conn.Feed(rig.BadChecksum(l.Peer.Heartbeat()))
			default:
				l.Conn.Feed(l.Peer.Heartbeat())
			}
		}
	}()
	wg.Wait()
	minDur := 2600 * time.Millisecond
	if el := time.Since(start); el < minDur {
		time.Sleep(minDur - el)
	}
	close(stopPeer)
	pw.Wait()
	time.Sleep(150 * time.Millisecond)
	frames, rest := l.Frames()
	if len(rest) != 0 {
		c.Violate("C05/partial-message-on-wire", desc+": trailing bytes that are not a whole message", replay)
	}
	if partialResend {
		// "retransmissions requested by the peer aside": only where the peer did request some
		frames = ownFrames(c, frames)
	}
	sig, switches := checkWire(c, desc, frames, c0, role, refusedFirst, replay, loc)
	// application sends: sending time within [call, return]
	bySeq := map[int]rig.Frame{}
	for _, fr := range frames {
		if n, err := strconv.Atoi(fr.Seq); err == nil {
			bySeq[n] = fr
		}
	}
	ok := 0
	for _, s := range sends {
		if s.err != nil {
			c.Violate("C05/send-failed", fmt.Sprintf("%s: Send returned %v", desc, s.err), replay)
			continue
		}
		fr, found := bySeq[s.seq]
		if !found {
			c.Violate("C05/sent-message-not-on-wire", fmt.Sprintf("%s: Send returned nil for sequence %d but it is not on the wire", desc, s.seq), replay)
			continue
		}
		ok++
		pl := time.UTC
		if loc != nil {
			pl = loc
		}
		ts, err := time.ParseInLocation(layout, fixref.GetS(fr.Fields, rig.TTime), pl)
		if err == nil {
			lo := time.Unix(0, s.call).Add(-2 * time.Millisecond)
			hi := time.Unix(0, s.ret).Add(2 * time.Millisecond)
			if ts.Before(lo) || ts.After(hi) {
				c.Violate("C05/sending-time-not-taken-at-send-time", fmt.Sprintf("%s: message 34=%d has 52=%s but Send ran from %s to %s", desc, s.seq, ts.Format(layout), lo.Format(layout), hi.Format(layout)), replay)
			}
		}
	}
	// porcupine: a counter, each numbering operation returns state+1
	var ops []porcupine.Operation
	for k, s := range sends {
		if s.err == nil {
			ops = append(ops, porcupine.Operation{ClientId: s.g, Input: k, Call: s.call, Output: s.seq, Return: s.ret})
		}
	}
	appSeq := map[int]bool{}
	for _, s := range sends {
		appSeq[s.seq] = true
	}
	t0 := start.Add(-time.Hour).UnixNano()
	t1 := time.Now().Add(time.Hour).UnixNano()
	lib := 0
	for _, fr := range frames {
		n, err := strconv.Atoi(fr.Seq)
		if err != nil || appSeq[n] {
			continue
		}
		// messages the session sent on its own: their numbering moment is only known to lie before the write
		ops = append(ops, porcupine.Operation{ClientId: 100 + lib%8, Input: -1, Call: t0, Output: n, Return: t1})
		lib++
	}
	model := porcupine.Model{
		Init: func() interface{} { return c0 },
		Step: func(state, input, output interface{}) (bool, interface{}) {
			return output.(int) == state.(int)+1, state.(int) + 1
		},
	}
	if len(ops) <= 400 {
		res, _ := porcupine.CheckOperationsVerbose(model, ops, 20*time.Second)
		c.Count("porcupine_histories", 1)
		c.Count("porcupine_ops", int64(len(ops)))
		switch res {
		case porcupine.Illegal:
			c.Violate("C05/numbering-not-linearizable", fmt.Sprintf("%s: the numbers returned to %d concurrent Send calls (plus %d session-originated messages) are not explained by a counter incremented once per send in real-time order", desc, len(sends), lib), replay)
		case porcupine.Unknown:
			c.Count("porcupine_timeouts", 1)
		}
	}
	kinds := map[byte]bool{}
	for k := 0; k < len(sig); k++ {
		kinds[sig[k]] = true
	}
	c.Eval(vk.Hash64([]byte(role.String()), []byte(sig), []byte(fmt.Sprint(G, M, buf))), len(kinds) >= 2)
	c.Count("wire_messages", int64(len(frames)))
	c.Count("source_switches_on_wire", int64(switches))
	c.Count("store_delays_injected", atomic.LoadInt64(&st.delays))
	c.Count("app_sends_confirmed_on_wire", int64(ok))
	c.SetAdd("gomaxprocs", strconv.Itoa(runtime.GOMAXPROCS(0)))
	c.SetAdd("buffer_sizes", strconv.Itoa(buf))
	c.SetAdd("sender_goroutines", strconv.Itoa(G))
	c.SetAdd("reused_message_objects", strconv.FormatBool(reuse))
	if c.WantSample() && i%5 == 0 {
		c.Sample(map[string]interface{}{"scenario": desc, "wire_messages": len(frames), "interleaving_signature(a=app,h=hb-timer,t=tr-timer,r=reply/reject,l=logon)": vk.Trunc(sig, 200)})
	}
	// a later session on the same counter store continues the numbering
	if role == rig.Acceptor && i%3 == 0 {
		last := c0 + len(frames)
		lateSend := (i/6)%2 == 1
		// one message object that the application publishes to both sessions (a cached snapshot)
		shared := fixgen.CreateMarketDataRequestReject("published-to-both-sessions")
		_ = l.S.Send(shared)
		time.Sleep(20 * time.Millisecond)
		if lateSend {
			// one more send on the first session: it draws its number, is saved, and is then held in an outgoing handler
			go func() { _ = l.S.Send(fixgen.CreateMarketDataRequestReject("hold-me")) }()
			time.Sleep(30 * time.Millisecond)
			c.Count("second_sessions_with_a_late_failing_send_of_the_first", 1)
		}
		// messages may still have been written between the snapshot and now (heartbeats): take a fresh snapshot after closing the link
		l.Conn.Close()
		time.Sleep(100 * time.Millisecond)
		fr2, _ := l.Frames()
		if partialResend {
			fr2 = ownFrames(c, fr2)
		}
		last = c0 + len(fr2)
		cur, _ := st.GetCurrSeqNum(fix.StorageID{Side: fix.Outgoing})
		l2, err := f.Connect("c05-second")
		wantS, wantT := rig.LibID, rig.PeerID
		if err == nil && i%12 == 0 {
			// the second counterparty has identifiers of its own: the accepting session mirrors them
			l2.Peer.Sender, l2.Peer.Target = "PEER-TWO", "LIB-TWO"
			wantS, wantT = "LIB-TWO", "PEER-TWO"
			c.Count("second_sessions_with_other_identifiers", 1)
		}
		if err == nil && l2.Logon(role, 30, 5*time.Second) {
			_ = l2.S.Send(shared)
			// the later session keeps sending for longer than two heartbeat periods of the session that is gone (N=1):
			// nothing that session left behind may draw numbers from the shared store meanwhile
			for k := 0; k < 3; k++ {
				_ = l2.S.Send(fixgen.CreateMarketDataRequestReject("second-" + strconv.Itoa(k)))
				if k < 2 && (i/6)%2 == 0 {
					time.Sleep(1300 * time.Millisecond)
				}
				if k == 1 && lateSend {
					// now the held send of the first session is let go: it fails (its handler has stopped)
					close(holdCh)
					holdCh = nil
					time.Sleep(30 * time.Millisecond)
				}
			}
			time.Sleep(50 * time.Millisecond)
			frames2, _ := l2.Frames()
			// numbers assigned to messages that never reached the first connection (closed) are consumed; the second session continues from the stored counter
			checkWireIDs(c, desc+" [second session on the same counter store, counter was "+strconv.Itoa(cur)+", last on first wire "+strconv.Itoa(last)+"]", frames2, cur, role, false, replay, wantS, wantT, loc)
			c.Count("second_sessions_checked", 1)
		}
	}
}

func main() {
	c := vk.Init("C05")
	// one GOMAXPROCS setting per shard
	gmp := []int{16, 1, 2}[c.Shard%3]
	runtime.GOMAXPROCS(gmp)
	c.Rule("session i: either role on the full stack (real Initiator.Serve / Acceptor.ListenAndServe goroutines on a scripted net.Conn), logon by the scripted peer with N=1 (in half of the acceptor groups preceded by a Logon that is refused: the Reject is then message c0+1 and carries the mirrored identifiers; every third group of four: its Logon carries ResetSeqNumFlag=Y; numbering must then still be consecutive from the session's first message, from 1 if the session itself announces a reset), then G in {1,2,4,8,16} goroutines x M in 3..16 application sends (a fresh message object per send, or in every second pair of scenarios one object per goroutine sent M times) in bursts spread over 2.6 s (so that heartbeat and test-request timers expire in between), while the peer injects TestRequests and damaged messages (replies and rejects originate on the inbound goroutine) or stays silent; handler buffer {0,1,10}; the peer reads instantly or takes 100/300 us per message (so that bursts fill the buffer); a store decorator sleeps 0..2 ms after the counter increment, inside Save and in an outgoing handler; one GOMAXPROCS value per shard {16,1,2}; optional second session on the same counter store (in half of those the second session goes on sending for 2.6 s after the first connection was lost; in the other half a send of the first session that was held in an outgoing handler fails while the second session is sending). Oracle on the peer-side capture (reference splitter): 34 = c0+1,c0+2,... in wire order; 49/56; 52 parses, never goes backwards along the wire, is not later than the write, lies within [call,return] of its Send; porcupine counter model over the Send operations. Plus sends-across-logon (accepting side): one application Send held inside the counter store under the send lock, K in 1..6 more Sends queued behind it, the Logon of the peer fed, the store released: numbers consecutive from 1, every message numbered after the application Logon callback ran (flag read in the counter store, under the send lock; the session takes the identifiers over before that callback) or standing behind the Logon reply of the session on the wire carries the mirrored identifiers; the Logon is queued on the send lock in front of the K sends or behind them; those in front of it none or the mirrored ones. distinct = (role, interleaving signature of source kinds on the wire, G, M, buffer); non-trivial = at least 2 source kinds on the wire")
	c.Assume("precondition of the statement: no handler refuses, the stores do not fail; clocks: wall clock without steps during a 3 s scenario (2 ms tolerance)")
	n := c.Pick(24, 500) // per shard
	var wg sync.WaitGroup
	sem := make(chan struct{}, 12)
	for i := 0; i < n; i++ {
		wg.Add(1)
		sem <- struct{}{}
		go func(i int) {
			defer wg.Done()
			defer func() { <-sem }()
			scenario(c, i+c.Shard*100000)
		}(i)
	}
	wg.Wait()
	// accepting side: application sends queued on the send lock while the peer's Logon is taken over
	nAcross := c.Pick(36, 360)
	for i := 0; i < nAcross; i++ {
		wg.Add(1)
		sem <- struct{}{}
		go func(i int) {
			defer wg.Done()
			defer func() { <-sem }()
			sendsAcrossLogon(c, i+c.Shard*100000)
		}(i)
	}
	wg.Wait()
	c.Finish()
}
