// C09 — a silent peer is probed, then disconnected; a live peer never is.
package main

import (
	"errors"
	"fmt"
	simplefixgo "github.com/b2broker/simplefix-go"
	"github.com/b2broker/simplefix-go/fix"
	"github.com/b2broker/simplefix-go/session"
	"github.com/b2broker/simplefix-go/storages/memory"
	"github.com/b2broker/simplefix-go/utils"
	"strconv"
	"strings"
	"sync"
	"sync/atomic"
	"time"

	"verifharness/fixref"
	"verifharness/rig"
	"verifharness/vk"
)

type scen struct {
	role    rig.Role
	n       int
	pattern string
	answer  string // type of the message that ends the silence
	earlier int    // interval of an earlier logon on the same connection (ended by a Logout exchange), 0 = none
}

func (s scen) String() string {
	d := fmt.Sprintf("%s N=%d pattern=%s answer=%s", s.role, s.n, s.pattern, s.answer)
	if s.earlier != 0 {
		d += fmt.Sprintf(" second-logon-on-the-connection(first interval %d)", s.earlier)
	}
	return d
}

// trFailStore refuses to save the first TestRequest (a message-store fault): that TestRequest is not transmitted.
type trFailStore struct {
	*memory.Storage
	refused int32
}

func (s *trFailStore) Save(id fix.StorageID, m simplefixgo.SendingMessage, seq int) error {
	if m.MsgType() == "1" && atomic.CompareAndSwapInt32(&s.refused, 0, 1) {
		return errors.New("scripted: store refuses the TestRequest")
	}
	return s.Storage.Save(id, m, seq)
}

func period(n int) time.Duration {
	tol := n / 20
	if tol < 1 {
		tol = 1
	}
	return time.Duration(n+tol) * time.Second
}

func testRequests(fr []rig.Frame) []rig.Frame {
	var out []rig.Frame
	for _, f := range fr {
		if f.Type == "1" {
			out = append(out, f)
		}
	}
	return out
}

func run(c *vk.Ctx, can *rig.Canary, sc scen, idx int) {
	desc := sc.String()
	replay := map[string]interface{}{"scenario": desc, "index": idx, "seed": c.Seed}
	T := period(sc.n)
	cfg := rig.FullCfg{Role: sc.role, HeartBtInt: sc.n, BufSize: 10, Notify: true, Label: fmt.Sprintf("c09-%d", idx)}
	var fstore *trFailStore
	if sc.pattern == "total-silence-first-testrequest-cannot-be-sent" {
		fstore = &trFailStore{Storage: memory.NewStorage()}
		cfg.Counter, cfg.Messages = fstore, fstore
	}
	if strings.HasSuffix(sc.answer, "+logon-timeout-3s") {
		// the application configured a short LogonTimeout: it concerns the time until the logon, not a logged-on session
		sc.answer = strings.TrimSuffix(sc.answer, "+logon-timeout-3s")
		cfg.LogonTimeout = 3 * time.Second
	}
	var inIDs [2]int64
	removeObservers := strings.HasSuffix(sc.answer, "+observers-removed")
	if removeObservers {
		sc.answer = strings.TrimSuffix(sc.answer, "+observers-removed")
		cfg.OnSession = func(h *simplefixgo.DefaultHandler, s *session.Session) {
			inIDs[0] = h.HandleIncoming(simplefixgo.AllMsgTypes, func([]byte) bool { return true })
			inIDs[1] = h.HandleIncoming(simplefixgo.AllMsgTypes, func([]byte) bool { return true })
		}
	}
	if strings.HasSuffix(sc.answer, "+disconnect-callback-reads-state") {
		// the application subscribed to the disconnect event when it created the session (before Session.Run), and its
		// callback looks at the session, as a reconnect policy would
		sc.answer = strings.TrimSuffix(sc.answer, "+disconnect-callback-reads-state")
		cfg.OnSession = func(h *simplefixgo.DefaultHandler, s *session.Session) {
			s.OnChangeState(utils.EventDisconnect, func() bool {
				_ = s.IsLogged()
				_ = s.Context().Err()
				return true
			})
		}
	}
	f, err := rig.StartFull(cfg)
	if err != nil {
		c.Inconclusive("rig: " + err.Error())
		return
	}
	defer f.Shutdown()
	var l *rig.Link
	if sc.role == rig.Acceptor {
		if l, err = f.Connect("c09"); err != nil {
			c.Inconclusive("connect: " + err.Error())
			return
		}
	} else {
		l = f.Links[0]
	}
	first := sc.n
	if sc.earlier != 0 && sc.role == rig.Acceptor {
		first = sc.earlier // an initiator offers its configured interval at every logon
	}
	if !l.Logon(sc.role, first, 5*time.Second) {
		c.Inconclusive("no logon: " + desc)
		return
	}
	var since time.Time
	if sc.earlier != 0 {
		// the peer logs out and logs on again on the same connection; the observation starts at the second logon
		time.Sleep(200 * time.Millisecond)
		at, ok := l.Relogon(sc.role, sc.n, 5*time.Second)
		if !ok {
			c.Inconclusive("second logon did not complete: " + desc)
			return
		}
		since = at
		c.Count("second_logons", 1)
	}
	frames := func() []rig.Frame {
		fr, _ := l.Frames()
		return rig.Since(fr, since)
	}
	if removeObservers {
		// the application takes out the two incoming observers it registered before the logon, older first
		_ = l.H.RemoveIncomingHandler(simplefixgo.AllMsgTypes, inIDs[0])
		_ = l.H.RemoveIncomingHandler(simplefixgo.AllMsgTypes, inIDs[1])
		c.Count("handler_removals", 2)
	}
	slackNow := func() time.Duration { return 100*time.Millisecond + 3*can.Max() }
	feed := func() time.Time {
		var m []byte
		switch sc.answer {
		case "heartbeat":
			m = l.Peer.Heartbeat()
		case "app":
			m = l.Peer.App("x")
		case "unknown":
			m = l.Peer.Msg("ZZ", fixref.F("58", "x"))
		case "heartbeat-34=0":
			// unusual sequence numbers: the message is inbound traffic all the same
			m = l.Peer.MsgSeq("0", 0)
		case "heartbeat-34=-5":
			m = l.Peer.MsgSeq("0", -5)
		case "app-without-34":
			m = rig.Reframe(l.Peer.App("x"), nil, map[string]bool{rig.TSeq: true})
		default:
			m = l.Peer.TestRequest("k")
		}
		l.Conn.Feed(m)
		return time.Now()
	}
	disconnected := func() bool {
		closed, _ := l.Conn.Closed()
		return closed || atomic.LoadInt64(&l.EvDisconnect) != 0 || atomic.LoadInt64(&l.Stopped) != 0
	}
	overloaded := func() bool {
		if can.Max() > 250*time.Millisecond {
			c.Inconclusive(fmt.Sprintf("scheduler oversleep %v during %s", can.Max(), desc))
			return true
		}
		return false
	}
	patternName := sc.pattern
	if sc.earlier != 0 {
		patternName += fmt.Sprintf("@second-logon(first-interval-%d)", sc.earlier)
	}
	key := func(what string) string { return fmt.Sprintf("C09/%s/%s/N=%d/%s", what, sc.role, sc.n, patternName) }
	// reference instant: the last inbound message (the peer's Logon)
	lastIn := time.Now()
	if sc.earlier != 0 {
		lastIn = since
	}
	nontrivial := false
	defer func() { c.Eval(vk.Hash64([]byte(desc)), nontrivial) }()

	awaitTestRequest := func(since time.Time, nBefore int) (rig.Frame, bool) {
		deadline := since.Add(T + T/10 + slackNow() + 200*time.Millisecond)
		for time.Now().Before(deadline) {
			fr := frames()
			if trs := testRequests(fr); len(trs) > nBefore {
				return trs[nBefore], true
			}
			time.Sleep(5 * time.Millisecond)
		}
		fr := frames()
		if trs := testRequests(fr); len(trs) > nBefore {
			return trs[nBefore], true
		}
		return rig.Frame{}, false
	}

	if sc.pattern == "second-message-then-silence" {
		// a second inbound message T/20 after the Logon: the silence is measured from IT
		time.Sleep(T / 20)
		lastIn = feed()
		sc.pattern = "total-silence"
		defer func() { sc.pattern = "second-message-then-silence" }()
	}
	switch sc.pattern {
	case "silence-after-peer-logout":
		// the peer logs out (the session answers) and then says nothing more on the open connection: it is probed and
		// disconnected like any silent peer
		time.Sleep(T / 10)
		before := len(frames())
		l.Conn.Feed(l.Peer.Logout())
		lastIn = time.Now()
		l.WaitFrames(2*time.Second, func(fs []rig.Frame) bool { return len(rig.Since(fs, since)) > before })
		sc.pattern = "total-silence"
		defer func() { sc.pattern = "silence-after-peer-logout" }()
	case "silence-after-own-unanswered-logout":
		// the application logs out, the peer never answers and stays silent
		time.Sleep(T / 10)
		go func() { _ = l.S.Logout() }()
		sc.pattern = "total-silence"
		defer func() { sc.pattern = "silence-after-own-unanswered-logout" }()
	}
	switch sc.pattern {
	case "total-silence":
		tr, ok := awaitTestRequest(lastIn, 0)
		if overloaded() {
			return
		}
		bound := T + T/10 + slackNow()
		if !ok || tr.T.Sub(lastIn) > bound {
			c.Violate(key("no-testrequest-to-silent-peer"), fmt.Sprintf("%s: no TestRequest within %v of the last inbound message (got one: %v)", desc, bound, ok), replay)
			return
		}
		nontrivial = true
		c.Count("testrequests_seen", 1)
		c.Max("max_testrequest_delay_ms_N="+strconv.Itoa(sc.n), tr.T.Sub(lastIn).Milliseconds())
		if tr.T.Sub(lastIn) < T-20*time.Millisecond-3*can.Max() {
			c.Violate(key("testrequest-too-early"), fmt.Sprintf("%s: TestRequest %v after the last inbound message; the period is %v", desc, tr.T.Sub(lastIn).Round(time.Millisecond), T), replay)
		}
		// second period: disconnect event, handler stopped, connection closed
		deadline := tr.T.Add(T + T/10 + slackNow() + 300*time.Millisecond)
		for time.Now().Before(deadline) {
			closed, _ := l.Conn.Closed()
			if closed && atomic.LoadInt64(&l.EvDisconnect) != 0 && atomic.LoadInt64(&l.Stopped) != 0 {
				break
			}
			time.Sleep(5 * time.Millisecond)
		}
		if overloaded() {
			return
		}
		closed, closedAt := l.Conn.Closed()
		bound2 := T + T/10 + slackNow()
		if atomic.LoadInt64(&l.EvDisconnect) == 0 {
			c.Violate(key("no-disconnect-event"), fmt.Sprintf("%s: EventDisconnect not raised within %v of the unanswered TestRequest", desc, bound2), replay)
		} else {
			d := time.Unix(0, atomic.LoadInt64(&l.EvDisconnect)).Sub(tr.T)
			c.Max("max_disconnect_delay_ms_N="+strconv.Itoa(sc.n), d.Milliseconds())
			if d > bound2 {
				c.Violate(key("disconnect-too-late"), fmt.Sprintf("%s: EventDisconnect %v after the TestRequest, bound %v", desc, d.Round(time.Millisecond), bound2), replay)
			}
			if d < T-20*time.Millisecond-3*can.Max() {
				c.Violate(key("disconnect-too-early"), fmt.Sprintf("%s: EventDisconnect %v after the TestRequest; the period is %v", desc, d.Round(time.Millisecond), T), replay)
			}
			c.Count("disconnects_seen", 1)
		}
		if atomic.LoadInt64(&l.Stopped) == 0 && atomic.LoadInt64(&l.Disconnected) == 0 {
			c.Violate(key("handler-not-stopped"), desc+": neither OnStopped nor OnDisconnect was signalled after the disconnect", replay)
		}
		if !closed {
			c.Violate(key("connection-not-closed"), desc+": the connection was not closed after the disconnect", replay)
		} else if closedAt.Sub(tr.T) > bound2+200*time.Millisecond {
			c.Violate(key("connection-closed-too-late"), fmt.Sprintf("%s: connection closed %v after the TestRequest", desc, closedAt.Sub(tr.T).Round(time.Millisecond)), replay)
		}
		if sc.role == rig.Initiator {
			select {
			case <-f.ServeRet:
			case <-time.After(2 * time.Second):
				c.Violate(key("serve-did-not-return"), desc+": Initiator.Serve had not returned 2 s after the disconnect", replay)
			}
		}
	case "total-silence-first-testrequest-cannot-be-sent":
		// the probe cannot leave (the store refuses it): the peer stays silent for two whole periods all the same and
		// must be disconnected; whether a TestRequest appears on the wire is not judged
		deadline := lastIn.Add(2*T + 2*T/10 + slackNow() + 300*time.Millisecond)
		for time.Now().Before(deadline) && atomic.LoadInt64(&l.EvDisconnect) == 0 {
			time.Sleep(5 * time.Millisecond)
		}
		if overloaded() {
			return
		}
		if atomic.LoadInt32(&fstore.refused) == 0 {
			c.Inconclusive("the store was never asked to save a TestRequest: " + desc)
			return
		}
		nontrivial = true
		c.Count("silent_peers_whose_probe_could_not_be_sent", 1)
		bound := 2*T + 2*T/10 + slackNow()
		if ev := atomic.LoadInt64(&l.EvDisconnect); ev == 0 {
			c.Violate(key("no-disconnect-event"), fmt.Sprintf("%s: the peer has been silent for %v (two periods are %v) and EventDisconnect was not raised", desc, time.Since(lastIn).Round(time.Millisecond), 2*T), replay)
		} else if d := time.Unix(0, ev).Sub(lastIn); d > bound {
			c.Violate(key("disconnect-too-late"), fmt.Sprintf("%s: EventDisconnect %v after the last inbound message, bound %v", desc, d.Round(time.Millisecond), bound), replay)
		} else if d < 2*T-40*time.Millisecond-3*can.Max() {
			c.Violate(key("disconnect-too-early"), fmt.Sprintf("%s: EventDisconnect %v after the last inbound message; two periods are %v", desc, d.Round(time.Millisecond), 2*T), replay)
		}
		time.Sleep(200 * time.Millisecond)
		if closed, _ := l.Conn.Closed(); !closed {
			c.Violate(key("connection-not-closed"), desc+": the connection was not closed after the disconnect", replay)
		}
	case "ends-just-before-deadline":
		time.Sleep(time.Until(lastIn.Add(T - 300*time.Millisecond)))
		fr := frames()
		if overloaded() {
			return
		}
		if n := len(testRequests(fr)); n != 0 && time.Since(lastIn) < T-50*time.Millisecond {
			c.Violate(key("testrequest-before-the-period-elapsed"), fmt.Sprintf("%s: %d TestRequest(s) written although only %v of silence had passed (period %v)", desc, n, time.Since(lastIn).Round(time.Millisecond), T), replay)
		}
		t1 := feed()
		nontrivial = true
		// the message restarts the period: nothing for another T-0.3
		time.Sleep(time.Until(t1.Add(T - 300*time.Millisecond)))
		fr = frames()
		if overloaded() {
			return
		}
		if n := len(testRequests(fr)); n != 0 {
			c.Violate(key("testrequest-despite-traffic"), fmt.Sprintf("%s: %d TestRequest(s) though the peer was never silent for a whole period", desc, n), replay)
		}
		if disconnected() {
			c.Violate(key("disconnected-live-peer"), desc+": the session was disconnected although the peer was never silent for a whole period", replay)
		}
	case "ends-in-the-last-tenth-of-the-period":
		// as above, but the message arrives T/20 before the period ends: behind the timer's last poll before the deadline
		time.Sleep(time.Until(lastIn.Add(T - T/20)))
		fr := frames()
		if overloaded() {
			return
		}
		if n := len(testRequests(fr)); n != 0 && time.Since(lastIn) < T-T/20-10*time.Millisecond {
			c.Violate(key("testrequest-before-the-period-elapsed"), fmt.Sprintf("%s: %d TestRequest(s) written although only %v of silence had passed (period %v)", desc, n, time.Since(lastIn).Round(time.Millisecond), T), replay)
		}
		t1 := feed()
		nontrivial = true
		// the message restarts the period: nothing for another T-0.3
		time.Sleep(time.Until(t1.Add(T - T/20 - 50*time.Millisecond)))
		fr = frames()
		if overloaded() {
			return
		}
		if n := len(testRequests(fr)); n != 0 {
			c.Violate(key("testrequest-despite-traffic"), fmt.Sprintf("%s: %d TestRequest(s) though the peer was never silent for a whole period", desc, n), replay)
		}
		if disconnected() {
			c.Violate(key("disconnected-live-peer"), desc+": the session was disconnected although the peer was never silent for a whole period", replay)
		}
	case "ends-just-after-deadline", "answer-10%", "answer-50%", "answer-90%":
		tr, ok := awaitTestRequest(lastIn, 0)
		if overloaded() {
			return
		}
		if !ok {
			c.Violate(key("no-testrequest-to-silent-peer"), desc+": no TestRequest after a full period of silence", replay)
			return
		}
		c.Count("testrequests_seen", 1)
		frac := map[string]float64{"ends-just-after-deadline": 0.02, "answer-10%": 0.10, "answer-50%": 0.50, "answer-90%": 0.85}[sc.pattern]
		time.Sleep(time.Until(tr.T.Add(time.Duration(float64(T) * frac))))
		if overloaded() {
			return
		}
		if disconnected() {
			c.Violate(key("disconnected-before-second-period-ended"), fmt.Sprintf("%s: disconnected only %v after the TestRequest (period %v)", desc, time.Since(tr.T).Round(time.Millisecond), T), replay)
			return
		}
		t1 := feed()
		nontrivial = true
		// any inbound message cancels the pending disconnect and buys at least another period
		time.Sleep(time.Until(t1.Add(T - 100*time.Millisecond)))
		if overloaded() {
			return
		}
		if disconnected() {
			c.Violate(key("disconnected-despite-answer/"+sc.answer), fmt.Sprintf("%s: a %s arrived %v after the TestRequest, yet the session was disconnected within the following %v", desc, sc.answer, t1.Sub(tr.T).Round(time.Millisecond), (T-100*time.Millisecond)), replay)
			return
		}
		c.Count("answers_checked", 1)
		// the pending disconnect was cancelled: after another full period of silence the peer is probed AGAIN
		// (a new TestRequest) instead of being disconnected at once
		tr2, ok2 := awaitTestRequest(t1, 1)
		if overloaded() {
			return
		}
		if disconnected() && (!ok2 || !tr2.T.Before(time.Now().Add(-T/2))) {
			c.Violate(key("disconnected-without-second-probe/"+sc.answer), fmt.Sprintf("%s: after the %s that answered the first TestRequest the peer fell silent again; the session disconnected %v after that answer without sending a second TestRequest first (second TestRequest seen: %v)", desc, sc.answer, time.Since(t1).Round(time.Millisecond), ok2), replay)
			return
		}
		if !ok2 {
			c.Violate(key("no-second-testrequest/"+sc.answer), fmt.Sprintf("%s: no second TestRequest within %v of the %s that ended the first silence", desc, T+T/10+slackNow(), sc.answer), replay)
			return
		}
		c.Count("second_probes_seen", 1)
	case "steady-traffic":
		periods := 12
		step := time.Duration(sc.n) * time.Second * 95 / 100
		for k := 0; k < periods; k++ {
			time.Sleep(step)
			feed()
		}
		nontrivial = true
		fr := frames()
		if overloaded() {
			return
		}
		if n := len(testRequests(fr)); n != 0 {
			c.Violate(key("testrequest-despite-traffic"), fmt.Sprintf("%s: %d TestRequest(s) sent to a peer that sent something every %v for %d periods", desc, n, step, periods), replay)
		}
		if disconnected() {
			c.Violate(key("disconnected-live-peer"), desc+": disconnected a peer that sent something at least every N seconds", replay)
		}
		c.Count("steady_periods_observed", int64(periods))
	}
	if c.WantSample() {
		c.Sample(desc)
	}
}

func main() {
	c := vk.Init("C09")
	c.Rule("full-stack sessions, both roles, N in {1,2} (quick) + {5,20,40} (thorough; N=40 exercises the N/20 branch), T = N + max(1,N/20); inbound patterns: total silence; total silence after a Logout exchange started by the peer, and after a Logout of the application that the peer never answers (connection open, peer silent: probed and disconnected all the same); total silence while the message store refuses the first TestRequest (the probe cannot leave; the disconnect after two periods is still due); a second message T/20 after the Logon and then silence (measured from that message); silence ending 0.3 s before the deadline; a message (Heartbeat / application / unknown type / TestRequest; also Heartbeats numbered 0 or -5 and an application message without MsgSeqNum) arriving 2%, 10%, 50%, 85% into the second period; steady traffic with period 0.95 N for 12 periods (also after the application removed two incoming observers it had registered before the logon); plus sessions that log on a second time on the same connection after a Logout exchange (acceptor: first interval 1 then 2, 2 then 1, 1 then 1; initiator: same interval), observed from the second logon with the patterns total silence / answer at 50% / steady traffic. Oracle: silence => TestRequest within T + T/10 + slack of the last inbound message (and not before T), then EventDisconnect, OnStopped/OnDisconnect, net.Conn.Close (and Serve return) within T + T/10 + slack of the TestRequest (and not before T); an inbound message of any type in the second period finds the session connected, buys another period, and renewed silence is probed again with a second TestRequest before any disconnect; live peers see no TestRequest and no disconnect. slack = 100 ms + 3 x measured scheduler oversleep. distinct = (role, N, pattern, answer type); non-trivial = a timer expiry or a cancelled expiry was observed")
	c.Assume("reference instant of an inbound message = the moment it was handed to the scripted connection (the library's Read returns it within microseconds)")
	can := rig.StartCanary()
	defer can.Stop()
	ns := []int{1, 2}
	if c.Thorough() {
		ns = []int{1, 2, 5, 20, 40}
	}
	var scs []scen
	answers := []string{"heartbeat", "app", "unknown", "testrequest"}
	k := 0
	for _, role := range []rig.Role{rig.Acceptor, rig.Initiator} {
		for _, n := range ns {
			for _, p := range []string{"total-silence", "total-silence-first-testrequest-cannot-be-sent", "second-message-then-silence", "ends-just-before-deadline", "ends-in-the-last-tenth-of-the-period", "ends-just-after-deadline", "answer-10%", "answer-50%", "answer-90%", "steady-traffic"} {
				if p == "steady-traffic" && n > 5 {
					continue
				}
				if c.Thorough() && p != "total-silence" && p != "total-silence-first-testrequest-cannot-be-sent" && p != "steady-traffic" && p != "second-message-then-silence" {
					for _, a := range answers {
						scs = append(scs, scen{role, n, p, a, 0})
					}
					continue
				}
				scs = append(scs, scen{role, n, p, answers[k%len(answers)], 0})
				k++
			}
		}
	}
	// inbound messages with unusual sequence numbers (0, negative, none) are traffic like any other
	for _, role := range []rig.Role{rig.Acceptor, rig.Initiator} {
		for ai, a := range []string{"heartbeat-34=0", "heartbeat-34=-5", "app-without-34"} {
			pats := []string{"steady-traffic", "answer-50%", "ends-just-before-deadline"}
			if !c.Thorough() {
				pats = pats[(ai+int(role))%3 : (ai+int(role))%3+1]
				if a == "heartbeat-34=0" {
					pats = []string{"steady-traffic", "answer-50%"}
				}
			}
			for _, p := range pats {
				scs = append(scs, scen{role, 1, p, a, 0})
			}
		}
	}
	// a short LogonTimeout (3 s) that elapses while the logged-on session is waiting for the answer to its TestRequest
	for _, role := range []rig.Role{rig.Acceptor, rig.Initiator} {
		scs = append(scs, scen{role, 1, "answer-90%", "heartbeat+logon-timeout-3s", 0})
		scs = append(scs, scen{role, 1, "answer-50%", "app+logon-timeout-3s", 0})
	}
	// silence around a Logout: the connection stays open, the peer says nothing more
	for _, role := range []rig.Role{rig.Acceptor, rig.Initiator} {
		for _, p := range []string{"silence-after-peer-logout", "silence-after-own-unanswered-logout"} {
			scs = append(scs, scen{role, 1, p, "heartbeat", 0})
			if c.Thorough() {
				scs = append(scs, scen{role, 2, p, "heartbeat", 0})
			}
		}
	}
	// a message in the last tenth of the period (both roles, also in the quick tier)
	for _, role := range []rig.Role{rig.Acceptor, rig.Initiator} {
		if !c.Thorough() {
			scs = append(scs, scen{role, 1, "ends-in-the-last-tenth-of-the-period", "heartbeat", 0})
		}
		scs = append(scs, scen{role, 2, "ends-in-the-last-tenth-of-the-period", "app", 0})
	}
	// the application's own disconnect callback reads the session's state
	for _, role := range []rig.Role{rig.Acceptor, rig.Initiator} {
		scs = append(scs, scen{role, 1, "total-silence", "heartbeat+disconnect-callback-reads-state", 0})
		scs = append(scs, scen{role, 1, "steady-traffic", "heartbeat+disconnect-callback-reads-state", 0})
	}
	// the application removes incoming observers of its own after the logon: the peer's traffic still counts
	for _, role := range []rig.Role{rig.Acceptor, rig.Initiator} {
		scs = append(scs, scen{role, 1, "steady-traffic", "heartbeat+observers-removed", 0})
		scs = append(scs, scen{role, 1, "answer-50%", "app+observers-removed", 0})
	}
	// a second logon on the same connection after a Logout exchange: the new interval applies, one probe period at a time
	for _, role := range []rig.Role{rig.Acceptor, rig.Initiator} {
		for _, pair := range [][2]int{{1, 2}, {2, 1}, {1, 1}} {
			if role == rig.Initiator && pair[0] != pair[1] {
				continue
			}
			for _, p := range []string{"total-silence", "answer-50%", "steady-traffic"} {
				scs = append(scs, scen{role, pair[1], p, answers[k%len(answers)], pair[0]})
				k++
			}
		}
	}
	var wg sync.WaitGroup
	for i, sc := range scs {
		wg.Add(1)
		go func(i int, sc scen) {
			defer wg.Done()
			run(c, can, sc, i)
		}(i, sc)
	}
	wg.Wait()
	c.Set("max_scheduler_oversleep_ms", float64(can.Max())/1e6)
	c.Finish()
}
