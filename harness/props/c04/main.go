// C04 — the inbound stream is reassembled into the exact messages sent, per connection;
// outbound hand-offs appear whole, un-interleaved and in hand-off order.
package main

import (
	"bytes"
	"context"
	"fmt"
	fixgen "github.com/b2broker/simplefix-go/tests/fix44"
	"math/rand"
	"runtime"
	"strconv"
	"strings"
	"sync"
	"sync/atomic"
	"time"

	simplefixgo "github.com/b2broker/simplefix-go"
	"github.com/b2broker/simplefix-go/session/messages"

	"verifharness/fixref"
	"verifharness/gen"
	"verifharness/vk"
	"verifharness/wire"
)

// recHandler is a minimal InitiatorHandler that records what ServeIncoming is given.
type recHandler struct {
	mu       sync.Mutex
	got      [][]byte
	inflight int32
	overlap  int32
	out      chan []byte
	ctx      context.Context
	cancel   context.CancelFunc
	errs     chan error
	slow     time.Duration
}

func newRecHandler(buf int) *recHandler {
	h := &recHandler{out: make(chan []byte, buf), errs: make(chan error, 4)}
	h.ctx, h.cancel = context.WithCancel(context.Background())
	return h
}
func (h *recHandler) ServeIncoming(msg []byte) {
	if atomic.AddInt32(&h.inflight, 1) != 1 {
		atomic.AddInt32(&h.overlap, 1)
	}
	if h.slow > 0 {
		time.Sleep(h.slow)
	}
	h.mu.Lock()
	h.got = append(h.got, append([]byte(nil), msg...))
	h.mu.Unlock()
	atomic.AddInt32(&h.inflight, -1)
}
func (h *recHandler) Outgoing() <-chan []byte { return h.out }
func (h *recHandler) Run() error {
	select {
	case <-h.ctx.Done():
		return nil
	case err := <-h.errs:
		return err
	}
}
func (h *recHandler) StopWithError(err error) {
	select {
	case h.errs <- err:
	default:
	}
}
func (h *recHandler) CloseErrorChan() {}
func (h *recHandler) Send(m simplefixgo.SendingMessage) error {
	b, _ := m.ToBytes()
	h.out <- b
	return nil
}
func (h *recHandler) Context() context.Context { return h.ctx }
func (h *recHandler) Stop()                    { h.cancel() }
func (h *recHandler) count() int               { h.mu.Lock(); defer h.mu.Unlock(); return len(h.got) }
func (h *recHandler) all() [][]byte {
	h.mu.Lock()
	defer h.mu.Unlock()
	return append([][]byte(nil), h.got...)
}

func randMsg(r *rand.Rand, id string) []byte {
	types := []string{"0", "A", "D", "8", "V", "W", "X", "AE", "j", "ZZ"}
	n := r.Intn(8)
	if r.Intn(12) == 0 {
		n = 40 + r.Intn(120) // long messages
	}
	fs := []fixref.Field{fixref.F("58", id)}
	tags := []string{"110", "210", "1010", "1", "100", "310", "55", "9910", "101", "11"}
	for i := 0; i < n; i++ {
		var v string
		switch r.Intn(5) {
		case 0:
			v = "10=" + strconv.Itoa(r.Intn(1000))
		case 1:
			v = "x10=000"
		case 2:
			v = "10="
		default:
			v = gen.RandString(r, 30, []string{"10"})
		}
		fs = append(fs, fixref.F(tags[r.Intn(len(tags))], v))
	}
	if r.Intn(12) == 0 {
		// one very long field (longer than any reader buffer: 4 KiB, 64 KiB)
		n := []int{4000, 4090, 4096, 4097, 5000, 20000, 70000}[r.Intn(7)]
		b := make([]byte, n)
		for k := range b {
			b[k] = "abc=10 "[r.Intn(7)]
		}
		fs = append(fs, fixref.F("58", string(b)))
	}
	return fixref.Encode(fixref.Std, "FIX.4.4", types[r.Intn(len(types))], fs)
}

// partition cuts the stream into read chunks according to a strategy.
func partition(r *rand.Rand, msgs [][]byte, strategy string) (chunks [][]byte, insideSum int) {
	var stream []byte
	var bounds []int // message boundaries (offsets)
	for _, m := range msgs {
		stream = append(stream, m...)
		bounds = append(bounds, len(stream))
	}
	cut := map[int]bool{}
	switch strategy {
	case "all-in-one":
	case "one-byte":
		for i := 1; i < len(stream); i++ {
			cut[i] = true
		}
	case "random":
		for i := 1; i < len(stream); i++ {
			if r.Intn(40) == 0 {
				cut[i] = true
			}
		}
	case "message-aligned":
		for _, b := range bounds {
			cut[b] = true
		}
	case "coalesce-then-split":
		for k, b := range bounds {
			if k%3 == 2 {
				cut[b-1-r.Intn(3)] = true
			}
		}
	default: // "checksum-offset-k": a boundary k bytes into every message's trailing "10=ddd|" field
		k, _ := strconv.Atoi(strings.TrimPrefix(strategy, "checksum-offset-"))
		for _, b := range bounds {
			p := b - 7 + k // the field is exactly 7 bytes: 1 0 = d d d SOH
			if p > 0 && p < len(stream) {
				cut[p] = true
				insideSum++
			}
		}
	}
	prev := 0
	for i := 1; i <= len(stream); i++ {
		if cut[i] || i == len(stream) {
			chunks = append(chunks, stream[prev:i])
			prev = i
		}
	}
	return
}

var strategies = []string{"all-in-one", "one-byte", "random", "message-aligned", "coalesce-then-split",
	"checksum-offset-0", "checksum-offset-1", "checksum-offset-2", "checksum-offset-3", "checksum-offset-4", "checksum-offset-5", "checksum-offset-6", "checksum-offset-7"}

func feed(r *rand.Rand, conn *wire.Conn, chunks [][]byte, delayMode int) {
	for i, ch := range chunks {
		switch delayMode {
		case 1:
			if i%16 == 0 {
				runtime.Gosched()
			}
		case 2:
			if r.Intn(50) == 0 {
				time.Sleep(time.Millisecond)
			}
		}
		conn.Feed(ch)
	}
}

func compare(c *vk.Ctx, what string, sent, got [][]byte, replay map[string]interface{}) {
	n := len(sent)
	if len(got) < n {
		n = len(got)
	}
	for i := 0; i < n; i++ {
		if !bytes.Equal(sent[i], got[i]) {
			cls := "message-altered-or-reordered"
			for _, s := range sent {
				if bytes.Equal(s, got[i]) {
					cls = "reordered-or-duplicated"
				}
			}
			c.Violate("C04/"+what+"/"+cls, fmt.Sprintf("message #%d delivered as %s, sent %s", i, vk.Trunc(fixref.Pretty(got[i]), 300), vk.Trunc(fixref.Pretty(sent[i]), 300)), replay)
			return
		}
	}
	if len(got) < len(sent) {
		c.Violate("C04/"+what+"/message-lost", fmt.Sprintf("%d messages sent, %d delivered; first missing: %s", len(sent), len(got), vk.Trunc(fixref.Pretty(sent[len(got)]), 300)), replay)
	} else if len(got) > len(sent) {
		c.Violate("C04/"+what+"/extra-message", fmt.Sprintf("%d messages sent, %d delivered; extra: %s", len(sent), len(got), vk.Trunc(fixref.Pretty(got[len(sent)]), 300)), replay)
	}
}

// expiredWaits counts waits that ran into their deadline; after a few of them the code under test is
// evidently losing messages and later waits are cut short (the verdict is already "violated").
var expiredWaits int64

func waitFor(cond func() bool, d time.Duration, conns ...*wire.Conn) bool {
	if atomic.LoadInt64(&expiredWaits) > 12 && d > 500*time.Millisecond {
		d = 500 * time.Millisecond
	}
	defer func() {
		if !cond() {
			atomic.AddInt64(&expiredWaits, 1)
		}
	}()
	deadline := time.Now().Add(d)
	for !cond() {
		if time.Now().After(deadline) {
			return false
		}
		// the library closed the connection: nothing more will be delivered (give it a moment to drain)
		for _, cn := range conns {
			if closed, at := cn.Closed(); closed && time.Since(at) > 300*time.Millisecond {
				return cond()
			}
		}
		time.Sleep(2 * time.Millisecond)
	}
	return true
}

func main() {
	c := vk.Init("C04")
	c.Rule("scenario i: 1..200 well-formed messages (any MsgType, 30..70000 bytes incl. single fields of 4000..70000 bytes, values containing '10=', fields 110/210/1010/9910) are concatenated and cut into read chunks by one of 13 strategies (all-in-one, one byte per read, random, message-aligned, coalescing, and a boundary at every offset 0..7 of every message's trailing CheckSum field), with feed timing {none, Gosched, 1 ms pauses}; delivered to (a) an Initiator with a recording handler that asserts one ServeIncoming at a time, (b) an Initiator with DefaultHandler + incoming callbacks, (c) an Acceptor with 1..8 simultaneous connections (arriving one at a time or all back to back before any handler exists) through the real handler factory, each message tagged (connection, counter); buffer sizes {0,1,10}. Outbound: 1..4 goroutines hand unique messages to Send/SendRaw; the peer-side capture is split by the reference splitter. Oracle: per connection delivered == sent (bytes, order, multiplicity), nothing from another connection, outbound stream == hand-off order (order seen by an outgoing ALL-handler under the handler's own lock; per-goroutine order for SendRaw). Burst then close: 5..8 messages in one chunk followed at once by the end of the stream, to a handler that needs 3 ms per message (buffers 0/1/4, both roles): every message is still delivered. Truncated predecessor: a connection ends after some complete fields of a message, then a new connection (new initiator, or next client of the same acceptor) is sent 1..4 messages and must be given exactly those. Replying handlers: 2..10 messages in one read, each answered with SendRaw from inside the incoming handler (buffers 0/1/10, both roles): all delivered, all answers on the wire in order. Long pauses: 3..6 messages whose stream stops for 0.7..1.3 s inside a value, inside the CheckSum tag or value, between fields or between messages (the scripted connection honours read deadlines, should the library set any). Re-sent object: one generated message object handed to Send 3..14 times with changed content against an instantly or slowly reading peer; the stream must carry each hand-off as it was when handed off. Write fault: 2..11 messages handed to SendRaw in order while one write takes only part of its message (cut anywhere, or inside the CheckSum field) and runs into a 30 ms write deadline, later writes being accepted: the captured stream must stay a prefix of the hand-offs. distinct = hash(partition signature, messages); non-trivial = >=2 messages or a boundary inside a CheckSum field")
	n := c.Pick(3000, 60000)
	vk.Parallel(n, runtime.NumCPU(), func(i int) {
		r := c.Rand("c04", int64(i))
		strategy := strategies[i%len(strategies)]
		mode := []string{"initiator-recording-handler", "initiator-default-handler", "acceptor-multi-conn"}[(i/len(strategies))%3]
		buf := []int{0, 1, 10}[r.Intn(3)]
		delay := r.Intn(3)
		nmsg := 1 + r.Intn(12)
		if r.Intn(15) == 0 {
			nmsg = 100 + r.Intn(100)
		}
		nconn := 1
		if mode == "acceptor-multi-conn" {
			nconn = 1 + r.Intn(8)
		}
		desc := fmt.Sprintf("%s strategy=%s buf=%d delay=%d messages=%d connections=%d", mode, strategy, buf, delay, nmsg, nconn)
		replay := map[string]interface{}{"scenario": desc, "index": i, "seed": c.Seed}
		sent := make([][][]byte, nconn)
		for k := 0; k < nconn; k++ {
			for m := 0; m < nmsg; m++ {
				sent[k] = append(sent[k], randMsg(r, fmt.Sprintf("c%d-%d", k, m)))
			}
		}
		totalInside := 0
		var sig []byte
		switch mode {
		case "initiator-recording-handler":
			conn := wire.NewConn("c04", false)
			h := newRecHandler(buf)
			if r.Intn(4) == 0 {
				h.slow = 200 * time.Microsecond
			}
			ini := simplefixgo.NewInitiator(conn, h, buf, 5*time.Second)
			done := make(chan struct{})
			go func() { ini.Serve(); close(done) }()
			chunks, inside := partition(r, sent[0], strategy)
			totalInside += inside
			for _, ch := range chunks {
				sig = append(sig, byte(len(ch)), byte(len(ch)>>8))
				c.SetAdd("chunk_size_classes", sizeClass(len(ch)))
			}
			feed(r, conn, chunks, delay)
			if !waitFor(func() bool { return h.count() >= nmsg }, 10*time.Second, conn) {
				// fall through: compare reports the loss
			}
			time.Sleep(2 * time.Millisecond)
			compare(c, "inbound/"+mode, sent[0], h.all(), replay)
			if atomic.LoadInt32(&h.overlap) != 0 {
				c.Violate("C04/inbound/two-messages-in-flight", desc+": ServeIncoming was entered while another call was in progress", replay)
			}
			ini.Close()
			h.Stop()
			<-done
		case "initiator-default-handler":
			conn := wire.NewConn("c04", false)
			h := simplefixgo.NewInitiatorHandler(context.Background(), "35", buf)
			var mu sync.Mutex
			var got [][]byte
			var inflight, overlap int32
			// every third connection: in front of the recording handler sits a one-shot subscriber that takes itself out
			// (RemoveIncomingHandler with the identifier it was given) while it is being given its first message, and
			// behind it a second recording handler: both recorders are given every message once
			oneShot := i%3 == 0
			var got2 [][]byte
			if oneShot {
				var id int64
				var fired int32
				id = h.HandleIncoming(simplefixgo.AllMsgTypes, func(m []byte) bool {
					if atomic.CompareAndSwapInt32(&fired, 0, 1) {
						_ = h.RemoveIncomingHandler(simplefixgo.AllMsgTypes, id)
					}
					return true
				})
				c.Count("connections_with_a_self_removing_incoming_handler", 1)
			}
			h.HandleIncoming(simplefixgo.AllMsgTypes, func(m []byte) bool {
				if atomic.AddInt32(&inflight, 1) != 1 {
					atomic.AddInt32(&overlap, 1)
				}
				mu.Lock()
				got = append(got, append([]byte(nil), m...))
				mu.Unlock()
				atomic.AddInt32(&inflight, -1)
				return true
			})
			if oneShot {
				h.HandleIncoming(simplefixgo.AllMsgTypes, func(m []byte) bool {
					mu.Lock()
					got2 = append(got2, append([]byte(nil), m...))
					mu.Unlock()
					return true
				})
			}
			ini := simplefixgo.NewInitiator(conn, h, buf, 5*time.Second)
			done := make(chan struct{})
			go func() { ini.Serve(); close(done) }()
			// every third connection (another third): an all-types observer is attached while traffic flows — after the
			// first half of the messages has been delivered; it is given every message of the second half
			late := i%3 == 1 && nmsg >= 2
			half := nmsg / 2
			var chunks, chunksB [][]byte
			var inside int
			if late {
				var in2 int
				chunks, inside = partition(r, sent[0][:half], strategy)
				chunksB, in2 = partition(r, sent[0][half:], strategy)
				inside += in2
				c.Count("connections_with_an_observer_attached_mid_stream", 1)
			} else {
				chunks, inside = partition(r, sent[0], strategy)
			}
			totalInside += inside
			for _, ch := range append(append([][]byte(nil), chunks...), chunksB...) {
				sig = append(sig, byte(len(ch)), byte(len(ch)>>8))
				c.SetAdd("chunk_size_classes", sizeClass(len(ch)))
			}
			var gotLate [][]byte
			// outbound traffic at the same time
			outN := r.Intn(4)
			useRaw := r.Intn(2) == 0
			var handoff []string
			var hmu sync.Mutex
			h.HandleOutgoing(simplefixgo.AllMsgTypes, func(m simplefixgo.SendingMessage) bool {
				b, _ := m.ToBytes()
				hmu.Lock()
				handoff = append(handoff, string(b))
				hmu.Unlock()
				return true
			})
			var wg sync.WaitGroup
			perG := 1 + r.Intn(30)
			outSent := make([][][]byte, outN)
			for g := 0; g < outN; g++ {
				for k := 0; k < perG; k++ {
					outSent[g] = append(outSent[g], randMsg(rand.New(rand.NewSource(int64(i*1000+g*100+k))), fmt.Sprintf("out-g%d-%d", g, k)))
				}
			}
			for g := 0; g < outN; g++ {
				wg.Add(1)
				go func(g int) {
					defer wg.Done()
					for _, m := range outSent[g] {
						if useRaw {
							h.SendRaw(m)
						} else {
							h.Send(messages.NewMockMessage("D", m, nil))
						}
					}
				}(g)
			}
			feed(r, conn, chunks, delay)
			if late {
				waitFor(func() bool { mu.Lock(); defer mu.Unlock(); return len(got) >= half }, 10*time.Second, conn)
				time.Sleep(2 * time.Millisecond) // the dispatch of message #half has returned from the recorder; let the loop finish it
				h.HandleIncoming(simplefixgo.AllMsgTypes, func(m []byte) bool {
					mu.Lock()
					gotLate = append(gotLate, append([]byte(nil), m...))
					mu.Unlock()
					return true
				})
				feed(r, conn, chunksB, delay)
			}
			waitFor(func() bool { mu.Lock(); defer mu.Unlock(); return len(got) >= nmsg }, 10*time.Second, conn)
			wg.Wait()
			waitFor(func() bool { return len(conn.Written()) >= totalLen(outSent) }, 5*time.Second, conn)
			time.Sleep(2 * time.Millisecond)
			mu.Lock()
			g2 := append([][]byte(nil), got...)
			mu.Unlock()
			compare(c, "inbound/"+mode, sent[0], g2, replay)
			if late {
				waitFor(func() bool { mu.Lock(); defer mu.Unlock(); return len(gotLate) >= nmsg-half }, 2*time.Second, conn)
				mu.Lock()
				gl := append([][]byte(nil), gotLate...)
				mu.Unlock()
				compare(c, "inbound/"+mode+"/observer-attached-mid-stream", sent[0][half:], gl, replay)
			}
			if oneShot {
				waitFor(func() bool { mu.Lock(); defer mu.Unlock(); return len(got2) >= nmsg }, 2*time.Second, conn)
				mu.Lock()
				g3 := append([][]byte(nil), got2...)
				mu.Unlock()
				compare(c, "inbound/"+mode+"/handler-behind-a-self-removing-one", sent[0], g3, replay)
			}
			if atomic.LoadInt32(&overlap) != 0 {
				c.Violate("C04/inbound/two-messages-in-flight", desc+": incoming handler entered concurrently", replay)
			}
			// outbound
			wireMsgs, rest := fixref.SplitStream("10", conn.Written())
			if len(rest) != 0 {
				c.Violate("C04/outbound/partial-message-on-wire", fmt.Sprintf("%s: %d trailing bytes that are not a whole message", desc, len(rest)), replay)
			}
			if outN > 0 {
				c.Count("outbound_messages", int64(len(wireMsgs)))
				if useRaw {
					// per-goroutine order, each exactly once
					idx := make([]int, outN)
					for _, wm := range wireMsgs {
						found := false
						for g := 0; g < outN; g++ {
							if idx[g] < len(outSent[g]) && bytes.Equal(outSent[g][idx[g]], wm) {
								idx[g]++
								found = true
								break
							}
						}
						if !found {
							c.Violate("C04/outbound/sendraw-interleaved-or-reordered", fmt.Sprintf("%s: wire message %s is not the next hand-off of any goroutine", desc, vk.Trunc(fixref.Pretty(wm), 200)), replay)
							break
						}
					}
					for g := 0; g < outN; g++ {
						if idx[g] != len(outSent[g]) {
							c.Violate("C04/outbound/message-lost", fmt.Sprintf("%s: goroutine %d handed off %d messages, %d on the wire", desc, g, len(outSent[g]), idx[g]), replay)
							break
						}
					}
				} else {
					hmu.Lock()
					ho := append([]string(nil), handoff...)
					hmu.Unlock()
					var hb [][]byte
					for _, s := range ho {
						hb = append(hb, []byte(s))
					}
					compare(c, "outbound/send", hb, wireMsgs, replay)
				}
			}
			ini.Close()
			h.Stop()
			<-done
		case "acceptor-multi-conn":
			lst := wire.NewListener()
			type rec struct {
				mu  sync.Mutex
				got [][]byte
			}
			var recs []*rec
			var rmu sync.Mutex
			created := make(chan struct{}, 16)
			acc := simplefixgo.NewAcceptor(lst, simplefixgo.NewAcceptorHandlerFactory("35", buf), 5*time.Second, func(h simplefixgo.AcceptorHandler) {
				rc := &rec{}
				rmu.Lock()
				recs = append(recs, rc)
				rmu.Unlock()
				h.HandleIncoming(simplefixgo.AllMsgTypes, func(m []byte) bool {
					rc.mu.Lock()
					rc.got = append(rc.got, append([]byte(nil), m...))
					rc.mu.Unlock()
					return true
				})
				created <- struct{}{}
			})
			done := make(chan struct{})
			go func() { acc.ListenAndServe(); close(done) }()
			conns := make([]*wire.Conn, nconn)
			backToBack := r.Intn(2) == 0 // all connections arrive before the acceptor has created a single handler
			for k := 0; k < nconn; k++ {
				conns[k] = wire.NewConn(fmt.Sprintf("c%d", k), false)
				lst.Connect(conns[k])
				if !backToBack {
					select {
					case <-created:
					case <-time.After(10 * time.Second):
						c.Inconclusive("acceptor did not create a handler")
						return
					}
				}
			}
			if backToBack {
				c.Count("acceptor_scenarios_with_back_to_back_connections", 1)
				for k := 0; k < nconn; k++ {
					select {
					case <-created:
					case <-time.After(10 * time.Second):
						c.Inconclusive("acceptor did not create a handler")
						return
					}
				}
			}
			var wg sync.WaitGroup
			for k := 0; k < nconn; k++ {
				chunks, inside := partition(rand.New(rand.NewSource(int64(i*100+k))), sent[k], strategy)
				totalInside += inside
				for _, ch := range chunks {
					sig = append(sig, byte(len(ch)), byte(len(ch)>>8))
				}
				wg.Add(1)
				go func(k int, chunks [][]byte) {
					defer wg.Done()
					feed(rand.New(rand.NewSource(int64(i*100+k))), conns[k], chunks, delay)
				}(k, chunks)
			}
			wg.Wait()
			total := func() int {
				rmu.Lock()
				defer rmu.Unlock()
				n := 0
				for _, rc := range recs {
					rc.mu.Lock()
					n += len(rc.got)
					rc.mu.Unlock()
				}
				return n
			}
			waitFor(func() bool { return total() >= nmsg*nconn }, 10*time.Second)
			time.Sleep(2 * time.Millisecond)
			// handlers are matched to connections by what they were given (every message carries its connection's id)
			served := map[int]int{}
			rmu.Lock()
			rs := append([]*rec(nil), recs...)
			rmu.Unlock()
			for hi, rc := range rs {
				rc.mu.Lock()
				g := append([][]byte(nil), rc.got...)
				rc.mu.Unlock()
				if len(g) == 0 {
					continue
				}
				owner := -1
				mixed := false
				for _, m := range g {
					fs, _ := fixref.TokenizeLoose(m)
					id := fixref.GetS(fs, "58")
					k := -1
					fmt.Sscanf(id, "c%d-", &k)
					if owner == -1 {
						owner = k
					} else if k != owner {
						mixed = true
					}
				}
				if mixed || owner < 0 || owner >= nconn {
					c.Violate("C04/inbound/message-from-another-connection", fmt.Sprintf("%s: handler #%d was given messages of more than one connection (or an unknown one)", desc, hi), replay)
					continue
				}
				served[owner]++
				compare(c, "inbound/"+mode, sent[owner], g, replay)
			}
			for k := 0; k < nconn; k++ {
				if served[k] == 0 {
					c.Violate("C04/inbound/"+mode+"/connection-never-served", fmt.Sprintf("%s: the %d messages of connection %d reached no handler", desc, nmsg, k), replay)
					break
				}
				if served[k] > 1 {
					c.Violate("C04/inbound/"+mode+"/connection-served-by-several-handlers", fmt.Sprintf("%s: the messages of connection %d were spread over %d handlers", desc, k, served[k]), replay)
					break
				}
			}
			c.Max("max_connections", int64(nconn))
			acc.Close()
			for _, cn := range conns {
				cn.Close()
			}
			<-done
		}
		c.Eval(vk.Hash64([]byte(desc), sig), nmsg >= 2 || totalInside > 0)
		c.Count("messages_delivered", int64(nmsg*nconn))
		c.Count("boundaries_inside_checksum_field", int64(totalInside))
		c.SetAdd("strategies", strategy+"/"+mode)
		if c.WantSample() && i%57 == 0 {
			c.Sample(desc)
		}
	})
	// the peer sends a burst and goes away at once while the application handler is slower than the peer: what was
	// received completely before the end of the stream is still given to the handler
	nbc := c.Pick(72, 1200)
	var lostConns, burstConns, maxLate int64
	var lostExample atomic.Value
	vk.Parallel(nbc, runtime.NumCPU(), func(i int) {
		r := c.Rand("c04-burst-close", int64(i))
		buf := []int{0, 1, 4}[i%3]
		mode := []string{"initiator", "acceptor"}[(i/3)%2]
		nmsg := 5 + r.Intn(4)
		var sent [][]byte
		var stream []byte
		for k := 0; k < nmsg; k++ {
			m := randMsg(r, fmt.Sprintf("bc-%d", k))
			for len(m) > 600 {
				m = randMsg(r, fmt.Sprintf("bc-%d", k))
			}
			sent = append(sent, m)
			stream = append(stream, m...)
		}
		conn := wire.NewConn("c04bc", false)
		var mu sync.Mutex
		var got [][]byte
		slow := func(m []byte) bool {
			time.Sleep(3 * time.Millisecond)
			mu.Lock()
			got = append(got, append([]byte(nil), m...))
			mu.Unlock()
			return true
		}
		done := make(chan struct{})
		var stop func()
		if mode == "initiator" {
			h := simplefixgo.NewInitiatorHandler(context.Background(), "35", buf)
			h.HandleIncoming(simplefixgo.AllMsgTypes, slow)
			ini := simplefixgo.NewInitiator(conn, h, buf, 5*time.Second)
			go func() { ini.Serve(); close(done) }()
			stop = func() { ini.Close(); h.Stop() }
		} else {
			lst := wire.NewListener()
			acc := simplefixgo.NewAcceptor(lst, simplefixgo.NewAcceptorHandlerFactory("35", buf), 5*time.Second, func(h simplefixgo.AcceptorHandler) {
				h.HandleIncoming(simplefixgo.AllMsgTypes, slow)
			})
			go func() { acc.ListenAndServe(); close(done) }()
			lst.Connect(conn)
			stop = func() { acc.Close() }
		}
		conn.Feed(stream)
		conn.FeedEOF()
		waitFor(func() bool { cl, _ := conn.Closed(); return cl }, 4*time.Second)
		// The socket is closed as soon as the reader has seen the end of the stream; the handler still needs its 3 ms per
		// message for what was queued. "Delivered" is decided by arrival, not by a deadline: wait (generously) until
		// everything has arrived; only what has not arrived 3 s after the end of the connection counts as lost.
		_, closedAt := conn.Closed()
		all := func() bool { mu.Lock(); defer mu.Unlock(); return len(got) >= len(sent) }
		if waitFor(all, 3*time.Second) {
			if late := time.Since(closedAt); int64(late) > atomic.LoadInt64(&maxLate) {
				atomic.StoreInt64(&maxLate, int64(late))
			}
		}
		time.Sleep(5 * time.Millisecond) // anything delivered twice would show up now
		mu.Lock()
		g2 := append([][]byte(nil), got...)
		mu.Unlock()
		desc := fmt.Sprintf("burst-then-close %s buf=%d: %d messages, then end of stream; the handler needs 3 ms per message", mode, buf, nmsg)
		c.Eval(vk.Hash64([]byte(desc), []byte{byte(i), byte(i >> 8)}), true)
		atomic.AddInt64(&burstConns, 1)
		compare(c, "inbound/burst-then-close/"+mode, sent, g2, map[string]interface{}{"scenario": desc, "index": i, "seed": c.Seed})
		if len(g2) < len(sent) {
			atomic.AddInt64(&lostConns, 1)
			lostExample.Store(fmt.Sprintf("%s: %d of %d messages reached the handler", desc, len(g2), len(sent)))
		}
		stop()
		conn.Close()
		select {
		case <-done:
		case <-time.After(5 * time.Second):
		}
	})
	c.Set("burst_then_close_connections", burstConns)
	c.Set("burst_then_close_max_ms_from_socket_close_to_last_delivery", float64(maxLate)/1e6)
	c.Set("burst_then_close_connections_that_lost_their_tail", lostConns)
	_ = lostExample

	// a connection that ends in the middle of a message (some complete fields of it received), followed by a new
	// connection in the same process: the new connection's handler gets exactly what its own peer sends
	npt := c.Pick(80, 1500)
	vk.Parallel(npt, runtime.NumCPU(), func(i int) {
		r := c.Rand("c04-predecessor", int64(i))
		buf := []int{0, 1, 10}[r.Intn(3)]
		mode := []string{"initiator", "acceptor"}[i%2]
		first := [][]byte{randMsg(r, "pre-0"), randMsg(r, "pre-1")}
		for len(first[1]) > 1500 {
			first[1] = randMsg(r, "pre-1")
		}
		// cut the second message right behind one of its inner field delimiters
		var sohs []int
		for k, b := range first[1][:len(first[1])-8] {
			if b == 1 {
				sohs = append(sohs, k)
			}
		}
		if len(sohs) < 2 {
			return
		}
		cut := sohs[1+r.Intn(len(sohs)-1)] + 1
		nmsg := 1 + r.Intn(4)
		var sent [][]byte
		var stream []byte
		for k := 0; k < nmsg; k++ {
			m := randMsg(r, fmt.Sprintf("succ-%d", k))
			sent = append(sent, m)
			stream = append(stream, m...)
		}
		desc := fmt.Sprintf("predecessor-truncated %s buf=%d: an earlier connection ended after %d bytes of its second message; the next connection is sent %d messages", mode, buf, cut, nmsg)
		replay := map[string]interface{}{"scenario": desc, "index": i, "seed": c.Seed}
		var mu sync.Mutex
		var got [][]byte
		second := false
		record := func(m []byte) bool {
			mu.Lock()
			if second {
				got = append(got, append([]byte(nil), m...))
			}
			mu.Unlock()
			return true
		}
		connA, connB := wire.NewConn("c04pa", false), wire.NewConn("c04pb", false)
		if mode == "initiator" {
			for k, conn := range []*wire.Conn{connA, connB} {
				h := simplefixgo.NewInitiatorHandler(context.Background(), "35", buf)
				h.HandleIncoming(simplefixgo.AllMsgTypes, record)
				ini := simplefixgo.NewInitiator(conn, h, buf, 5*time.Second)
				done := make(chan struct{})
				go func() { ini.Serve(); close(done) }()
				if k == 0 {
					conn.Feed(append(append([]byte(nil), first[0]...), first[1][:cut]...))
					time.Sleep(2 * time.Millisecond)
					conn.FeedEOF()
					select {
					case <-done:
					case <-time.After(5 * time.Second):
					}
					ini.Close()
					h.Stop()
					mu.Lock()
					second = true
					mu.Unlock()
					continue
				}
				conn.Feed(stream)
				waitFor(func() bool { mu.Lock(); defer mu.Unlock(); return len(got) >= nmsg }, 4*time.Second, conn)
				ini.Close()
				h.Stop()
				conn.Close()
				select {
				case <-done:
				case <-time.After(5 * time.Second):
				}
			}
		} else {
			lst := wire.NewListener()
			acc := simplefixgo.NewAcceptor(lst, simplefixgo.NewAcceptorHandlerFactory("35", buf), 5*time.Second, func(h simplefixgo.AcceptorHandler) {
				h.HandleIncoming(simplefixgo.AllMsgTypes, record)
			})
			done := make(chan struct{})
			go func() { acc.ListenAndServe(); close(done) }()
			lst.Connect(connA)
			connA.Feed(append(append([]byte(nil), first[0]...), first[1][:cut]...))
			time.Sleep(2 * time.Millisecond)
			connA.FeedEOF()
			waitFor(func() bool { cl, _ := connA.Closed(); return cl }, 3*time.Second)
			mu.Lock()
			second = true
			mu.Unlock()
			lst.Connect(connB)
			connB.Feed(stream)
			waitFor(func() bool { mu.Lock(); defer mu.Unlock(); return len(got) >= nmsg }, 4*time.Second, connB)
			acc.Close()
			connB.Close()
			select {
			case <-done:
			case <-time.After(5 * time.Second):
			}
		}
		time.Sleep(2 * time.Millisecond)
		mu.Lock()
		g2 := append([][]byte(nil), got...)
		mu.Unlock()
		c.Eval(vk.Hash64([]byte(desc), []byte{byte(i), byte(i >> 8)}), true)
		c.Count("connections_after_a_truncated_predecessor", 1)
		compare(c, "inbound/after-a-truncated-predecessor/"+mode, sent, g2, replay)
	})

	// handlers that answer from inside the incoming callback (as the session layer does) while the peer pipelines
	// several messages in one read: both directions of a connection must keep moving independently
	nrep := c.Pick(90, 1800)
	vk.Parallel(nrep, runtime.NumCPU(), func(i int) {
		r := c.Rand("c04-replying", int64(i))
		buf := []int{0, 0, 1, 10}[r.Intn(4)]
		nmsg := 2 + r.Intn(9)
		mode := []string{"initiator", "acceptor"}[i%2]
		var sent, acks [][]byte
		var stream []byte
		for k := 0; k < nmsg; k++ {
			m := randMsg(r, fmt.Sprintf("rq-%d", k))
			for len(m) > 900 {
				m = randMsg(r, fmt.Sprintf("rq-%d", k))
			}
			sent = append(sent, m)
			stream = append(stream, m...)
			acks = append(acks, fixref.Encode(fixref.Std, "FIX.4.4", "ACK", []fixref.Field{fixref.F("58", fmt.Sprintf("ack-%d", k))}))
		}
		desc := fmt.Sprintf("replying-handler %s buf=%d: %d messages in one read, each answered from inside the incoming handler", mode, buf, nmsg)
		replay := map[string]interface{}{"scenario": desc, "index": i, "seed": c.Seed}
		conn := wire.NewConn("c04rp", false)
		var mu sync.Mutex
		var got [][]byte
		mk := func(send func([]byte) error) func([]byte) bool {
			return func(m []byte) bool {
				mu.Lock()
				k := len(got)
				got = append(got, append([]byte(nil), m...))
				mu.Unlock()
				if k < len(acks) {
					_ = send(acks[k])
				}
				return true
			}
		}
		done := make(chan struct{})
		var stop func()
		if mode == "initiator" {
			h := simplefixgo.NewInitiatorHandler(context.Background(), "35", buf)
			h.HandleIncoming(simplefixgo.AllMsgTypes, mk(h.SendRaw))
			ini := simplefixgo.NewInitiator(conn, h, buf, 5*time.Second)
			go func() { ini.Serve(); close(done) }()
			stop = func() { ini.Close(); h.Stop() }
		} else {
			lst := wire.NewListener()
			acc := simplefixgo.NewAcceptor(lst, simplefixgo.NewAcceptorHandlerFactory("35", buf), 5*time.Second, func(h simplefixgo.AcceptorHandler) {
				h.HandleIncoming(simplefixgo.AllMsgTypes, mk(h.SendRaw))
			})
			go func() { acc.ListenAndServe(); close(done) }()
			lst.Connect(conn)
			stop = func() { acc.Close() }
		}
		conn.Feed(stream)
		wantOut := 0
		for _, a := range acks {
			wantOut += len(a)
		}
		waitFor(func() bool { return len(conn.Written()) >= wantOut }, 4*time.Second, conn)
		time.Sleep(2 * time.Millisecond)
		mu.Lock()
		g2 := append([][]byte(nil), got...)
		mu.Unlock()
		c.Eval(vk.Hash64([]byte(desc), []byte{byte(i), byte(i >> 8)}), true)
		c.Count("replying_handler_scenarios", 1)
		compare(c, "inbound/replying-handler/"+mode, sent, g2, replay)
		wireMsgs, _ := fixref.SplitStream("10", conn.Written())
		compare(c, "outbound/replying-handler/"+mode, acks, wireMsgs, replay)
		stop()
		conn.Close()
		select {
		case <-done:
		case <-time.After(5 * time.Second):
		}
	})

	// long pauses of the inbound stream (0.7 .. 1.3 s) at chosen places: inside a value, inside the CheckSum tag or
	// value, between two fields, between two messages. Read timing must not change what is delivered.
	ns := c.Pick(32, 400)
	var swg sync.WaitGroup
	ssem := make(chan struct{}, 64)
	for i := 0; i < ns; i++ {
		swg.Add(1)
		ssem <- struct{}{}
		go func(i int) {
			defer swg.Done()
			defer func() { <-ssem }()
			r := c.Rand("c04-stall", int64(i))
			buf := []int{0, 1, 10}[r.Intn(3)]
			nmsg := 3 + r.Intn(4)
			var sent [][]byte
			var stream []byte
			var bounds []int
			for k := 0; k < nmsg; k++ {
				m := randMsg(r, fmt.Sprintf("st-%d", k))
				if len(m) > 600 {
					m = randMsg(rand.New(rand.NewSource(int64(i*100+k))), fmt.Sprintf("st-%d", k))
				}
				sent = append(sent, m)
				stream = append(stream, m...)
				bounds = append(bounds, len(stream))
			}
			// where to pause
			where := []string{"inside-a-value", "inside-the-checksum-tag", "inside-the-checksum-value", "between-two-fields", "between-two-messages"}[i%5]
			k := r.Intn(nmsg - 1)
			start := 0
			if k > 0 {
				start = bounds[k-1]
			}
			end := bounds[k]
			cut := end
			switch where {
			case "inside-a-value":
				cut = start + 12 + r.Intn(end-start-24)
				for stream[cut] == 1 || stream[cut-1] == 1 {
					cut++
				}
			case "inside-the-checksum-tag":
				cut = end - 6 // "10" | "=ddd" SOH
			case "inside-the-checksum-value":
				cut = end - 2
			case "between-two-fields":
				cut = start + 12 + r.Intn(end-start-24)
				for stream[cut-1] != 1 {
					cut++
				}
			}
			pause := time.Duration(700+r.Intn(600)) * time.Millisecond
			mode := []string{"initiator", "acceptor"}[(i/5)%2]
			desc := fmt.Sprintf("inbound-stall %s buf=%d messages=%d: the stream pauses for %v %s (offset %d of message %d)", mode, buf, nmsg, pause, where, cut-start, k)
			replay := map[string]interface{}{"scenario": desc, "index": i, "seed": c.Seed}
			conn := wire.NewConn("c04st", false)
			var mu sync.Mutex
			var got [][]byte
			record := func(m []byte) bool {
				mu.Lock()
				got = append(got, append([]byte(nil), m...))
				mu.Unlock()
				return true
			}
			done := make(chan struct{})
			var stop func()
			if mode == "initiator" {
				h := simplefixgo.NewInitiatorHandler(context.Background(), "35", buf)
				h.HandleIncoming(simplefixgo.AllMsgTypes, record)
				ini := simplefixgo.NewInitiator(conn, h, buf, 5*time.Second)
				go func() { ini.Serve(); close(done) }()
				stop = func() { ini.Close(); h.Stop() }
			} else {
				lst := wire.NewListener()
				acc := simplefixgo.NewAcceptor(lst, simplefixgo.NewAcceptorHandlerFactory("35", buf), 5*time.Second, func(h simplefixgo.AcceptorHandler) {
					h.HandleIncoming(simplefixgo.AllMsgTypes, record)
				})
				go func() { acc.ListenAndServe(); close(done) }()
				lst.Connect(conn)
				stop = func() { acc.Close() }
			}
			conn.Feed(stream[:cut])
			time.Sleep(pause)
			conn.Feed(stream[cut:])
			waitFor(func() bool { mu.Lock(); defer mu.Unlock(); return len(got) >= nmsg }, 5*time.Second, conn)
			time.Sleep(5 * time.Millisecond)
			mu.Lock()
			g2 := append([][]byte(nil), got...)
			mu.Unlock()
			c.Eval(vk.Hash64([]byte(desc)), true)
			c.SetAdd("inbound_stall_places", where)
			c.Count("inbound_stall_scenarios", 1)
			compare(c, "inbound/after-a-long-pause/"+where, sent, g2, replay)
			stop()
			conn.Close()
			select {
			case <-done:
			case <-time.After(5 * time.Second):
			}
		}(i)
	}
	swg.Wait()

	// one message object handed to Send again and again with changed content while earlier hand-offs are still queued
	// or being written (a slowly reading peer): the stream must carry every hand-off as it was at hand-off time
	nro := c.Pick(60, 1200)
	vk.Parallel(nro, runtime.NumCPU(), func(i int) {
		r := c.Rand("c04-reused", int64(i))
		buf := []int{0, 1, 10}[r.Intn(3)]
		nsend := 3 + r.Intn(12)
		conn := wire.NewConn("c04ro", false)
		if r.Intn(3) > 0 {
			conn.SetWriteDelay(time.Duration(100+r.Intn(400)) * time.Microsecond)
		}
		h := simplefixgo.NewInitiatorHandler(context.Background(), "35", buf)
		ini := simplefixgo.NewInitiator(conn, h, buf, 5*time.Second)
		done := make(chan struct{})
		go func() { ini.Serve(); close(done) }()
		obj := fixgen.CreateMarketDataRequestReject("ro-0")
		obj.HeaderBuilder().SetFieldSenderCompID("S").SetFieldTargetCompID("T")
		var want []byte
		var handoffs [][]byte
		desc := fmt.Sprintf("re-sent-object buf=%d: one message object handed to Send %d times with changed content", buf, nsend)
		replay := map[string]interface{}{"scenario": desc, "index": i, "seed": c.Seed}
		for k := 0; k < nsend; k++ {
			obj.SetMDReqID(fmt.Sprintf("ro-%d-%s", k, strings.Repeat("x", r.Intn(12))))
			obj.SetText(strings.Repeat("t", r.Intn(20)))
			obj.HeaderBuilder().SetFieldMsgSeqNum(k + 1)
			b, err := obj.ToBytes()
			if err != nil {
				c.Inconclusive("ToBytes: " + err.Error())
				return
			}
			cp := append([]byte(nil), b...)
			handoffs = append(handoffs, cp)
			want = append(want, cp...)
			if err := h.Send(obj); err != nil {
				c.Inconclusive("Send: " + err.Error())
				return
			}
		}
		waitFor(func() bool { return len(conn.Written()) >= len(want) }, 5*time.Second, conn)
		time.Sleep(2 * time.Millisecond)
		got := conn.Written()
		c.Eval(vk.Hash64([]byte(desc), []byte{byte(i), byte(i >> 8)}), true)
		c.Count("reused_object_outbound_scenarios", 1)
		wireMsgs, rest := fixref.SplitStream("10", got)
		if len(rest) != 0 {
			c.Violate("C04/outbound/re-sent-object/partial-message-on-wire", fmt.Sprintf("%s: %d trailing bytes that are not a whole message", desc, len(rest)), replay)
		}
		compare(c, "outbound/re-sent-object", handoffs, wireMsgs, replay)
		ini.Close()
		h.Stop()
		conn.Close()
		select {
		case <-done:
		case <-time.After(5 * time.Second):
		}
	})

	// outbound stream under a write fault: the peer stops reading in the middle of one message (the write is cut short
	// and runs into its deadline) and then reads again. Whatever the library does about the fault, the bytes the peer
	// receives must remain a prefix of the handed-off messages in hand-off order.
	nf := c.Pick(60, 1500)
	vk.Parallel(nf, runtime.NumCPU(), func(i int) {
		r := c.Rand("c04-writefault", int64(i))
		buf := []int{0, 1, 10}[r.Intn(3)]
		nmsg := 2 + r.Intn(10)
		var msgs [][]byte
		var want []byte
		for k := 0; k < nmsg; k++ {
			m := randMsg(r, fmt.Sprintf("wf-%d", k))
			msgs = append(msgs, m)
			want = append(want, m...)
		}
		at := 1 + r.Intn(nmsg)
		cut := r.Intn(len(msgs[at-1]))
		if r.Intn(4) == 0 {
			cut = len(msgs[at-1]) - 1 - r.Intn(7) // inside the trailing CheckSum field
			if cut < 0 {
				cut = 0
			}
		}
		desc := fmt.Sprintf("write-fault buf=%d messages=%d: write #%d takes %d of %d bytes and times out, later writes are accepted", buf, nmsg, at, cut, len(msgs[at-1]))
		replay := map[string]interface{}{"scenario": desc, "index": i, "seed": c.Seed}
		conn := wire.NewConn("c04wf", false)
		conn.PartialStallAt(at, cut)
		h := simplefixgo.NewInitiatorHandler(context.Background(), "35", buf)
		ini := simplefixgo.NewInitiator(conn, h, buf, 30*time.Millisecond)
		done := make(chan struct{})
		go func() { ini.Serve(); close(done) }()
		sent := make(chan struct{})
		go func() {
			defer close(sent)
			for _, m := range msgs {
				if closed, _ := conn.Closed(); closed {
					return
				}
				h.SendRaw(m)
			}
		}()
		select {
		case <-sent:
		case <-time.After(5 * time.Second):
		}
		// let the fault play out: the deadline (30 ms), possible retries, the writes that follow
		settle := time.Now().Add(3 * time.Second)
		last := -1
		for time.Now().Before(settle) {
			time.Sleep(60 * time.Millisecond)
			n := len(conn.Written())
			closed, _ := conn.Closed()
			if n == last && (closed || n >= len(want)) {
				break
			}
			last = n
		}
		got := conn.Written()
		c.Eval(vk.Hash64([]byte(desc)), true)
		c.Count("write_fault_scenarios", 1)
		if closed, _ := conn.Closed(); closed {
			c.Count("write_fault_scenarios_connection_closed_after_fault", 1)
		}
		if len(got) > len(want) || !bytes.Equal(got, want[:len(got)]) {
			d := 0
			for d < len(got) && d < len(want) && got[d] == want[d] {
				d++
			}
			c.Violate("C04/outbound/stream-is-not-a-prefix-of-the-hand-offs/after-write-timeout", fmt.Sprintf("%s: the outbound stream departs from the handed-off messages at byte %d (stream %d bytes, hand-offs %d bytes): ...%s", desc, d, len(got), len(want), vk.Trunc(fixref.Pretty(got[max0(d-40):]), 200)), replay)
		}
		ini.Close()
		h.Stop()
		conn.Close()
		select {
		case <-done:
		case <-time.After(5 * time.Second):
		}
	})
	c.Finish()
}

func max0(x int) int {
	if x < 0 {
		return 0
	}
	return x
}

func totalLen(m [][][]byte) int {
	n := 0
	for _, g := range m {
		for _, x := range g {
			n += len(x)
		}
	}
	return n
}

func sizeClass(n int) string {
	switch {
	case n == 1:
		return "1"
	case n < 8:
		return "2-7"
	case n < 64:
		return "8-63"
	case n < 512:
		return "64-511"
	case n < 4096:
		return "512-4095"
	}
	return ">=4096"
}
