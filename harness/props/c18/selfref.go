package main

import (
	"context"
	"fmt"
	"runtime"
	"strconv"
	"strings"
	"sync"
	"time"

	simplefixgo "github.com/b2broker/simplefix-go"

	"verifharness/fixref"
	"verifharness/gen"
	"verifharness/vk"
	"verifharness/wire"
)

// selfReferring: the decoy is not just any text 'tag=' but the exact bytes of the message's own closing field —
// '<CheckSum tag>=ccc' with ccc the checksum this very message has — at the end of an earlier value, in the middle
// of one, or as the value of a field whose tag number ends in the CheckSum tag's digits. Such a message is found by
// a fixed-point search (a filler byte is varied until the checksum of the message equals the digits it carries).
// It is well-formed, so both unmarshallers must accept it and return every value as sent.
func selfReferring(c *vk.Ctx) {
	n := c.Pick(240, 6000)
	variants := []string{"suffix-of-last-body-value", "suffix-of-earlier-value", "middle-of-a-value", "value-of-tag-ending-in-the-checksum-tag", "longer-tag-and-suffix", "suffix-of-a-group-entry-value"}
	vk.Parallel(n, runtime.NumCPU(), func(i int) {
		r := c.Rand("c18-selfref", int64(i))
		variant := variants[i%len(variants)]
		used := map[string]bool{}
		ft := fixref.Std
		if r.Intn(4) == 0 {
			ft = fixref.FramingTags{Begin: freshTag(r, used), Len: freshTag(r, used), Type: freshTag(r, used), Sum: freshTag(r, used)}
		} else {
			for _, x := range []string{"8", "9", "35", "10"} {
				used[x] = true
			}
		}
		long := strconv.Itoa(1+r.Intn(9)) + ft.Sum // a tag whose number ends in the CheckSum tag's digits
		for used[long] {
			long = strconv.Itoa(1+r.Intn(9)) + long
		}
		used[long] = true
		tagSeq, tagD1, tagF, tagI, tagN, tagD2 := freshTag(r, used), freshTag(r, used), freshTag(r, used), freshTag(r, used), freshTag(r, used), freshTag(r, used)
		nSeq := &gen.Node{NK: gen.NField, Tag: tagSeq, VK: gen.KInt}
		nD1 := &gen.Node{NK: gen.NField, Tag: tagD1, VK: gen.KString}
		nL := &gen.Node{NK: gen.NField, Tag: long, VK: gen.KString}
		nF := &gen.Node{NK: gen.NField, Tag: tagF, VK: gen.KString}
		nI := &gen.Node{NK: gen.NField, Tag: tagI, VK: gen.KString}
		nG := &gen.Node{NK: gen.NGroup, Tag: tagN, Kids: []*gen.Node{nF, nI}}
		nD2 := &gen.Node{NK: gen.NField, Tag: tagD2, VK: gen.KString}
		t := &gen.Template{FT: ft, Begin: "FIX.4.4", MsgType: []string{"A", "0", "1", "D"}[r.Intn(4)],
			Header: []*gen.Node{nSeq}, Body: []*gen.Node{nD1, nL, nG, nD2}}
		filler := gen.RandString(r, 1+r.Intn(10), nil)
		seqV := 1 + r.Intn(5000)
		build := func(fill byte, ccc string) (*gen.MsgPop, []byte) {
			self := ft.Sum + "=" + ccc
			pSeq := &gen.Pop{N: nSeq, Val: ival(seqV)}
			pD1 := &gen.Pop{N: nD1, Val: sval(filler + string(fill))}
			pL := &gen.Pop{N: nL}
			pG := &gen.Pop{N: nG}
			pD2 := &gen.Pop{N: nD2, Val: sval("end")}
			entry := []*gen.Pop{{N: nF, Val: sval("e1")}, {N: nI}}
			switch variant {
			case "suffix-of-last-body-value":
				pD2.Val = sval("replay of " + self)
			case "suffix-of-earlier-value":
				pD1.Val = sval(filler + string(fill) + self)
			case "middle-of-a-value":
				pD1.Val = sval(filler + string(fill) + self + " tail")
			case "value-of-tag-ending-in-the-checksum-tag":
				pL.Val = sval(ccc)
			case "longer-tag-and-suffix":
				pL.Val = sval(ccc)
				pD2.Val = sval(self)
			case "suffix-of-a-group-entry-value":
				entry[1].Val = sval("x " + self)
			}
			if variant == "suffix-of-a-group-entry-value" || i%2 == 0 {
				pG.Entries = append(pG.Entries, entry)
			}
			mp := &gen.MsgPop{T: t, Header: []*gen.Pop{pSeq}, Body: []*gen.Pop{pD1, pL, pG, pD2}}
			var fields []fixref.Field
			for _, e := range mp.Expected(true) {
				v := ""
				if e.Val == nil {
					v = strconv.Itoa(e.Count)
				} else {
					v = e.Val.Text()
				}
				fields = append(fields, fixref.F(e.Tag, v))
			}
			return mp, fixref.Encode(ft, t.Begin, t.MsgType, fields)
		}
		var mp *gen.MsgPop
		var wire []byte
		ccc := ""
	search:
		for fill := byte('a'); fill <= 'z'; fill++ {
			for x := 0; x < 256; x++ {
				cand := fmt.Sprintf("%03d", x)
				m, w := build(fill, cand)
				fs, err := fixref.Tokenize(w)
				if err == nil && string(fs[len(fs)-1].Val) == cand {
					mp, wire, ccc = m, w, cand
					break search
				}
			}
		}
		if wire == nil {
			c.Count("self_referring_searches_without_a_fixed_point", 1)
			return
		}
		self := ft.Sum + "=" + ccc
		if err := fixref.CheckFrame(ft, wire); err != nil {
			c.Inconclusive("harness built an invalid frame: " + err.Error())
			return
		}
		occ := strings.Count(string(wire), self)
		if variant != "value-of-tag-ending-in-the-checksum-tag" && occ < 2 {
			c.Inconclusive("the self-referring text is not in the message: " + fixref.Pretty(wire))
			return
		}
		c.Eval(vk.Hash64([]byte("selfref"), wire), true)
		c.Count("self_referring_messages", 1)
		c.SetAdd("cells", "checksum/own-closing-field-bytes/"+variant)
		replay := map[string]interface{}{"index": i, "seed": c.Seed, "part": "self-referring", "variant": variant, "wire": vk.Trunc(fixref.Pretty(wire), 1200), "shape": t.Shape()}
		for _, strict := range []bool{true, false} {
			mode := "strict"
			if !strict {
				mode = "non-strict"
			}
			into := t.Empty()
			perr, ppan := parse(strict, into, wire)
			if ppan != "" {
				c.Violate("C18/parse-panic/checksum", mode+": panic: "+ppan, replay)
				continue
			}
			if perr != nil {
				c.Violate("C18/parse-error/checksum/own-closing-field-bytes-earlier-in-the-message", mode+": a well-formed message that contains the bytes of its own CheckSum field ("+variant+") was refused: "+perr.Error(), replay)
				continue
			}
			var diffs []gen.Diff
			gen.CompareSpec(mp.Header, into.Header().Items(), "header", false, &diffs)
			gen.CompareSpec(mp.Body, into.Body(), "body", false, &diffs)
			for _, d := range diffs {
				c.Violate("C18/parse-result/checksum/own-closing-field-bytes/"+strings.SplitN(d.Class, "/", 2)[0], mode+": "+d.Detail, replay)
			}
		}
		for _, tg := range []string{ft.Sum, ft.Len, tagD1, tagD2, long} {
			all, _ := fixref.Tokenize(wire)
			var w []byte
			present := false
			for _, f := range all {
				if f.Tag == tg {
					w, present = f.Val, true
					break
				}
			}
			v, err, pan := lookup(wire, tg)
			c.Count("lookups", 1)
			switch {
			case pan != "":
				c.Violate("C18/lookup-panic", fmt.Sprintf("ValueByTag(%q) panicked: %s", tg, pan), replay)
			case present && err != nil:
				c.Violate("C18/lookup-missed/checksum", fmt.Sprintf("ValueByTag(%q) failed (%v) though the field is present with value %q", tg, err, w), replay)
			case present && string(v) != string(w):
				c.Violate("C18/lookup-wrong-value/checksum/own-closing-field-bytes", fmt.Sprintf("ValueByTag(%q) = %q, the genuine field carries %q", tg, v, w), replay)
			case !present && err == nil:
				c.Violate("C18/lookup-absent-tag-found", fmt.Sprintf("ValueByTag(%q) = %q, but the message has no field with that tag", tg, v), replay)
			}
		}
	})
}

// pausedStreams: the peer's bytes stop for 1.3 s in the middle of a field value, and what follows the pause begins
// with the text of the CheckSum tag ('10=abc' inside a Text value; a field 110 whose tag is cut behind its first
// digit). A pause is not a field boundary: the connection delivers the message whole.
func pausedStreams(c *vk.Ctx) {
	type cs struct {
		name         string
		fields       []fixref.Field
		cutBeforeSub string // the pause sits right before the first occurrence of this text inside the message
	}
	cases := []cs{
		{"text-10=-inside-a-value", []fixref.Field{fixref.F("58", "see 10=abc for details"), fixref.F("354", "1")}, "10=abc"},
		{"tag-110-cut-behind-its-first-digit", []fixref.Field{fixref.F("58", "x"), fixref.F("110", "7")}, "10=7"},
		{"text-10=-at-the-start-of-a-value-cut-behind-the-equals-sign", []fixref.Field{fixref.F("58", "10=999"), fixref.F("354", "1")}, "10=999"},
		{"genuine-checksum-field-cut-before-its-tag", []fixref.Field{fixref.F("58", "plain")}, "\x0110="},
	}
	var wg sync.WaitGroup
	for i := range cases {
		wg.Add(1)
		go func(i int) {
			defer wg.Done()
			ce := cases[i]
			m1 := fixref.Encode(fixref.Std, "FIX.4.4", "D", ce.fields)
			m2 := fixref.Encode(fixref.Std, "FIX.4.4", "0", []fixref.Field{fixref.F("112", "after")})
			at := strings.Index(string(m1), ce.cutBeforeSub)
			if ce.cutBeforeSub == "\x0110=" {
				at++ // behind the delimiter, in front of the tag
			}
			if at <= 0 {
				c.Inconclusive("paused-stream case without its cut position: " + ce.name)
				return
			}
			conn := wire.NewConn("c18-pause", false)
			h := &recorder{out: make(chan []byte), errs: make(chan error, 2)}
			h.ctx, h.stop = context.WithCancel(context.Background())
			ini := simplefixgo.NewInitiator(conn, h, 0, time.Second)
			done := make(chan struct{})
			go func() { ini.Serve(); close(done) }()
			conn.Feed(m1[:at])
			time.Sleep(1300 * time.Millisecond)
			conn.Feed(m1[at:])
			conn.Feed(m2)
			deadline := time.Now().Add(3 * time.Second)
			for time.Now().Before(deadline) {
				h.mu.Lock()
				n := len(h.got)
				h.mu.Unlock()
				if n >= 2 {
					break
				}
				time.Sleep(2 * time.Millisecond)
			}
			time.Sleep(5 * time.Millisecond)
			h.mu.Lock()
			got := append([][]byte(nil), h.got...)
			h.mu.Unlock()
			ini.Close()
			h.Stop()
			<-done
			c.Eval(vk.Hash64([]byte("paused-stream"), []byte(ce.name)), true)
			c.Count("paused_streams", 1)
			c.SetAdd("cells", "checksum/conn-end-of-message/pause-inside-a-value/"+ce.name)
			if len(got) != 2 || string(got[0]) != string(m1) || string(got[1]) != string(m2) {
				first := "nothing"
				if len(got) > 0 {
					first = vk.Trunc(fixref.Pretty(got[0]), 200)
				}
				c.Violate("C18/conn-end-of-message/pause-inside-a-value", fmt.Sprintf("%s: the stream paused for 1.3 s at byte %d of the first message; the connection delivered %d messages for 2 sent, the first as %s", ce.name, at, len(got), first), map[string]interface{}{"case": ce.name, "cut_at": at})
			}
		}(i)
	}
	wg.Wait()
}
