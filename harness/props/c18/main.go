// C18 — a tag is recognised only at a field boundary, never inside a value or tag.
package main

import (
	"bytes"
	"context"
	"fmt"
	"math/rand"
	"runtime"
	"strconv"
	"strings"
	"sync"
	"time"

	"github.com/b2broker/simplefix-go/fix"
	"github.com/b2broker/simplefix-go/fix/encoding"

	"verifharness/fixref"
	"verifharness/gen"
	"verifharness/vk"
	"verifharness/wire"

	simplefixgo "github.com/b2broker/simplefix-go"
)

var roles = []string{"plain", "group-count", "group-first", "msgtype", "seqnum", "checksum", "bodylength", "entry-inner"}
var placements = []string{"value-before", "value-after", "value-both", "related-tag-before", "related-tag-after", "related-both+value"}

type tcase struct {
	role, placement string
	present         bool
	t               *gen.Template
	mp              *gen.MsgPop
	wire            []byte
	target          string // the tag t
	fields          []fixref.Field
}

func freshTag(r *rand.Rand, used map[string]bool) string {
	for {
		var t string
		switch r.Intn(3) {
		case 0:
			t = strconv.Itoa(1 + r.Intn(99))
		case 1:
			t = strconv.Itoa(100 + r.Intn(900))
		default:
			t = strconv.Itoa(1000 + r.Intn(9000))
		}
		if !used[t] {
			used[t] = true
			return t
		}
	}
}

// relatedTags returns unused tags that have t as a proper decimal suffix or prefix.
func relatedTags(r *rand.Rand, t string, used map[string]bool) []string {
	cands := []string{
		strconv.Itoa(1+r.Intn(9)) + t,       // t is a proper suffix
		strconv.Itoa(1+r.Intn(9)) + "0" + t, // longer suffix relation
		t + strconv.Itoa(r.Intn(10)),        // t is a proper prefix
		t + "0" + strconv.Itoa(r.Intn(10)),
	}
	if len(t) > 1 {
		cands = append(cands, t[1:], t[:len(t)-1]) // related the other way round
	}
	var out []string
	for _, c := range cands {
		if c == "" || c[0] == '0' || used[c] {
			continue
		}
		used[c] = true
		out = append(out, c)
	}
	return out
}

func sval(s string) *gen.Value { return &gen.Value{K: gen.KString, S: s} }
func ival(i int) *gen.Value    { return &gen.Value{K: gen.KInt, I: i} }

func mkCase(r *rand.Rand, role, placement string, present bool) *tcase {
	used := map[string]bool{}
	ft := fixref.Std
	if r.Intn(3) == 0 {
		ft = fixref.FramingTags{Begin: freshTag(r, used), Len: freshTag(r, used), Type: freshTag(r, used), Sum: freshTag(r, used)}
	} else {
		for _, x := range []string{"8", "9", "35", "10"} {
			used[x] = true
		}
	}
	tagSeq := "34"
	if used[tagSeq] {
		tagSeq = freshTag(r, used)
	}
	used[tagSeq] = true
	tagA, tagD1, tagD2, tagN, tagF, tagH, tagI, tagZ := freshTag(r, used), freshTag(r, used), freshTag(r, used), freshTag(r, used), freshTag(r, used), freshTag(r, used), freshTag(r, used), freshTag(r, used)
	nSeq := &gen.Node{NK: gen.NField, Tag: tagSeq, VK: gen.KInt}
	nD1 := &gen.Node{NK: gen.NField, Tag: tagD1, VK: gen.KString}
	nA := &gen.Node{NK: gen.NField, Tag: tagA, VK: gen.KString}
	nF := &gen.Node{NK: gen.NField, Tag: tagF, VK: gen.KString}
	nH := &gen.Node{NK: gen.NField, Tag: tagH, VK: gen.KInt}
	nI := &gen.Node{NK: gen.NField, Tag: tagI, VK: gen.KString}
	nG := &gen.Node{NK: gen.NGroup, Tag: tagN, Kids: []*gen.Node{nF, nH, nI}}
	nZ := &gen.Node{NK: gen.NField, Tag: tagZ, VK: gen.KInt}
	nD2 := &gen.Node{NK: gen.NField, Tag: tagD2, VK: gen.KString}
	t := &gen.Template{FT: ft, Begin: "FIX.4.4", MsgType: []string{"A", "0", "D", "AE"}[r.Intn(4)],
		Header: []*gen.Node{nSeq}, Body: []*gen.Node{nD1, nA, nG, nZ, nD2}}
	var target string
	switch role {
	case "plain":
		target = tagA
	case "group-count":
		target = tagN
	case "group-first":
		target = tagF
	case "entry-inner":
		target = tagH
	case "msgtype":
		target = ft.Type
	case "seqnum":
		target = tagSeq
	case "checksum":
		target = ft.Sum
	case "bodylength":
		target = ft.Len
	}
	decoyText := func() string {
		switch r.Intn(5) {
		case 0:
			return target + "="
		case 1:
			return target + "=" + strconv.Itoa(1+r.Intn(3))
		case 2:
			return "x" + target + "=" + strconv.Itoa(r.Intn(3))
		case 3:
			return target + "=" + target + "=2"
		default:
			return "a " + target + "=Z b"
		}
	}
	pSeq := &gen.Pop{N: nSeq}
	pD1 := &gen.Pop{N: nD1}
	pA := &gen.Pop{N: nA}
	pG := &gen.Pop{N: nG}
	pZ := &gen.Pop{N: nZ}
	pD2 := &gen.Pop{N: nD2}
	// baseline population: everything genuine present unless it is the target and !present
	if !(role == "seqnum" && !present) {
		pSeq.Val = ival(1 + r.Intn(5000))
	}
	if !(role == "plain" && !present) {
		pA.Val = sval(gen.RandString(r, 8, nil))
	}
	groupPresent := !((role == "group-count" || role == "group-first" || role == "entry-inner") && !present)
	if groupPresent {
		n := 1 + r.Intn(3)
		for e := 0; e < n; e++ {
			entry := []*gen.Pop{{N: nF, Val: sval(gen.RandString(r, 6, nil))}, {N: nH}, {N: nI}}
			if r.Intn(2) == 0 {
				entry[1].Val = ival(r.Intn(100))
			}
			if r.Intn(2) == 0 {
				entry[2].Val = sval(gen.RandString(r, 6, nil))
				if placement != "related-tag-before" && placement != "related-tag-after" && r.Intn(2) == 0 {
					entry[2].Val = sval(decoyText()) // a decoy inside an entry's own value
				}
			}
			pG.Entries = append(pG.Entries, entry)
		}
	}
	if r.Intn(2) == 0 {
		pZ.Val = ival(r.Intn(1000))
	}
	switch placement {
	case "value-before":
		pD1.Val = sval(decoyText())
	case "value-after":
		pD2.Val = sval(decoyText())
	case "value-both", "related-both+value":
		pD1.Val = sval(decoyText())
		pD2.Val = sval(decoyText())
	}
	mp := &gen.MsgPop{T: t, Header: []*gen.Pop{pSeq}, Body: []*gen.Pop{pD1, pA, pG, pZ, pD2}}
	// wire fields from the expectation, by the harness's own encoder
	var fields []fixref.Field
	var topLevel []bool
	for _, e := range mp.Expected(true) {
		v := ""
		if e.Val == nil {
			v = strconv.Itoa(e.Count)
		} else {
			v = e.Val.Text()
		}
		fields = append(fields, fixref.F(e.Tag, v))
		topLevel = append(topLevel, !strings.Contains(e.Path, "/g") || e.Val == nil)
	}
	// related-tag extra fields (not part of the template), only at top-level boundaries
	if strings.HasPrefix(placement, "related") {
		rel := relatedTags(r, target, used)
		for k, rt := range rel {
			val := strconv.Itoa(1 + r.Intn(3))
			if r.Intn(3) == 0 {
				val = gen.RandString(r, 6, nil)
			}
			before := placement == "related-tag-before" || (placement == "related-both+value" && k%2 == 0)
			pos := 0
			if !before {
				pos = len(fields)
			} else {
				// the first top-level boundary
				pos = 0
			}
			nf := fixref.F(rt, val)
			fields = append(fields[:pos], append([]fixref.Field{nf}, fields[pos:]...)...)
			topLevel = append(topLevel[:pos], append([]bool{true}, topLevel[pos:]...)...)
		}
	}
	begin := t.Begin
	if (role == "msgtype" || role == "bodylength" || role == "checksum") && r.Intn(2) == 0 {
		begin = "FIX" + target + "=9" // the decoy may even sit in the BeginString value
		t.Begin = begin
	}
	wire := fixref.Encode(ft, begin, t.MsgType, fields)
	return &tcase{role: role, placement: placement, present: present, t: t, mp: mp, wire: wire, target: target, fields: fields}
}

func parse(strict bool, into *fix.Message, wire []byte) (err error, pan string) {
	defer func() {
		if p := recover(); p != nil {
			pan = fmt.Sprint(p)
		}
	}()
	if strict {
		err = encoding.Unmarshal(into, wire)
	} else {
		err = encoding.NewDefaultUnmarshaller(false).Unmarshal(into, wire)
	}
	return
}

func lookup(wire []byte, tag string) (v []byte, err error, pan string) {
	defer func() {
		if p := recover(); p != nil {
			pan = fmt.Sprint(p)
		}
	}()
	v, err = fix.ValueByTag(wire, tag)
	return
}

func main() {
	c := vk.Init("C18")
	c.Rule("targeted decoys: for a tag t in each role {plain field, group count, first field of a group, inner entry field, MsgType, MsgSeqNum, CheckSum, BodyLength} x placement {text 't=' inside another field's value before / after / both sides of the genuine field, extra fields whose tag has t as proper decimal suffix or prefix before / after, both} x genuine field or group present / absent: the message is built by the harness's own encoder (correct framing), then parsed (strict and non-strict) into the library template and every tag of the message plus t is looked up with ValueByTag; expected results come from the construction. Plus self-referring messages: the exact bytes of the message's own closing field ('10=ccc' with ccc its own checksum, found by a fixed-point search) at the end or in the middle of an earlier value (top level or group entry), or ccc as the value of a field whose tag ends in the CheckSum tag's digits; such a message must be accepted and parsed as sent. Plus connection framing: messages whose values contain the text '10=' at 30 chosen offsets (incl. around multiples of 4096) and fields 110/210/1010 are streamed through a real Conn and must be delivered with the boundaries the reference splitter gives; and streams that pause for 1.3 s inside a field value, right before text that begins like the CheckSum field, are delivered whole. Plus the session's own lookups: a logged-on session receives a Heartbeat (valid, or with a wrong checksum) in which text '34=' inside a value or a longer tag ending in 34 precedes the genuine MsgSeqNum; the recorded incoming number and the Reject's RefSeqNum must be the genuine one; and the handler's own lookup of MsgType: TestRequests whose MsgType field is not the third one and follows a value containing '35=', a tag ending in 35, or a value that is itself a message type are answered with their Heartbeat. distinct = hash(wire); non-trivial = all (every case carries a decoy)")
	c.Assume("messages are well-formed: BeginString first, correct BodyLength/CheckSum, one template position per tag, foreign (related-tag) fields only at top level")
	reps := c.Pick(60, 5000)
	type combo struct {
		role, placement string
		present         bool
	}
	var combos []combo
	for _, ro := range roles {
		for _, pl := range placements {
			for _, pr := range []bool{true, false} {
				if !pr && (ro == "msgtype" || ro == "checksum" || ro == "bodylength") {
					continue // a well-formed message always has these
				}
				combos = append(combos, combo{ro, pl, pr})
			}
		}
	}
	total := len(combos) * reps
	vk.Parallel(total, runtime.NumCPU(), func(i int) {
		cb := combos[i%len(combos)]
		r := c.Rand("c18", int64(i))
		tc := mkCase(r, cb.role, cb.placement, cb.present)
		cell := fmt.Sprintf("%s/%s/present=%v", cb.role, cb.placement, cb.present)
		c.SetAdd("cells", cell)
		c.Eval(vk.Hash64(tc.wire), true)
		replay := map[string]interface{}{"index": i, "seed": c.Seed, "cell": cell, "target_tag": tc.target, "wire": vk.Trunc(fixref.Pretty(tc.wire), 1200), "shape": tc.t.Shape()}
		if err := fixref.CheckFrame(tc.t.FT, tc.wire); err != nil {
			c.Inconclusive("harness built an invalid frame: " + err.Error())
			return
		}
		for _, strict := range []bool{true, false} {
			mode := "strict"
			if !strict {
				mode = "non-strict"
			}
			into := tc.t.Empty()
			perr, ppan := parse(strict, into, tc.wire)
			if ppan != "" {
				c.Violate("C18/parse-panic/"+cb.role, mode+": panic: "+ppan, replay)
				continue
			}
			if perr != nil {
				c.Violate("C18/parse-error/"+cb.role+"/"+kind(cb.placement), mode+": a well-formed message with a decoy was refused: "+perr.Error(), replay)
				continue
			}
			var diffs []gen.Diff
			gen.CompareSpec(tc.mp.Header, into.Header().Items(), "header", false, &diffs)
			gen.CompareSpec(tc.mp.Body, into.Body(), "body", false, &diffs)
			for _, d := range diffs {
				c.Violate("C18/parse-result/"+cb.role+"/"+kind(cb.placement)+"/"+strings.SplitN(d.Class, "/", 2)[0], mode+": "+d.Detail, replay)
			}
			if into.MsgType() != tc.t.MsgType {
				c.Violate("C18/parse-result/msgtype", fmt.Sprintf("%s: MsgType parsed as %q, sent %q", mode, into.MsgType(), tc.t.MsgType), replay)
			}
		}
		// lookups: the target and every tag genuinely in the message
		all, _ := fixref.Tokenize(tc.wire)
		want := map[string][]byte{}
		for _, f := range all {
			if _, dup := want[f.Tag]; !dup {
				want[f.Tag] = f.Val
			}
		}
		tags := []string{tc.target, tc.t.FT.Type, tc.t.FT.Sum, tc.t.FT.Len, tc.t.FT.Begin}
		for _, f := range all {
			tags = append(tags, f.Tag)
		}
		// tags that are proper prefixes of the first tag of the message, and absent ones
		if len(tc.t.FT.Begin) > 1 {
			tags = append(tags, tc.t.FT.Begin[:len(tc.t.FT.Begin)-1])
		}
		seen := map[string]bool{}
		for _, tg := range tags {
			if seen[tg] {
				continue
			}
			seen[tg] = true
			c.Count("lookups", 1)
			v, err, pan := lookup(tc.wire, tg)
			w, present := want[tg]
			switch {
			case pan != "":
				c.Violate("C18/lookup-panic", fmt.Sprintf("ValueByTag(%q) panicked: %s", tg, pan), replay)
			case present && err != nil:
				c.Violate("C18/lookup-missed/"+cb.role, fmt.Sprintf("ValueByTag(%q) failed (%v) though the field is present with value %q", tg, err, w), replay)
			case present && !bytes.Equal(v, w):
				c.Violate("C18/lookup-wrong-value/"+cb.role+"/"+kind(cb.placement), fmt.Sprintf("ValueByTag(%q) = %q, the genuine field carries %q", tg, v, w), replay)
			case !present && err == nil:
				cls := "absent-tag-found"
				if strings.HasPrefix(tc.t.FT.Begin, tg) {
					cls = "absent-tag-found-as-prefix-of-first-tag"
				}
				c.Violate("C18/lookup-"+cls, fmt.Sprintf("ValueByTag(%q) = %q, but the message has no field with that tag", tg, v), replay)
			}
		}
		if c.WantSample() && i%97 == 0 {
			c.Sample(map[string]interface{}{"cell": cell, "target_tag": tc.target, "wire": vk.Trunc(fixref.Pretty(tc.wire), 400)})
		}
	})
	selfReferring(c)
	connFraming(c)
	pausedStreams(c)
	sessionLookups(c)
	dispatchLookups(c)
	c.Finish()
}

// recorder is a minimal InitiatorHandler that records what the connection delivers.
type recorder struct {
	mu   sync.Mutex
	got  [][]byte
	out  chan []byte
	ctx  context.Context
	stop context.CancelFunc
	errs chan error
}

func (h *recorder) ServeIncoming(msg []byte) {
	h.mu.Lock()
	h.got = append(h.got, append([]byte(nil), msg...))
	h.mu.Unlock()
}
func (h *recorder) Outgoing() <-chan []byte { return h.out }
func (h *recorder) Run() error {
	select {
	case <-h.ctx.Done():
		return nil
	case err := <-h.errs:
		return err
	}
}
func (h *recorder) StopWithError(err error) {
	select {
	case h.errs <- err:
	default:
	}
}
func (h *recorder) CloseErrorChan()                         {}
func (h *recorder) Send(m simplefixgo.SendingMessage) error { return nil }
func (h *recorder) Context() context.Context                { return h.ctx }
func (h *recorder) Stop()                                   { h.stop() }

// connFraming: end-of-message detection must recognise the CheckSum tag only at a field start.
// Messages whose values contain the text "10=" (and fields 110/210/1010) at chosen offsets — including
// offsets around multiples of the reader's buffer size — are streamed through a real Conn/Initiator.
func connFraming(c *vk.Ctx) {
	offsets := []int{0, 1, 2, 3, 7, 100, 1000, 4000, 4089, 4090, 4091, 4092, 4093, 4094, 4095, 4096, 4097, 4098, 8185, 8186, 8187, 8188, 8189, 8190, 8191, 8192, 8193, 12285, 12286, 12287}
	vk.Parallel(len(offsets), runtime.NumCPU(), func(i int) {
		off := offsets[i]
		var sent [][]byte
		for k := 0; k < 3; k++ {
			val := strings.Repeat("x", off) + "10=12" + strconv.Itoa(k) + " tail"
			sent = append(sent, fixref.Encode(fixref.Std, "FIX.4.4", "D", []fixref.Field{fixref.F("110", "7"), fixref.F("58", val), fixref.F("1010", "10=999"), fixref.F("210", "x")}))
			sent = append(sent, fixref.Encode(fixref.Std, "FIX.4.4", "0", []fixref.Field{fixref.F("112", "10=")}))
		}
		conn := wire.NewConn("c18", false)
		h := &recorder{out: make(chan []byte), errs: make(chan error, 2)}
		h.ctx, h.stop = context.WithCancel(context.Background())
		ini := simplefixgo.NewInitiator(conn, h, 0, time.Second)
		done := make(chan struct{})
		go func() { ini.Serve(); close(done) }()
		for _, m := range sent {
			conn.Feed(m)
		}
		deadline := time.Now().Add(5 * time.Second)
		for time.Now().Before(deadline) {
			h.mu.Lock()
			n := len(h.got)
			h.mu.Unlock()
			if n >= len(sent) {
				break
			}
			if closed, at := conn.Closed(); closed && time.Since(at) > 200*time.Millisecond {
				break
			}
			time.Sleep(2 * time.Millisecond)
		}
		time.Sleep(5 * time.Millisecond)
		h.mu.Lock()
		got := append([][]byte(nil), h.got...)
		h.mu.Unlock()
		ini.Close()
		h.Stop()
		<-done
		c.Eval(vk.Hash64([]byte("conn-framing"), []byte(strconv.Itoa(off))), true)
		c.Count("conn_framing_streams", 1)
		c.SetAdd("cells", "checksum/conn-end-of-message/text-in-value")
		bad := len(got) != len(sent)
		for k := 0; !bad && k < len(sent); k++ {
			bad = !bytes.Equal(got[k], sent[k])
		}
		if bad {
			first := ""
			for k := 0; k < len(got) && k < len(sent); k++ {
				if !bytes.Equal(got[k], sent[k]) {
					first = fmt.Sprintf("message #%d delivered as %s", k, vk.Trunc(fixref.Pretty(got[k]), 200))
					break
				}
			}
			c.Violate("C18/conn-end-of-message/text-10=-inside-a-value", fmt.Sprintf("a value containing the text '10=' at offset %d of a field: the connection delivered %d messages for %d sent; %s", off, len(got), len(sent), first), map[string]interface{}{"offset_in_value": off})
		}
	})
}

func kind(placement string) string {
	if strings.HasPrefix(placement, "value") {
		return "text-in-value"
	}
	if placement == "related-both+value" {
		return "related-tag+text"
	}
	return "related-tag"
}
