package main

import (
	"fmt"
	"strconv"
	"time"

	"github.com/b2broker/simplefix-go/fix"
	"github.com/b2broker/simplefix-go/session"
	"github.com/b2broker/simplefix-go/storages/memory"

	"verifharness/fixref"
	"verifharness/rig"
	"verifharness/vk"
)

// sessionLookups: the session itself looks MsgSeqNum up in every inbound message (to record the peer's number and to
// refer to it in a Reject). Text "34=" inside a value that precedes the genuine field, or a longer tag ending in 34,
// must not be taken for it.
func sessionLookups(c *vk.Ctx) {
	decoys := []struct{ tag, val string }{
		{"115", "DESK 34=9"}, {"115", "34=9"}, {"115", "X34=9"}, {"115", "a=34=9"}, {"50", "trader;34=9;"}, {"115", "1 34=9"},
		{"134", "9"}, {"1134", "9"}, {"5034", "9"}, {"115", "DESK134=9"},
	}
	n := c.Pick(len(decoys)*8, len(decoys)*200)
	vk.Parallel(n, 16, func(i int) {
		d := decoys[i%len(decoys)]
		role := rig.Role((i / len(decoys)) % 2)
		damaged := (i/(2*len(decoys)))%2 == 1
		st := memory.NewStorage()
		r, err := rig.NewStepRig(rig.StepCfg{Role: role, HeartBtInt: 30, Limits: &session.IntLimits{Min: 5, Max: 60}, Counter: st, Messages: st, SentinelBarrier: true})
		if err != nil {
			c.Inconclusive("rig: " + err.Error())
			return
		}
		defer r.Close()
		p := rig.NewPeer()
		if res := r.Inbound(p.Logon(30, "0")); !res.Logged {
			c.Inconclusive("session-lookup part: no logon")
			return
		}
		rr := c.Rand("c18-session", int64(i))
		p.Seq += rr.Intn(40)
		for k := 0; k < 1+rr.Intn(3); k++ {
			r.Inbound(p.Heartbeat())
		}
		p.Seq++
		seq := p.Seq
		// the decoy precedes the genuine MsgSeqNum field
		msg := fixref.Encode(fixref.Std, "FIX.4.4", "0", []fixref.Field{
			fixref.F(rig.TSender, rig.PeerID), fixref.F(rig.TTarget, rig.LibID), fixref.F(d.tag, d.val),
			fixref.F(rig.TSeq, strconv.Itoa(seq)), fixref.F(rig.TTime, time.Now().UTC().Format("20060102-15:04:05.000")),
		})
		kind := "valid-heartbeat"
		if damaged {
			msg = rig.BadChecksum(msg)
			kind = "heartbeat-with-wrong-checksum"
		}
		desc := fmt.Sprintf("%s: %s whose field %s=%q precedes the genuine 34=%d", role, kind, d.tag, d.val, seq)
		replay := map[string]interface{}{"case": desc, "message": fixref.Pretty(msg), "seed": c.Seed}
		res := r.Inbound(msg)
		c.Eval(vk.Hash64([]byte(desc)), true)
		c.Count("session_level_lookups", 1)
		if res.TimedOut {
			c.Inconclusive("watchdog: " + desc)
			return
		}
		if damaged {
			if len(res.Outs) != 1 || res.Outs[0].Type != "3" {
				return // C16's matter
			}
			if got := fixref.GetS(res.Outs[0].Fields, rig.TRefSeq); got != strconv.Itoa(seq) {
				c.Violate("C18/session/reject-refers-to-a-number-found-inside-a-value-or-longer-tag", fmt.Sprintf("%s: the Reject has 45=%s", desc, got), replay)
			}
			return
		}
		id := fix.StorageID{Sender: rig.LibID, Target: rig.PeerID, Side: fix.Incoming}
		got, err := st.GetCurrSeqNum(id)
		if err != nil || got != seq {
			c.Violate("C18/session/recorded-incoming-number-found-inside-a-value-or-longer-tag", fmt.Sprintf("%s: the session recorded %d as the peer's last sequence number (err %v)", desc, got, err), replay)
		}
	})
}

// dispatchLookups: the handler looks MsgType up in every inbound message to choose the handlers it is offered to. In
// these messages MsgType is not the third field (other header fields stand in front of it), and what stands in front
// of it carries the text '35=' inside a value, a tag that ends in 35, or a value that is itself a message type.
// The message is a TestRequest and must be served as one: one Heartbeat with its TestReqID — not a Logout or Logon.
func dispatchLookups(c *vk.Ctx) {
	fronts := [][]fixref.Field{
		{fixref.F(rig.TSender, rig.PeerID), fixref.F(rig.TTarget, rig.LibID), fixref.F("115", "DESK35=5")},
		{fixref.F(rig.TSender, rig.PeerID), fixref.F(rig.TTarget, rig.LibID), fixref.F("115", "35=5")},
		{fixref.F(rig.TSender, rig.PeerID), fixref.F(rig.TTarget, rig.LibID), fixref.F("1135", "5")},
		{fixref.F(rig.TSender, rig.PeerID), fixref.F(rig.TTarget, rig.LibID), fixref.F("135", "A")},
		{fixref.F("115", "A"), fixref.F(rig.TSender, rig.PeerID), fixref.F(rig.TTarget, rig.LibID)},
		{fixref.F("115", "5"), fixref.F(rig.TSender, rig.PeerID), fixref.F(rig.TTarget, rig.LibID)},
		{fixref.F(rig.TSender, rig.PeerID), fixref.F(rig.TTarget, rig.LibID), fixref.F("58", "x 35=A y")},
		{fixref.F(rig.TSender, rig.PeerID), fixref.F(rig.TTarget, rig.LibID)}, // control: nothing confusing, only the position
	}
	n := c.Pick(len(fronts)*4, len(fronts)*100)
	vk.Parallel(n, 16, func(i int) {
		front := fronts[i%len(fronts)]
		role := rig.Role((i / len(fronts)) % 2)
		r, err := rig.NewStepRig(rig.StepCfg{Role: role, HeartBtInt: 30, Limits: &session.IntLimits{Min: 5, Max: 60}, SentinelBarrier: true})
		if err != nil {
			c.Inconclusive("rig: " + err.Error())
			return
		}
		defer r.Close()
		p := rig.NewPeer()
		if res := r.Inbound(p.Logon(30, "0")); !res.Logged {
			c.Inconclusive("dispatch-lookup part: no logon")
			return
		}
		p.Seq++
		id := "dispatch-" + strconv.Itoa(i)
		var mid []byte
		for _, f := range front {
			mid = append(mid, (f.Tag + "=" + string(f.Val) + "\x01")...)
		}
		mid = append(mid, ("35=1\x01" + rig.TSeq + "=" + strconv.Itoa(p.Seq) + "\x01" + rig.TTime + "=" + time.Now().UTC().Format("20060102-15:04:05.000") + "\x01" + rig.TTestReqID + "=" + id + "\x01")...)
		msg := fixref.EncodeRaw(fixref.Std, "FIX.4.4", mid)
		desc := fmt.Sprintf("%s: TestRequest whose MsgType field follows %v", role, front)
		replay := map[string]interface{}{"case": desc, "message": fixref.Pretty(msg), "seed": c.Seed}
		res := r.Inbound(msg)
		c.Eval(vk.Hash64([]byte(desc)), true)
		c.Count("dispatch_lookups", 1)
		if res.TimedOut {
			c.Inconclusive("watchdog: " + desc)
			return
		}
		var ts []string
		for _, o := range res.Outs {
			ts = append(ts, o.Type)
		}
		if !res.Logged {
			c.Violate("C18/handler/msgtype-found-inside-a-value-or-by-position", fmt.Sprintf("%s: the session is no longer logged on (answers: %v)", desc, ts), replay)
			return
		}
		if len(res.Outs) != 1 || res.Outs[0].Type != "0" || fixref.GetS(res.Outs[0].Fields, rig.TTestReqID) != id {
			c.Violate("C18/handler/msgtype-found-inside-a-value-or-by-position", fmt.Sprintf("%s: answered with %v, want the Heartbeat of a TestRequest", desc, ts), replay)
		}
	})
}
