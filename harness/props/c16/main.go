// C16 — invalid admin messages are rejected by sequence number and change nothing.
package main

import (
	"bytes"
	"fmt"
	simplefixgo "github.com/b2broker/simplefix-go"
	"runtime"
	"strconv"
	"strings"
	"sync"
	"sync/atomic"
	"time"

	"github.com/b2broker/simplefix-go/session"

	"verifharness/fixref"
	"verifharness/rig"
	"verifharness/vk"
)

type adminT struct {
	name, typ string
	build     func(p *rig.Peer) []byte
	numeric   string // a numeric body field of this type, "" if none
}

var admins = []adminT{
	{"Logon", "A", func(p *rig.Peer) []byte { return p.Logon(30, "0") }, rig.THeartBt},
	{"Logout", "5", func(p *rig.Peer) []byte { return p.Logout() }, ""},
	{"Heartbeat", "0", func(p *rig.Peer) []byte { return p.Heartbeat() }, ""},
	{"TestRequest", "1", func(p *rig.Peer) []byte { return p.TestRequest("T" + strconv.Itoa(p.Seq+1)) }, ""},
	{"ResendRequest", "2", func(p *rig.Peer) []byte { return p.Resend(1, 1) }, rig.TBeginSeq},
	// a Logon that names other parties, another interval and other credentials than the session's own logon
	{"LogonFromOtherParties", "A", func(p *rig.Peer) []byte {
		q := &rig.Peer{Sender: "MALLORY", Target: "ELSEWHERE", Seq: p.Seq}
		m := q.Logon(55, "0", fixref.F(rig.TUser, "mallory"), fixref.F(rig.TPass, "x"))
		p.Seq = q.Seq
		return m
	}, rig.THeartBt},
}

var damages = []string{"bad-checksum", "bad-length", "non-numeric-body-field", "non-numeric-header-field", "bad-checksum+missing-seqnum", "bad-checksum+non-numeric-seqnum", "bad-length+missing-seqnum", "none(state-not-permitted)", "state-not-permitted+missing-seqnum", "state-not-permitted+non-numeric-seqnum", "non-numeric-seqnum", "empty-seqnum", "empty-numeric-body-field", "checksum-plus-256", "checksum-unpadded-or-signed", "equals-sign-lost-before-seqnum", "doubled-delimiter-before-seqnum", "equals-sign-lost-after-seqnum", "bodylength-padded-and-too-large-by-the-padding"}

func damage(kind string, a adminT, m []byte) ([]byte, bool, bool) {
	// returns message, ok, seqUsable
	switch kind {
	case "bad-checksum":
		return rig.BadChecksum(m), true, true
	case "bad-length":
		return rig.BadLength(m), true, true
	case "non-numeric-body-field":
		if a.numeric == "" {
			return nil, false, true
		}
		return rig.Reframe(m, map[string]string{a.numeric: "1x"}, nil), true, true
	case "non-numeric-header-field":
		fs, _ := fixref.TokenizeLoose(m)
		mid := append([]fixref.Field{}, fs[3:len(fs)-1]...)
		mid = append(mid, fixref.F("369", "abc")) // LastMsgSeqNumProcessed is an Int in the header template
		return fixref.Encode(fixref.Std, "FIX.4.4", a.typ, mid), true, true
	case "bad-checksum+missing-seqnum":
		return rig.BadChecksum(rig.Reframe(m, nil, map[string]bool{rig.TSeq: true})), true, false
	case "bad-checksum+non-numeric-seqnum":
		return rig.BadChecksum(rig.Reframe(m, map[string]string{rig.TSeq: "7z"}, nil)), true, false
	case "bad-length+missing-seqnum":
		return rig.BadLength(rig.Reframe(m, nil, map[string]bool{rig.TSeq: true})), true, false
	case "none(state-not-permitted)":
		return m, true, true
	case "state-not-permitted+missing-seqnum":
		// correctly framed, not allowed in the state, and no sequence number to refer to
		return rig.Reframe(m, nil, map[string]bool{rig.TSeq: true}), true, false
	case "state-not-permitted+non-numeric-seqnum":
		return rig.Reframe(m, map[string]string{rig.TSeq: "7z"}, nil), true, false
	case "non-numeric-seqnum":
		// correctly framed, whatever the state: the sequence number itself cannot be parsed
		return rig.Reframe(m, map[string]string{rig.TSeq: "7z"}, nil), true, false
	case "empty-seqnum":
		return rig.Reframe(m, map[string]string{rig.TSeq: ""}, nil), true, false
	case "checksum-plus-256", "checksum-unpadded-or-signed":
		// a CheckSum value that is numerically congruent to, or equal to, the right one but is not the right field
		cut := bytes.LastIndex(m[:len(m)-1], []byte{1})
		sum, _ := strconv.Atoi(string(m[cut+4 : len(m)-1]))
		var v string
		if kind == "checksum-plus-256" {
			if sum+256 > 999 {
				return nil, false, true
			}
			v = strconv.Itoa(sum + 256)
		} else if sum < 100 {
			v = strconv.Itoa(sum) // without the zero padding
		} else {
			v = "+" + strconv.Itoa(sum)
		}
		return append(append([]byte(nil), m[:cut+1]...), []byte("10="+v+"\x01")...), true, true
	case "equals-sign-lost-before-seqnum", "equals-sign-lost-after-seqnum", "doubled-delimiter-before-seqnum":
		// transmission damage that leaves a field without '=' (or an empty field) in the header, in front of or behind
		// the sequence number: BodyLength and CheckSum no longer fit, the sequence number is intact
		tag := rig.TTarget // precedes MsgSeqNum in the peer's messages
		if kind == "equals-sign-lost-after-seqnum" {
			tag = rig.TTime
		}
		at := bytes.Index(m, []byte("\x01"+tag+"="))
		if at < 0 || bytes.Index(m, []byte("\x01"+rig.TSeq+"=")) < 0 {
			return nil, false, true
		}
		out := append([]byte(nil), m[:at+1]...)
		if kind == "doubled-delimiter-before-seqnum" {
			out = append(out, 1)
			out = append(out, m[at+1:]...)
		} else {
			out = append(out, []byte(tag)...)
			out = append(out, m[at+1+len(tag)+1:]...)
		}
		return out, true, true
	case "bodylength-padded-and-too-large-by-the-padding":
		// 9=071 (or 9=+71) where the body has 70 bytes: the value is wrong by exactly the surplus characters of its own
		// spelling; the CheckSum fits the bytes as sent
		fs, err := fixref.TokenizeLoose(m)
		if err != nil || len(fs) < 4 {
			return nil, false, true
		}
		n, _ := strconv.Atoi(string(fs[1].Val))
		pad := []string{"0", "+", "00"}[len(m)%3]
		var out []byte
		out = append(out, (fs[0].Tag + "=" + string(fs[0].Val) + "\x01")...)
		out = append(out, ("9=" + pad + strconv.Itoa(n+len(pad)) + "\x01")...)
		for _, f := range fs[2 : len(fs)-1] {
			out = append(out, (f.Tag + "=" + string(f.Val) + "\x01")...)
		}
		out = append(out, ("10=" + fixref.Sum3(out) + "\x01")...)
		return out, true, true
	case "empty-numeric-body-field":
		if a.numeric == "" {
			return nil, false, true
		}
		return rig.Reframe(m, map[string]string{a.numeric: ""}, nil), true, true
	}
	return nil, false, true
}

func types(outs []rig.Out) string {
	var t []string
	for _, o := range outs {
		t = append(t, o.Type)
	}
	return "[" + strings.Join(t, ",") + "]"
}

type cell struct {
	role   rig.Role
	logged bool
	a      int
	dmg    int
	pos    int
	probe  bool // real time: N=1 and 2.3 s of silence first, so that the session's own TestRequest is pending
}

var can *rig.Canary

func main() {
	c := vk.Init("C16")
	can = rig.StartCanary()
	defer can.Stop()
	c.Rule("matrix: admin type {Logon, Logout, Heartbeat, TestRequest, ResendRequest, a Logon naming other parties / interval / credentials} x damage {wrong checksum, wrong body length, non-numeric body field, non-numeric header field, wrong checksum/length + missing or non-numeric MsgSeqNum, undamaged but not permitted in the state, not permitted in the state and MsgSeqNum missing or non-numeric (correct framing), correct framing with a non-numeric or EMPTY MsgSeqNum value, an EMPTY numeric body field, a CheckSum value 256 above the right one, the right value without zero padding or with a sign, a header field in front of / behind MsgSeqNum that lost its '=' and a doubled delimiter in front of MsgSeqNum (framing left as it was, so the integrity check fails)} x session state {waiting, logged on, logged on with the session's own TestRequest pending (real time, N=1; timer Heartbeats/TestRequests are not counted as answers)} x role x position (after 0..3 valid messages) x follow-up valid traffic; plus, over a scripted connection while logged on, every admin type with a CheckSum field whose value is 0, 1, 2, 4 or 5 characters long followed by a valid TestRequest; in every seventh cell an earlier Reject of the session could not be sent because the counter store failed once (the judged message arrives after the store has recovered); in every sixth cell two application observers for the message type, registered before Session.Run, are removed in registration order before the invalid message arrives; tag 35 itself is never damaged. Oracle per offending step: exactly one message emitted and it is a Reject with 45 = the offending 34 (or 371 = 34 when 34 is missing/non-numeric); IsLogged unchanged; context not cancelled and handler still running; the following valid message has its normal effect (TestRequest answered when logged on, good Logon accepted when waiting). distinct = matrix cell x position x seqnum; non-trivial = all")
	c.Assume("a message whose only defect is a missing sequence number is not in the statement's list; 'state-not-permitted' cells are: Heartbeat/TestRequest/ResendRequest/Logout while waiting, Logon while logged on")
	reps := c.Pick(10, 120)
	var cells []cell
	for _, role := range []rig.Role{rig.Acceptor, rig.Initiator} {
		for _, logged := range []bool{false, true} {
			for a := range admins {
				for d := range damages {
					for pos := 0; pos < 4; pos++ {
						cells = append(cells, cell{role, logged, a, d, pos, false})
					}
				}
			}
		}
	}
	vk.Parallel(len(cells)*reps, runtime.NumCPU(), func(i int) { runCell(c, cells[i%len(cells)], i) })
	// logged on with the session's own TestRequest pending (a state reachable in real time only)
	var probeCells []cell
	for _, role := range []rig.Role{rig.Acceptor, rig.Initiator} {
		for a := range admins {
			for d, dk := range damages {
				if !c.Thorough() && !(strings.Contains(dk, "state-not-permitted") || d == 0 || d == 2) {
					continue
				}
				probeCells = append(probeCells, cell{role, true, a, d, 0, true})
			}
		}
	}
	vk.Parallel(len(probeCells), 32, func(i int) { runCell(c, probeCells[i], 1000000+i) })
	connCells(c)
	c.Finish()
}

// connCells sends damaged admin messages over a connection (scripted net.Conn, the library's connection reader):
// CheckSum fields whose value is not three characters long must still end the message they belong to, so that it is
// rejected at once and the valid message behind it is served.
func connCells(c *vk.Ctx) {
	sums := []string{"1", "0017", "", "12345", "ab", "00"}
	var wg sync.WaitGroup
	for ri, role := range []rig.Role{rig.Acceptor, rig.Initiator} {
		for ai := range admins {
			wg.Add(1)
			go func(ri int, role rig.Role, ai int) {
				defer wg.Done()
				a := admins[ai]
				f, err := rig.StartFull(rig.FullCfg{Role: role, HeartBtInt: 30, BufSize: 10, Notify: true, Label: fmt.Sprintf("c16-conn-%d-%d", ri, ai)})
				if err != nil {
					c.Inconclusive("rig: " + err.Error())
					return
				}
				defer f.Shutdown()
				var l *rig.Link
				if role == rig.Acceptor {
					if l, err = f.Connect("c16"); err != nil {
						c.Inconclusive("connect: " + err.Error())
						return
					}
				} else {
					l = f.Links[0]
				}
				if !l.Logon(role, 30, 5*time.Second) {
					c.Inconclusive("full-stack logon did not complete")
					return
				}
				for _, sum := range sums {
					base := a.build(l.Peer)
					seq := strconv.Itoa(l.Peer.Seq)
					// replace the CheckSum value
					cut := bytes.LastIndex(base[:len(base)-1], []byte{1})
					msg := append(append([]byte(nil), base[:cut+1]...), []byte("10="+sum+"\x01")...)
					desc := fmt.Sprintf("%s over a connection, logged on: %s with CheckSum field 10=%q, then a valid TestRequest", role, a.name, sum)
					replay := map[string]interface{}{"cell": desc, "seed": c.Seed, "message": fixref.Pretty(msg)}
					fr0, _ := l.Frames()
					before := len(fr0)
					l.Conn.Feed(msg)
					okR := l.WaitFrames(2*time.Second, func(fs []rig.Frame) bool { return len(fs) > before })
					fr1, _ := l.Frames()
					c.Eval(vk.Hash64([]byte(desc)), true)
					c.Count("connection_cells", 1)
					key := fmt.Sprintf("C16/over-connection/%%s/%s/checksum-value-of-%d-characters", a.name, len(sum))
					if !okR || len(fr1) != before+1 || fr1[before].Type != "3" {
						var t []string
						for _, x := range fr1[before:] {
							t = append(t, x.Type)
						}
						c.Violate(fmt.Sprintf(key, "not-rejected-at-once"), fmt.Sprintf("%s: within 2 s the damaged message was answered with %v, want exactly one Reject", desc, t), replay)
						return
					}
					if got := fixref.GetS(fr1[before].Fields, rig.TRefSeq); got != seq {
						c.Violate(fmt.Sprintf(key, "reject-wrong-refseqnum"), fmt.Sprintf("%s: Reject has 45=%q, the damaged message had 34=%s", desc, got, seq), replay)
					}
					l.Conn.Feed(l.Peer.TestRequest("after-" + sum))
					okT := l.WaitFrames(2*time.Second, func(fs []rig.Frame) bool { return len(fs) > before+1 })
					fr2, _ := l.Frames()
					if !okT || len(fr2) != before+2 || fr2[before+1].Type != "0" || fixref.GetS(fr2[before+1].Fields, rig.TTestReqID) != "after-"+sum {
						c.Violate(fmt.Sprintf(key, "following-valid-message-not-served"), fmt.Sprintf("%s: the TestRequest behind the damaged message was not answered with its Heartbeat (%d new messages)", desc, len(fr2)-before-1), replay)
						return
					}
				}
			}(ri, role, ai)
		}
	}
	wg.Wait()
}

func runCell(c *vk.Ctx, ce cell, i int) {
	a := admins[ce.a]
	dk := damages[ce.dmg]
	rr := c.Rand("c16", int64(i))
	if strings.Contains(dk, "state-not-permitted") {
		permitted := (ce.logged && a.typ != "A") || (!ce.logged && a.typ == "A")
		if permitted {
			return
		}
	}
	desc := fmt.Sprintf("%s logged=%v %s damage=%s after %d valid messages", ce.role, ce.logged, a.name, dk, ce.pos)
	hb, lim := 30, &session.IntLimits{Min: 5, Max: 60}
	if ce.probe {
		desc += " [own TestRequest pending: N=1, 2.3 s of silence first]"
		hb, lim = 1, &session.IntLimits{Min: 1, Max: 60}
	}
	replay := map[string]interface{}{"cell": desc, "index": i, "seed": c.Seed}
	// in every sixth cell the application registers two observers for the message type before Session.Run and takes
	// them out again, in registration order, before the invalid message arrives
	var obs [2]int64
	withObservers := i%6 == 5
	var beforeRun func(h *simplefixgo.DefaultHandler, s *session.Session)
	if withObservers {
		desc += " [two application observers for the type registered before Run, removed in order]"
		beforeRun = func(h *simplefixgo.DefaultHandler, s *session.Session) {
			obs[0] = h.HandleIncoming(a.typ, func([]byte) bool { return true })
			obs[1] = h.HandleIncoming(a.typ, func([]byte) bool { return true })
		}
	}
	// in every seventh cell an earlier Reject of the session could not be sent because the application's counter store
	// failed once (the error is reported to the application); the store works again when the judged message arrives
	afterSendError := i%7 == 3
	scfg := rig.StepCfg{Role: ce.role, HeartBtInt: hb, Limits: lim, SentinelBarrier: true, BeforeRun: beforeRun}
	var flaky *rig.FlakyStore
	if afterSendError {
		desc += " [after a send of the session failed on a transient counter-store fault]"
		flaky = rig.NewFlakyStore()
		scfg.Counter, scfg.Messages = flaky, flaky
	}
	r, err := rig.NewStepRig(scfg)
	if err != nil {
		c.Inconclusive("rig: " + err.Error())
		return
	}
	defer r.Close()
	p := rig.NewPeer()
	p.Seq = rr.Intn(500) // sequence numbers of various widths
	if i%5 == 2 && ce.role == rig.Acceptor && ce.logged {
		// the peer's SenderCompID holds the text "34=" (it stands in front of MsgSeqNum in every message the peer sends;
		// the accepting session mirrors it): the Reject must still name the message by its real MsgSeqNum field
		p.Sender = rig.PeerID + "34=9"
		desc += " [peer SenderCompID contains the text 34=]"
		c.Count("scenarios_whose_peer_compid_contains_34=", 1)
	}
	if ce.logged {
		res := r.Inbound(p.Logon(hb, "0"))
		if !res.Logged {
			c.Inconclusive("could not log on: " + desc)
			return
		}
	}
	if ce.probe {
		time.Sleep(2300 * time.Millisecond)
		own := 0
		for _, o := range r.AllOuts() {
			if o.Type == "1" {
				own++
			}
		}
		if own == 0 {
			c.Count("probe_cells_without_own_testrequest", 1)
			return
		}
		c.Count("cells_with_own_testrequest_pending", 1)
	}
	// in real-time cells the session's timers run: their Heartbeats (no TestReqID) and TestRequests are not answers
	answers := func(outs []rig.Out) []rig.Out {
		if !ce.probe {
			return outs
		}
		var keep []rig.Out
		for _, o := range outs {
			if o.Type == "1" {
				continue
			}
			if _, has := fixref.Get(o.Fields, rig.TTestReqID); o.Type == "0" && !has {
				continue
			}
			keep = append(keep, o)
		}
		return keep
	}
	for k := 0; k < ce.pos; k++ {
		var res rig.StepResult
		if ce.logged {
			switch rr.Intn(3) {
			case 0:
				res = r.Inbound(p.Heartbeat())
			case 1:
				res = r.Inbound(p.App("x"))
			default:
				res = r.Inbound(p.TestRequest("pre" + strconv.Itoa(k)))
			}
		} else {
			res = r.Inbound(p.App("x"))
		}
		if res.TimedOut {
			c.Inconclusive("watchdog: " + desc)
			return
		}
	}
	if afterSendError {
		atomic.StoreInt32(&flaky.FailNextOutgoingNumber, 1)
		res := r.Inbound(rig.BadChecksum(p.Heartbeat())) // its Reject cannot be numbered: nothing is sent
		if res.TimedOut {
			c.Inconclusive("watchdog: " + desc)
			return
		}
		if atomic.LoadInt32(&flaky.Faults) == 1 {
			c.Count("cells_after_a_failed_send", 1)
		}
	}
	if withObservers {
		_ = r.H.RemoveIncomingHandler(a.typ, obs[0])
		_ = r.H.RemoveIncomingHandler(a.typ, obs[1])
		c.Count("cells_with_observers_removed", 1)
	}
	base := a.build(p)
	seq := strconv.Itoa(p.Seq)
	msg, ok, seqUsable := damage(dk, a, base)
	if !ok {
		return
	}
	replay["message"] = fixref.Pretty(msg)
	before := r.S.IsLogged()
	if ce.probe {
		// the session is logged on (it logged on and nothing ended that); IsLogged() itself reports false while the
		// session's own TestRequest is unanswered, which is not what this property is about
		before = true
	}
	tStep := time.Now()
	res := r.Inbound(msg)
	if res.TimedOut {
		if jit := can.MaxBetween(tStep, time.Now()); jit > 100*time.Millisecond {
			c.Inconclusive(fmt.Sprintf("watchdog (scheduler oversleep %v): %s", jit, desc))
			return
		}
		// a step that takes microseconds has not finished after 5 s on a machine whose scheduler was on time: the
		// handler loop is stuck in serving the invalid message — no Reject, and nothing that follows is processed
		st := "waiting"
		if ce.logged {
			st = "logged"
		}
		c.Violate(fmt.Sprintf("C16/invalid-message-never-finishes-being-served/%s/%s", a.name, st), fmt.Sprintf("%s: 5 s after the message was handed to the session the handler loop had not finished serving it (emitted so far: %s)", desc, types(res.Outs)), replay)
		return
	}
	res.Outs = answers(res.Outs)
	key := func(what string) string {
		st := "waiting"
		if ce.logged {
			st = "logged"
		}
		if ce.probe {
			st = "logged+own-testrequest-pending"
		}
		return fmt.Sprintf("C16/%s/%s/%s/%s", what, a.name, dk, st)
	}
	c.Eval(vk.Hash64([]byte(desc), []byte(seq)), true)
	c.SetAdd("matrix_cells", fmt.Sprintf("%s/%v/%s/%s", ce.role, ce.logged, a.name, dk))
	if res.Panic != "" {
		c.Violate(key("panic"), desc+": panic in the inbound path: "+vk.Trunc(res.Panic, 600), replay)
		return
	}
	if res.RunEnded || res.CtxErr != nil {
		c.Violate(key("session-stopped"), fmt.Sprintf("%s: the invalid message stopped the session (handler ended=%v err=%v, context err=%v)", desc, res.RunEnded, res.RunErr, res.CtxErr), replay)
		return
	}
	if len(res.Outs) != 1 || res.Outs[0].Type != "3" {
		c.Violate(key("not-exactly-one-reject"), fmt.Sprintf("%s: answered with %s, want exactly one Reject", desc, types(res.Outs)), replay)
	} else {
		f := res.Outs[0].Fields
		c.Count("rejects_checked", 1)
		if ce.logged && (fixref.GetS(f, rig.TSender) != rig.LibID || fixref.GetS(f, rig.TTarget) != p.Sender) {
			c.Violate(key("reject-sent-under-another-identity"), fmt.Sprintf("%s: the Reject carries 49=%s 56=%s; the session logged on as 49=%s 56=%s", desc, fixref.GetS(f, rig.TSender), fixref.GetS(f, rig.TTarget), rig.LibID, p.Sender), replay)
		}
		if seqUsable {
			if fixref.GetS(f, rig.TRefSeq) != seq {
				c.Violate(key("reject-wrong-refseqnum"), fmt.Sprintf("%s: Reject has 45=%q, offending message had 34=%s", desc, fixref.GetS(f, rig.TRefSeq), seq), replay)
			}
		} else if fixref.GetS(f, rig.TRefTag) != rig.TSeq {
			c.Violate(key("reject-does-not-name-seqnum-tag"), fmt.Sprintf("%s: Reject has 371=%q, want 34 because the sequence number is missing or not numeric", desc, fixref.GetS(f, rig.TRefTag)), replay)
		}
	}
	if res.Logged != before {
		c.Violate(key("logged-state-changed"), fmt.Sprintf("%s: IsLogged %v -> %v", desc, before, res.Logged), replay)
		return
	}
	// valid messages that follow are processed normally
	if before {
		fu := r.Inbound(p.TestRequest("after"))
		fu.Outs = answers(fu.Outs)
		if len(fu.Outs) != 1 || fu.Outs[0].Type != "0" || fixref.GetS(fu.Outs[0].Fields, rig.TTestReqID) != "after" {
			c.Violate(key("following-valid-message-not-served"), desc+": a TestRequest after the invalid message was answered with "+types(fu.Outs), replay)
		} else if ff := fu.Outs[0].Fields; fixref.GetS(ff, rig.TSender) != rig.LibID || fixref.GetS(ff, rig.TTarget) != p.Sender {
			c.Violate(key("session-identity-changed-by-the-invalid-message"), fmt.Sprintf("%s: after the invalid message the session sends as 49=%s 56=%s; it logged on as 49=%s 56=%s", desc, fixref.GetS(ff, rig.TSender), fixref.GetS(ff, rig.TTarget), rig.LibID, p.Sender), replay)
		}
	} else if ce.role == rig.Acceptor {
		fu := r.Inbound(p.Logon(30, "0"))
		// the Logon reply may be followed by a ResendRequest (the peer's sequence numbers start above 1: gap detection, C10)
		okOuts := len(fu.Outs) >= 1 && fu.Outs[0].Type == "A"
		for k, o := range fu.Outs {
			if k > 0 && o.Type != "2" {
				okOuts = false
			}
		}
		if !fu.Logged || !okOuts {
			c.Violate(key("following-valid-message-not-served"), fmt.Sprintf("%s: a valid Logon after the invalid message: logged=%v outputs=%s", desc, fu.Logged, types(fu.Outs)), replay)
		}
	} else {
		fu := r.Inbound(p.Logon(30, "0"))
		if !fu.Logged {
			c.Violate(key("following-valid-message-not-served"), desc+": the peer's Logon after the invalid message did not log the initiator on", replay)
		}
	}
	c.Count("followups_checked", 1)
	if c.WantSample() && i%97 == 3 && len(res.Outs) > 0 {
		c.Sample(map[string]interface{}{"cell": desc, "message": vk.Trunc(fixref.Pretty(msg), 200), "reject": vk.Trunc(fixref.Pretty(res.Outs[0].Raw), 200)})
	}
}
