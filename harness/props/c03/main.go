// C03 — damaged messages are rejected: the integrity check is sound.
package main

import (
	"bytes"
	"fmt"
	"runtime"
	"strconv"
	"sync/atomic"

	"github.com/b2broker/simplefix-go/fix"
	"github.com/b2broker/simplefix-go/fix/encoding"

	"verifharness/fixref"
	"verifharness/gen"
	"verifharness/vk"
)

type base struct {
	name  string
	ft    fixref.FramingTags
	wire  []byte
	empty func() *fix.Message
}

func accepts(strict bool, into *fix.Message, wire []byte) (ok bool, pan string) {
	defer func() {
		if p := recover(); p != nil {
			pan = fmt.Sprint(p)
			ok = false
		}
	}()
	var err error
	if strict {
		err = encoding.Unmarshal(into, wire)
	} else {
		err = sharedLoose.Unmarshal(into, wire)
	}
	return err == nil, ""
}

// Unmarshallers made once with the public constructor and used by all workers at the same time, as an application
// that hands one unmarshaller to several sessions does.
var sharedLoose = encoding.NewDefaultUnmarshaller(false)
var sharedStrict = encoding.NewDefaultUnmarshaller(true)

func acceptsShared(into *fix.Message, wire []byte) (ok bool, pan string) {
	defer func() {
		if p := recover(); p != nil {
			pan = fmt.Sprint(p)
			ok = false
		}
	}()
	return sharedStrict.Unmarshal(into, wire) == nil, ""
}

// region names the part of the base message an offset falls into.
func regionOf(b *base, off int) string {
	// field boundaries
	first := bytes.IndexByte(b.wire, 1)
	second := first + 1 + bytes.IndexByte(b.wire[first+1:], 1)
	third := second + 1 + bytes.IndexByte(b.wire[second+1:], 1)
	lastStart := bytes.LastIndexByte(b.wire[:len(b.wire)-1], 1) + 1
	switch {
	case off < len(b.ft.Begin)+1:
		return "begin-tag"
	case off < first:
		return "begin-value"
	case off == first || off == second || off == third || off == lastStart-1 || off == len(b.wire)-1:
		return "framing-delimiter"
	case off < second:
		return "length-field"
	case off < third:
		return "type-field"
	case off >= lastStart:
		return "checksum-field"
	}
	if b.wire[off] == 1 {
		return "body-delimiter"
	}
	return "body"
}

func main() {
	c := vk.Init("C03")
	c.Rule("for each base message (valid, serialized by the library from generated templates/populations, every tests/fix44 type, or by the reference encoder, including messages whose content is crafted so that a CheckSum look-alike inside a value carries the byte sum of the message after one substitution) the COMPLETE single-edit neighbourhood is enumerated: all 255*len substitutions, all 256*(len-1) interior insertions, all len deletions, all len-1 proper prefixes; each variant is parsed strict and non-strict into an empty message of the right type, and (when refused there) also into a message object that holds the intact message from an earlier parse; the non-strict parses and a second strict parse of every variant go through two unmarshallers made once with NewDefaultUnmarshaller and shared by all 16 workers. Plus, per base, CheckSum values congruent to the byte sum modulo 256 (sum+256k), signed, padded, spaced or with a decimal point. Deciding clause: accepted => fixref.CheckFrame passes. Framing-neutral variants (a zero byte inserted into the BeginString value: changes neither the counted length nor the byte sum) are counted, not judged. distinct = (base, edit) pairs, all distinct; non-trivial = edit touches a framing field or a delimiter")
	c.Assume("BeginString values of base messages contain no zero byte; base messages have one template position per tag")
	nGen := c.Pick(24, 900)
	nRef := c.Pick(8, 300)
	nF44 := c.Pick(1, 30) // per type
	maxLen := c.Pick(260, 420)
	o := gen.DefaultOpts()
	o.MaxStrLen = 10
	o.MaxWidth = 3
	o.MaxEntries = 2

	var bases []*base
	// library-serialized generated messages
	for i := 0; len(bases) < nGen && i < nGen*40; i++ {
		r := c.Rand("c03-gen", int64(i))
		t := gen.RandTemplate(r, o)
		mp := gen.RandPop(r, t, o)
		m, _ := mp.Build()
		wire, err, pan := gen.Serialize(m)
		if err != nil || pan != "" || len(wire) < 30 || len(wire) > maxLen {
			continue
		}
		if fixref.CheckFrame(t.FT, wire) != nil {
			continue // C01's matter
		}
		tt := t
		bases = append(bases, &base{name: fmt.Sprintf("gen#%d", i), ft: t.FT, wire: wire, empty: func() *fix.Message { return tt.Empty() }})
	}
	// fix44 types
	for ti, ty := range gen.F44Types {
		got := 0
		for i := 0; got < nF44 && i < nF44*60; i++ {
			r := c.Rand("c03-fix44", int64(ti*100000+i))
			m := ty.New()
			oo := o
			oo.PopulateProb = 0.15
			gen.PopulateLib(r, m, oo, true)
			wire, err, pan := gen.Serialize(m)
			if err != nil || pan != "" || len(wire) > maxLen || fixref.CheckFrame(fixref.Std, wire) != nil {
				continue
			}
			tyy := ty
			bases = append(bases, &base{name: fmt.Sprintf("fix44/%s#%d", ty.Name, i), ft: fixref.Std, wire: wire, empty: func() *fix.Message { return tyy.New() }})
			got++
		}
	}
	// reference-encoded messages parsed into a generated template of the same tags
	for i := 0; i < nRef; i++ {
		r := c.Rand("c03-ref", int64(i))
		t := gen.RandTemplate(r, o)
		mp := gen.RandPop(r, t, o)
		var fs []fixref.Field
		for _, e := range mp.Expected(true) {
			if e.Val == nil {
				fs = append(fs, fixref.F(e.Tag, fmt.Sprint(e.Count)))
			} else {
				fs = append(fs, fixref.F(e.Tag, e.Val.Text()))
			}
		}
		wire := fixref.Encode(t.FT, t.Begin, t.MsgType, fs)
		if len(wire) > maxLen {
			continue
		}
		tt := t
		bases = append(bases, &base{name: fmt.Sprintf("ref#%d", i), ft: t.FT, wire: wire, empty: func() *fix.Message { return tt.Empty() }})
	}

	// crafted content: a value that contains a CheckSum look-alike "Y10=ddd" whose ddd is solved so that it equals
	// the byte sum of the message after the single substitution 'Y' -> SOH (which turns the look-alike into a field)
	for k := 0; k < c.Pick(6, 60); k++ {
		filler := fmt.Sprintf("id%d", k)
		for ddd := 0; ddd < 256; ddd++ {
			val := fmt.Sprintf("%sY10=%03d", filler, ddd)
			wire := fixref.Encode(fixref.Std, "FIX.4.4", "1", []fixref.Field{fixref.F("49", "A"), fixref.F("56", "B"), fixref.F("34", "7"), fixref.F("52", "20240101-00:00:00.000"), fixref.F("112", val)})
			fs, _ := fixref.Tokenize(wire)
			real, _ := strconv.Atoi(string(fs[len(fs)-1].Val))
			if (real+1-int('Y')+512)%256 == ddd {
				tyy := gen.F44Types[1] // TestRequest
				bases = append(bases, &base{name: fmt.Sprintf("crafted-checksum-lookalike#%d", k), ft: fixref.Std, wire: wire, empty: func() *fix.Message { return tyy.New() }})
				break
			}
		}
	}
	var neutralAccepted, neutralRejected, oracleValid int64
	type job struct {
		b    *base
		kind int // 0 subst 1 insert 2 delete 3 prefix
		off  int
	}
	var jobs []job
	for _, b := range bases {
		// the unmodified base must be accepted (otherwise nothing is learned from its variants)
		for _, strict := range []bool{true, false} {
			if ok, pan := accepts(strict, b.empty(), b.wire); !ok {
				c.Inconclusive(fmt.Sprintf("base %s is not accepted by the parser itself (strict=%v, panic=%q) — C02's matter; its neighbourhood is skipped", b.name, strict, pan))
			}
		}
		for off := 0; off < len(b.wire); off++ {
			jobs = append(jobs, job{b, 0, off}, job{b, 2, off})
			if off >= 1 {
				jobs = append(jobs, job{b, 1, off}, job{b, 3, off})
			}
		}
		c.SetAdd("base_messages", b.name)
		c.Max("max_base_len", int64(len(b.wire)))
		if c.WantSample() {
			c.Sample(map[string]interface{}{"base": b.name, "bytes": len(b.wire), "wire": vk.Trunc(fixref.Pretty(b.wire), 300), "variants": 255*len(b.wire) + 256*(len(b.wire)-1) + len(b.wire) + len(b.wire) - 1})
		}
	}
	// beyond single edits: CheckSum values that are numerically congruent or equal to the right one without being it
	for _, b := range bases {
		cut := bytes.LastIndexByte(b.wire[:len(b.wire)-1], 1)
		sum, err := strconv.Atoi(string(b.wire[cut+1+len(b.ft.Sum)+1 : len(b.wire)-1]))
		if err != nil {
			continue
		}
		var vals []string
		for k := 1; sum+256*k <= 999; k++ {
			vals = append(vals, strconv.Itoa(sum+256*k))
		}
		vals = append(vals, "+"+strconv.Itoa(sum), strconv.Itoa(sum)+".0", "0"+fmt.Sprintf("%03d", sum), fmt.Sprintf("%03d ", sum), " "+fmt.Sprintf("%03d", sum)[1:])
		if sum < 100 {
			vals = append(vals, strconv.Itoa(sum))
		}
		for _, v := range vals {
			variant := append(append([]byte(nil), b.wire[:cut+1]...), []byte(b.ft.Sum+"="+v+"\x01")...)
			if fixref.CheckFrame(b.ft, variant) == nil {
				continue
			}
			for _, strict := range []bool{true, false} {
				ok, pan := accepts(strict, b.empty(), variant)
				c.Count("congruent_checksum_variants", 1)
				if pan == "" && ok {
					mode := map[bool]string{true: "strict", false: "non-strict"}[strict]
					c.Violate("C03/accepted-damaged/checksum-value-congruent-but-not-equal/"+mode, fmt.Sprintf("%s parser accepted a message whose CheckSum field reads %q; the byte sum is %03d: %s", mode, v, sum, vk.Trunc(fixref.Pretty(variant), 400)), map[string]interface{}{"base": b.name, "variant_hex": fmt.Sprintf("%x", variant), "seed": c.Seed})
				}
			}
		}
	}
	kinds := []string{"substitution", "insertion", "deletion", "prefix"}
	vk.Parallel(len(jobs), runtime.NumCPU(), func(ji int) {
		j := jobs[ji]
		b := j.b
		bsValStart := len(b.ft.Begin) + 1
		bsValEnd := bytes.IndexByte(b.wire, 1)
		// a second target per mode: a message object that already holds the intact message (an application that
		// parses into one object again and again)
		reused := map[bool]*fix.Message{}
		for _, strict := range []bool{true, false} {
			m := b.empty()
			if ok, _ := accepts(strict, m, b.wire); ok {
				reused[strict] = m
			}
		}
		try := func(variant []byte, edit string, neutral bool, nontrivial bool) {
			valid := fixref.CheckFrame(b.ft, variant) == nil
			if valid && !neutral {
				atomic.AddInt64(&oracleValid, 1)
				c.Inconclusive(fmt.Sprintf("reference validator accepts a variant it should not (%s of %s): %s", edit, b.name, vk.Trunc(fixref.Pretty(variant), 300)))
			}
			for _, strict := range []bool{true, false} {
				ok, pan := accepts(strict, b.empty(), variant)
				mode := "strict"
				if !strict {
					mode = "non-strict"
				}
				c.Eval(vk.Hash64([]byte(b.name), []byte(edit), []byte(mode)), nontrivial)
				if pan != "" {
					// crash on damaged input: C11's matter, counted here
					c.Count("panics_on_variants(C11)", 1)
					continue
				}
				if neutral {
					if ok {
						atomic.AddInt64(&neutralAccepted, 1)
					} else {
						atomic.AddInt64(&neutralRejected, 1)
					}
					continue
				}
				if !ok && !valid && reused[strict] != nil {
					// the same variant parsed into the object that holds the intact message
					if ok2, pan2 := accepts(strict, reused[strict], variant); pan2 == "" {
						c.Count("variants_also_parsed_into_a_filled_object", 1)
						if ok2 {
							c.Violate(fmt.Sprintf("C03/accepted-damaged/into-filled-object/%s/%s/%s", kinds[j.kind], regionOf(b, j.off), mode),
								fmt.Sprintf("%s parser accepted a %s when parsing into a message object that held the intact message (a fresh object refuses it): %s (reference: %v)", mode, edit, vk.Trunc(fixref.Pretty(variant), 500), fixref.CheckFrame(b.ft, variant)),
								map[string]interface{}{"base": b.name, "base_wire": vk.Trunc(fixref.Pretty(b.wire), 800), "edit": edit, "variant_hex": fmt.Sprintf("%x", variant), "seed": c.Seed})
						}
						// a refused parse may leave the object half-updated: fill it with the intact message again
						if ok3, _ := accepts(strict, reused[strict], b.wire); !ok3 {
							delete(reused, strict)
						}
					}
				}
				if strict && !valid && !neutral {
					// the same variant through the shared strict unmarshaller (other workers use it at this very moment)
					if ok4, pan4 := acceptsShared(b.empty(), variant); pan4 == "" && ok4 {
						c.Violate(fmt.Sprintf("C03/accepted-damaged/shared-unmarshaller/%s/%s", kinds[j.kind], regionOf(b, j.off)),
							fmt.Sprintf("an unmarshaller made with NewDefaultUnmarshaller(true) and used by several goroutines accepted a %s: %s (reference: %v)", edit, vk.Trunc(fixref.Pretty(variant), 500), fixref.CheckFrame(b.ft, variant)),
							map[string]interface{}{"base": b.name, "edit": edit, "variant_hex": fmt.Sprintf("%x", variant), "seed": c.Seed})
					}
					c.Count("variants_also_parsed_through_a_shared_unmarshaller", 1)
				}
				if ok && !valid {
					reg := regionOf(b, j.off)
					c.Violate(fmt.Sprintf("C03/accepted-damaged/%s/%s/%s", kinds[j.kind], reg, mode),
						fmt.Sprintf("%s parser accepted a %s whose BodyLength/CheckSum do not agree with its content: %s (reference: %v)", mode, edit, vk.Trunc(fixref.Pretty(variant), 500), fixref.CheckFrame(b.ft, variant)),
						map[string]interface{}{"base": b.name, "base_wire": vk.Trunc(fixref.Pretty(b.wire), 800), "edit": edit, "variant_hex": fmt.Sprintf("%x", variant), "seed": c.Seed})
				}
			}
		}
		reg := regionOf(b, j.off)
		nontriv := reg != "body"
		c.SetAdd("edit_kind_x_region", kinds[j.kind]+"/"+reg)
		switch j.kind {
		case 0:
			orig := b.wire[j.off]
			v := append([]byte(nil), b.wire...)
			for x := 0; x < 256; x++ {
				if byte(x) == orig {
					continue
				}
				v[j.off] = byte(x)
				try(v, fmt.Sprintf("substitution at %d: %#02x -> %#02x", j.off, orig, x), false, nontriv)
			}
		case 1:
			v := make([]byte, len(b.wire)+1)
			copy(v, b.wire[:j.off])
			copy(v[j.off+1:], b.wire[j.off:])
			for x := 0; x < 256; x++ {
				v[j.off] = byte(x)
				neutral := x == 0 && j.off >= bsValStart && j.off <= bsValEnd
				try(v, fmt.Sprintf("insertion of %#02x before offset %d", x, j.off), neutral, nontriv)
			}
		case 2:
			v := append(append([]byte(nil), b.wire[:j.off]...), b.wire[j.off+1:]...)
			try(v, fmt.Sprintf("deletion of offset %d (%#02x)", j.off, b.wire[j.off]), false, nontriv)
		case 3:
			try(append([]byte(nil), b.wire[:j.off]...), fmt.Sprintf("prefix of length %d", j.off), false, true)
		}
	})
	c.Set("framing_neutral_accepted", neutralAccepted)
	c.Set("framing_neutral_rejected", neutralRejected)
	c.Set("reference_validator_surprises", oracleValid)
	c.Set("exhaustive_per_base_message", true)
	c.Finish()
}
