// C19 — messages are stored before sending; handlers run in order; a refusal stops it.
package main

import (
	"bytes"
	"errors"
	"fmt"
	"runtime"
	"strconv"
	"strings"
	"sync"

	simplefixgo "github.com/b2broker/simplefix-go"
	"github.com/b2broker/simplefix-go/fix"
	"github.com/b2broker/simplefix-go/session"
	"github.com/b2broker/simplefix-go/storages/memory"
	fixgen "github.com/b2broker/simplefix-go/tests/fix44"
	"github.com/b2broker/simplefix-go/utils"

	"verifharness/fixref"
	"verifharness/rig"
	"verifharness/vk"
)

type entry struct {
	kind string // out-all out-type save in-all in-type event
	id   int
	seq  int
	ok   bool
	data []byte
	typ  string
}

type clog struct {
	mu sync.Mutex
	es []entry
}

func (l *clog) add(e entry) {
	l.mu.Lock()
	l.es = append(l.es, e)
	l.mu.Unlock()
}
func (l *clog) mark() int { l.mu.Lock(); defer l.mu.Unlock(); return len(l.es) }
func (l *clog) since(m int) []entry {
	l.mu.Lock()
	defer l.mu.Unlock()
	return append([]entry(nil), l.es[m:]...)
}

// store wraps the bundled in-memory store, logging Save and failing on the k-th call.
type store struct {
	*memory.Storage
	log    *clog
	failAt int
	n      int
	mu     sync.Mutex
}

func (s *store) Save(id fix.StorageID, msg simplefixgo.SendingMessage, seq int) error {
	s.mu.Lock()
	s.n++
	fail := s.failAt != 0 && s.n == s.failAt
	s.mu.Unlock()
	if fail {
		s.log.add(entry{kind: "save", seq: seq, ok: false, typ: msg.MsgType()})
		return errors.New("scripted store failure")
	}
	err := s.Storage.Save(id, msg, seq)
	b, _ := msg.ToBytes()
	s.log.add(entry{kind: "save", seq: seq, ok: err == nil, typ: msg.MsgType(), data: append([]byte(nil), b...)})
	return err
}

type hspec struct {
	id       int
	scope    string // "ALL" or a message type
	refuseAt int    // refuse on the k-th invocation (0 = never)
	phase    int    // 0 = registered on the handler before the session exists, 1 = before Session.Run, 2 = after Session.Run, 3 = during traffic
	calls    int
	late     bool // phase 3: registered by a step of the scenario; inactive until then
	active   bool
	order    int // activation order among late handlers
}

func (h *hspec) decide() bool {
	h.calls++
	return !(h.refuseAt != 0 && h.calls == h.refuseAt)
}

type scen struct {
	role     rig.Role
	out      []*hspec
	in       []*hspec
	ev       []*hspec // EventLogon handlers
	failSave int
	steps    []string
}

func (s *scen) String() string {
	f := func(hs []*hspec) string {
		var p []string
		for _, h := range hs {
			p = append(p, fmt.Sprintf("%d:%s/r%d/p%d", h.id, h.scope, h.refuseAt, h.phase))
		}
		return strings.Join(p, ",")
	}
	return fmt.Sprintf("%s out[%s] in[%s] ev[%s] failSave=%d steps=%s", s.role, f(s.out), f(s.in), f(s.ev), s.failSave, strings.Join(s.steps, ","))
}

func main() {
	c := vk.Init("C19")
	c.Rule("scenario i: PRNG draws 0..5 outgoing handlers (for ALL types and for the types Y/0/3, registered before the session exists, before Session.Run or after it, each refusing on its k-th invocation or never), 0..5 incoming handlers (ALL, 1, V), up to 2 handlers registered while traffic is flowing (after their message types have been seen), 0..4 EventLogon handlers, an instrumented message store failing on the k-th Save or never, and 8..24 steps (application Send through the session, application Send through the handler with its own header and a sequence number used before or 0, lowering the outgoing counter and sending again, inbound TestRequest -> Heartbeat reply, inbound damaged message -> Reject, inbound application message; in a third of the scenarios a Logout and a new Logon of the peer in the second half); everything appends to one call log. Oracle per step: the handler chain equals the registration-order prefix up to the first refusal (ALL handlers before type handlers, the session's own Save at its registration position), a message is on Outgoing() iff the chain completed, it was saved successfully under its own 34 before, Send returned an error iff it was not transmitted, the bytes each outgoing handler could serialize equal the wire bytes; inbound ALL/type handler order likewise. Modifying-handler part: an outgoing handler stamps Text and SendingTime on the message and a handler behind it records what it is shown; the transmitted bytes equal what that last handler saw and carry the stamp. Batch part: SendBatch of 2..7 prepared messages with a failing save or a refusing ALL / type handler at a drawn position: that message is not transmitted, the call returns an error, everything transmitted was saved first. Resend part: 3..8 application sends of which some are refused by an ALL / type handler registered behind the session's store handler (the store holds them, they never left), then three ResendRequests over ranges covering their numbers: a refused message is on the wire neither at the send nor on behalf of a ResendRequest. Own-logout part: Session.Logout / Session.Stop while the store fails on the Logout's save or an ALL / type-5 handler refuses it: no Logout leaves. Odd-seqnum part: inbound Heartbeats whose MsgSeqNum is missing, empty or not a number are offered to the application's all-types handler and then to its type handler like any inbound message. Removal part: the application registers 1..3 outgoing and 1..2 incoming handlers, hands one identifier back to RemoveOutgoingHandler / RemoveIncomingHandler, then 5 steps (sends and inbound TestRequests, optionally one failing save): whatever leaves was saved first, a failed save stops the message, the handlers that were not removed run in order (whether the removed one still runs is not judged). Queued part: buffered handler (4/8/16) whose Outgoing() is not read while 2..15 messages are sent (one message object re-used, optionally changed in place between sends, or fresh objects); after release every transmitted message equals what the outgoing ALL handler was shown and what the store holds under its number. distinct = scenario text; non-trivial = at least one refusal or failed save happened")
	c.Assume("an incoming all-types handler that returns false ends the all-types chain only: the message is still offered to the handlers of its own type (the statement says every inbound message is), so the session's own replies stay due")
	n := c.Pick(4000, 60000)
	vk.Parallel(n, runtime.NumCPU(), func(i int) {
		r := c.Rand("c19", int64(i))
		sc := &scen{role: rig.Role(r.Intn(2))}
		id := 0
		outScopes := []string{"ALL", "ALL", "Y", "0", "3"}
		for k := 0; k < r.Intn(6); k++ {
			id++
			h := &hspec{id: id, scope: outScopes[r.Intn(len(outScopes))], phase: r.Intn(3)}
			if r.Intn(3) == 0 {
				h.refuseAt = 1 + r.Intn(4)
			}
			sc.out = append(sc.out, h)
		}
		inScopes := []string{"ALL", "1", "V"}
		for k := 0; k < r.Intn(6); k++ {
			id++
			h := &hspec{id: id, scope: inScopes[r.Intn(len(inScopes))], phase: 2}
			if h.scope == "ALL" {
				h.phase = r.Intn(3)
			}
			if r.Intn(4) == 0 {
				h.refuseAt = 1 + r.Intn(4)
			}
			sc.in = append(sc.in, h)
		}
		for k := 0; k < r.Intn(5); k++ {
			id++
			h := &hspec{id: id, scope: "EventLogon", phase: 1}
			if r.Intn(4) == 0 {
				h.refuseAt = 1
			}
			sc.ev = append(sc.ev, h)
		}
		if r.Intn(3) == 0 {
			sc.failSave = 1 + r.Intn(10)
		}
		nsteps := 8 + r.Intn(17)
		for k := 0; k < nsteps; k++ {
			sc.steps = append(sc.steps, []string{"send", "send", "testreq", "damaged", "app", "handler-send-reused-seqnum", "counter-lowered-then-send"}[r.Intn(7)])
		}
		if r.Intn(3) == 0 {
			// a Logout and a new Logon of the peer somewhere in the second half of the scenario
			pos := len(sc.steps)/2 + r.Intn(len(sc.steps)/2)
			sc.steps = append(sc.steps[:pos], append([]string{"relogon"}, sc.steps[pos:]...)...)
		}
		// handlers registered while traffic is flowing (after message types have already been seen)
		for k := 0; k < r.Intn(3); k++ {
			id++
			h := &hspec{id: id, scope: []string{"ALL", "ALL", "Y", "0"}[r.Intn(4)], phase: 3, late: true}
			if r.Intn(2) == 0 {
				h.refuseAt = 1 + r.Intn(3)
			}
			pos := 2 + r.Intn(len(sc.steps)-2)
			if r.Intn(2) == 0 {
				sc.out = append(sc.out, h)
				sc.steps = append(sc.steps[:pos], append([]string{fmt.Sprintf("register-out:%d", h.id)}, sc.steps[pos:]...)...)
			} else {
				if h.scope == "Y" || h.scope == "0" {
					h.scope = "1"
				}
				sc.in = append(sc.in, h)
				sc.steps = append(sc.steps[:pos], append([]string{fmt.Sprintf("register-in:%d", h.id)}, sc.steps[pos:]...)...)
			}
		}
		runScenario(c, sc, i)
	})
	nm := c.Pick(200, 4000)
	vk.Parallel(nm, runtime.NumCPU(), func(i int) { modifyingScenario(c, i) })
	nb := c.Pick(400, 6000)
	vk.Parallel(nb, runtime.NumCPU(), func(i int) { batchScenario(c, i) })
	vk.Parallel(c.Pick(120, 3000), runtime.NumCPU(), func(i int) { resendScenario(c, i) })
	vk.Parallel(c.Pick(24, 480), runtime.NumCPU(), func(i int) { logoutScenario(c, i) })
	vk.Parallel(c.Pick(16, 320), runtime.NumCPU(), func(i int) { inboundOddSeq(c, i) })
	nr := c.Pick(400, 8000)
	vk.Parallel(nr, runtime.NumCPU(), func(i int) { removalScenario(c, i) })
	nq := c.Pick(300, 6000)
	vk.Parallel(nq, runtime.NumCPU(), func(i int) { queuedScenario(c, i) })
	c.Finish()
}

func runScenario(c *vk.Ctx, sc *scen, idx int) {
	desc := sc.String()
	replay := map[string]interface{}{"scenario": desc, "index": idx, "seed": c.Seed}
	lg := &clog{}
	st := &store{Storage: memory.NewStorage(), log: lg, failAt: sc.failSave}
	regOut := func(h *simplefixgo.DefaultHandler, phase int) {
		for _, hs := range sc.out {
			if hs.phase != phase {
				continue
			}
			hs := hs
			scope := hs.scope
			if scope == "ALL" {
				scope = simplefixgo.AllMsgTypes
			}
			h.HandleOutgoing(scope, func(msg simplefixgo.SendingMessage) bool {
				b, _ := msg.ToBytes()
				kind := "out-type"
				if hs.scope == "ALL" {
					kind = "out-all"
				}
				ok := hs.decide()
				lg.add(entry{kind: kind, id: hs.id, ok: ok, data: append([]byte(nil), b...), typ: msg.MsgType()})
				return ok
			})
		}
	}
	regIn := func(h *simplefixgo.DefaultHandler, phase int) {
		for _, hs := range sc.in {
			if hs.phase != phase {
				continue
			}
			hs := hs
			scope := hs.scope
			if scope == "ALL" {
				scope = simplefixgo.AllMsgTypes
			}
			h.HandleIncoming(scope, func(data []byte) bool {
				if rig.IsSentinel(data) {
					return true
				}
				kind := "in-type"
				if hs.scope == "ALL" {
					kind = "in-all"
				}
				ok := hs.decide()
				lg.add(entry{kind: kind, id: hs.id, ok: ok, data: append([]byte(nil), data...)})
				return ok
			})
		}
	}
	rg, err := rig.NewStepRig(rig.StepCfg{Role: sc.role, HeartBtInt: 30, Limits: &session.IntLimits{Min: 5, Max: 60}, Counter: st, Messages: st, SentinelBarrier: true,
		OnHandler: func(h *simplefixgo.DefaultHandler) { regOut(h, 0); regIn(h, 0) },
		BeforeRun: func(h *simplefixgo.DefaultHandler, s *session.Session) {
			regOut(h, 1)
			regIn(h, 1)
			for _, hs := range sc.ev {
				hs := hs
				s.OnChangeState(utils.EventLogon, func() bool {
					ok := hs.decide()
					lg.add(entry{kind: "event", id: hs.id, ok: ok})
					return ok
				})
			}
		},
		AfterRun: func(h *simplefixgo.DefaultHandler, s *session.Session) { regOut(h, 2); regIn(h, 2) },
	})
	if err != nil {
		c.Inconclusive("rig: " + err.Error())
		return
	}
	defer rg.Close()
	p := rig.NewPeer()
	refusals := 0
	lateOrder := 0
	lateSorted := func(hs []*hspec) []*hspec {
		out := append([]*hspec(nil), hs...)
		for i := 1; i < len(out); i++ {
			for j := i; j > 0 && out[j].order < out[j-1].order; j-- {
				out[j], out[j-1] = out[j-1], out[j]
			}
		}
		return out
	}

	// expected outgoing chain for a message type, in registration order
	type link struct {
		h    *hspec
		save bool
	}
	maxPhase := 3
	chainFor := func(typ string) []link {
		var ch []link
		for ph := 0; ph < maxPhase; ph++ {
			if ph == 1 {
				ch = append(ch, link{save: true}) // the session registers its Save handler at construction: after phase 0, before phase 1
			}
			for _, hs := range sc.out {
				if hs.phase == ph && hs.scope == "ALL" {
					ch = append(ch, link{h: hs})
				}
			}
		}
		for _, hs := range lateSorted(sc.out) {
			if hs.late && hs.active && hs.scope == "ALL" {
				ch = append(ch, link{h: hs})
			}
		}
		for ph := 0; ph < maxPhase; ph++ {
			for _, hs := range sc.out {
				if hs.phase == ph && hs.scope == typ {
					ch = append(ch, link{h: hs})
				}
			}
		}
		for _, hs := range lateSorted(sc.out) {
			if hs.late && hs.active && hs.scope == typ {
				ch = append(ch, link{h: hs})
			}
		}
		return ch
	}

	judgeOut := func(stepName string, es []entry, outs []rig.Out, sendErr error, isLocal bool, replyDue int) {
		var oes []entry
		for _, e := range es {
			if strings.HasPrefix(e.kind, "out-") || e.kind == "save" {
				oes = append(oes, e)
			}
		}
		if len(oes) == 0 {
			if replyDue == 1 {
				c.Violate("C19/no-send-attempt-where-one-was-due", fmt.Sprintf("%s: step %s produced no outgoing handler chain", desc, stepName), replay)
			}
			if len(outs) != 0 {
				c.Violate("C19/transmitted-without-save", fmt.Sprintf("%s: step %s put %d messages on Outgoing() without any Save / outgoing handler call", desc, stepName, len(outs)), replay)
			}
			return
		}
		typ := oes[0].typ
		exp := chainFor(typ)
		pos := 0
		complete := true
		savedSeq := -1
		for _, l := range exp {
			if pos >= len(oes) {
				c.Violate("C19/outgoing-chain-too-short", fmt.Sprintf("%s: step %s (type %s): chain ended after %d calls though nothing refused", desc, stepName, typ, pos), replay)
				return
			}
			e := oes[pos]
			pos++
			if l.save {
				if e.kind != "save" {
					c.Violate("C19/outgoing-order", fmt.Sprintf("%s: step %s (type %s): call #%d is %s(%d), expected the session's Save (registered at construction)", desc, stepName, typ, pos, e.kind, e.id), replay)
					return
				}
				savedSeq = e.seq
				if !e.ok {
					complete = false
					refusals++
					break
				}
				continue
			}
			wantKind := "out-type"
			if l.h.scope == "ALL" {
				wantKind = "out-all"
			}
			if e.kind != wantKind || e.id != l.h.id {
				c.Violate("C19/outgoing-order", fmt.Sprintf("%s: step %s (type %s): call #%d is %s(%d), expected %s(%d) by registration order (ALL handlers first)", desc, stepName, typ, pos, e.kind, e.id, wantKind, l.h.id), replay)
				return
			}
			if !e.ok {
				complete = false
				refusals++
				break
			}
		}
		if pos < len(oes) {
			c.Violate("C19/handler-called-after-refusal-or-twice", fmt.Sprintf("%s: step %s (type %s): %d further calls after the chain should have ended (first: %s(%d))", desc, stepName, typ, len(oes)-pos, oes[pos].kind, oes[pos].id), replay)
			return
		}
		c.Count("outgoing_chains_checked", 1)
		if !complete {
			if len(outs) != 0 {
				c.Violate("C19/transmitted-despite-refusal-or-failed-save", fmt.Sprintf("%s: step %s (type %s): a handler refused or Save failed, yet %d message(s) reached Outgoing()", desc, stepName, typ, len(outs)), replay)
			}
			if isLocal && sendErr == nil {
				c.Violate("C19/send-returned-nil-for-untransmitted-message", fmt.Sprintf("%s: step %s: Send returned nil although the message was refused / not saved", desc, stepName), replay)
			}
			return
		}
		if len(outs) != 1 {
			c.Violate("C19/accepted-message-not-transmitted-once", fmt.Sprintf("%s: step %s (type %s): chain completed but %d messages on Outgoing()", desc, stepName, typ, len(outs)), replay)
			return
		}
		if isLocal && sendErr != nil {
			c.Violate("C19/send-error-for-transmitted-message", fmt.Sprintf("%s: step %s: Send returned %v although the message was transmitted", desc, stepName, sendErr), replay)
		}
		w := outs[0]
		if fixref.GetS(w.Fields, rig.TSeq) != strconv.Itoa(savedSeq) {
			c.Violate("C19/saved-under-different-seqnum", fmt.Sprintf("%s: step %s: wire 34=%s but Save was called with %d", desc, stepName, fixref.GetS(w.Fields, rig.TSeq), savedSeq), replay)
		}
		for _, e := range oes {
			if e.kind == "save" && !bytes.Equal(e.data, w.Raw) {
				c.Violate("C19/stored-message-differs-from-transmitted", fmt.Sprintf("%s: step %s: the store was given %s under %d, the wire carries %s", desc, stepName, vk.Trunc(fixref.Pretty(e.data), 200), e.seq, vk.Trunc(fixref.Pretty(w.Raw), 200)), replay)
				break
			}
			if e.kind != "save" && !bytes.Equal(e.data, w.Raw) {
				c.Violate("C19/handler-saw-different-bytes", fmt.Sprintf("%s: step %s: outgoing handler %d serialized %s, wire has %s", desc, stepName, e.id, vk.Trunc(fixref.Pretty(e.data), 200), vk.Trunc(fixref.Pretty(w.Raw), 200)), replay)
				break
			}
		}
	}

	judgeIn := func(stepName, typ string, es []entry) (allRefused bool) {
		var ies []entry
		for _, e := range es {
			if strings.HasPrefix(e.kind, "in-") {
				ies = append(ies, e)
			}
		}
		var expAll, expType []*hspec
		for ph := 0; ph < 3; ph++ {
			for _, hs := range sc.in {
				if hs.phase == ph && hs.scope == "ALL" {
					expAll = append(expAll, hs)
				}
			}
		}
		for _, hs := range lateSorted(sc.in) {
			if hs.late && hs.active && hs.scope == "ALL" {
				expAll = append(expAll, hs)
			}
		}
		for _, hs := range sc.in {
			if hs.scope == typ && !hs.late {
				expType = append(expType, hs)
			}
		}
		for _, hs := range lateSorted(sc.in) {
			if hs.scope == typ && hs.late && hs.active {
				expType = append(expType, hs)
			}
		}
		pos := 0
		for _, hs := range expAll {
			if pos >= len(ies) || ies[pos].kind != "in-all" || ies[pos].id != hs.id {
				got := "nothing"
				if pos < len(ies) {
					got = fmt.Sprintf("%s(%d)", ies[pos].kind, ies[pos].id)
				}
				c.Violate("C19/incoming-order", fmt.Sprintf("%s: step %s (type %s): expected in-all(%d) at call #%d, got %s", desc, stepName, typ, hs.id, pos+1, got), replay)
				return
			}
			pos++
			if !ies[pos-1].ok {
				allRefused = true
				refusals++
				break
			}
		}
		// the message is offered to the handlers of its own type whatever the all-types handlers returned ("every inbound
		// message is offered to the all-types handlers and then to the handlers of its own type")
		rest := ies[pos:]
		tp := 0
		for _, hs := range expType {
			if tp >= len(rest) || rest[tp].kind != "in-type" || rest[tp].id != hs.id {
				got := "nothing"
				if tp < len(rest) {
					got = fmt.Sprintf("%s(%d)", rest[tp].kind, rest[tp].id)
				}
				c.Violate("C19/incoming-order", fmt.Sprintf("%s: step %s (type %s): expected in-type(%d) after the ALL handlers, got %s", desc, stepName, typ, hs.id, got), replay)
				return
			}
			tp++
			if !rest[tp-1].ok {
				refusals++
				break
			}
		}
		if tp < len(rest) {
			c.Violate("C19/incoming-handler-called-after-refusal-or-twice", fmt.Sprintf("%s: step %s (type %s): unexpected further call %s(%d)", desc, stepName, typ, rest[tp].kind, rest[tp].id), replay)
		}
		c.Count("incoming_dispatches_checked", 1)
		return
	}

	// initiator: Session.Run already sent the Logon (judged as a chain without step context)
	if sc.role == rig.Initiator {
		maxPhase = 2 // the Logon leaves inside Session.Run, before the handlers registered after Run exist
		judgeOut("initiator-logon", lg.since(0), rg.InitOuts, nil, false, 1)
		maxPhase = 3
	}
	m := lg.mark()
	res := rg.Inbound(p.Logon(30, "0"))
	if res.TimedOut {
		c.Inconclusive("watchdog at logon: " + desc)
		return
	}
	es := lg.since(m)
	allRef := judgeIn("logon", "A", es)
	// EventLogon handlers: registration order, stop at the first false
	var evs []entry
	for _, e := range es {
		if e.kind == "event" {
			evs = append(evs, e)
		}
	}
	if res.Logged {
		k := 0
		for _, hs := range sc.ev {
			if k >= len(evs) || evs[k].id != hs.id {
				c.Violate("C19/event-handler-order", fmt.Sprintf("%s: EventLogon handlers ran as %v, expected registration order", desc, ids(evs)), replay)
				break
			}
			k++
			if !evs[k-1].ok {
				refusals++
				break
			}
		}
		if k < len(evs) {
			c.Violate("C19/event-handler-called-after-refusal", fmt.Sprintf("%s: EventLogon handlers ran as %v: a handler ran after one returned false", desc, ids(evs)), replay)
		}
		c.Count("event_triggers_checked", 1)
	}
	if sc.role == rig.Acceptor {
		_ = allRef
		judgeOut("logon-reply", es, res.Outs, nil, false, 1)
	}
	logged := res.Logged
	for k, stp := range sc.steps {
		name := fmt.Sprintf("#%d:%s", k, stp)
		m := lg.mark()
		if strings.HasPrefix(stp, "register-") {
			var hid int
			kind := "out"
			if strings.HasPrefix(stp, "register-in:") {
				kind = "in"
				fmt.Sscanf(stp, "register-in:%d", &hid)
			} else {
				fmt.Sscanf(stp, "register-out:%d", &hid)
			}
			list := sc.out
			if kind == "in" {
				list = sc.in
			}
			for _, hs := range list {
				if hs.id != hid {
					continue
				}
				hs := hs
				scope := hs.scope
				if scope == "ALL" {
					scope = simplefixgo.AllMsgTypes
				}
				if kind == "out" {
					rg.H.HandleOutgoing(scope, func(msg simplefixgo.SendingMessage) bool {
						b, _ := msg.ToBytes()
						k := "out-type"
						if hs.scope == "ALL" {
							k = "out-all"
						}
						ok := hs.decide()
						lg.add(entry{kind: k, id: hs.id, ok: ok, data: append([]byte(nil), b...), typ: msg.MsgType()})
						return ok
					})
				} else {
					rg.H.HandleIncoming(scope, func(data []byte) bool {
						if rig.IsSentinel(data) {
							return true
						}
						k := "in-type"
						if hs.scope == "ALL" {
							k = "in-all"
						}
						ok := hs.decide()
						lg.add(entry{kind: k, id: hs.id, ok: ok, data: append([]byte(nil), data...)})
						return ok
					})
				}
				hs.active = true
				lateOrder++
				hs.order = lateOrder
				c.Count("handlers_registered_during_traffic", 1)
			}
			continue
		}
		switch stp {
		case "send":
			msg := fixgen.CreateMarketDataRequestReject("c19-" + strconv.Itoa(k))
			res := rg.Do(func() error { return rg.S.Send(msg) })
			if res.TimedOut {
				c.Inconclusive("watchdog: " + desc)
				return
			}
			judgeOut(name, lg.since(m), res.Outs, res.SendErr, true, 1)
		case "handler-send-reused-seqnum":
			// the application sends a message with its own header through the handler, numbered like an earlier message (or 0)
			msg := fixgen.CreateMarketDataRequestReject("c19-own-header-" + strconv.Itoa(k))
			seq := 0
			if k%2 == 0 {
				seq = 1
			}
			msg.HeaderBuilder().SetFieldMsgSeqNum(seq).SetFieldSenderCompID(rig.LibID).SetFieldTargetCompID(rig.PeerID).SetFieldSendingTime("20240101-00:00:00.000")
			res := rg.Do(func() error { return rg.H.Send(msg) })
			if res.TimedOut {
				c.Inconclusive("watchdog: " + desc)
				return
			}
			judgeOut(name, lg.since(m), res.Outs, res.SendErr, true, 1)
		case "counter-lowered-then-send":
			// the application lowers the outgoing counter (e.g. honouring ResetSeqNumFlag) and keeps sending
			_ = st.SetSeqNum(fix.StorageID{Side: fix.Outgoing}, 0)
			msg := fixgen.CreateMarketDataRequestReject("c19-after-reset-" + strconv.Itoa(k))
			res := rg.Do(func() error { return rg.S.Send(msg) })
			if res.TimedOut {
				c.Inconclusive("watchdog: " + desc)
				return
			}
			judgeOut(name, lg.since(m), res.Outs, res.SendErr, true, 1)
		case "testreq":
			res := rg.Inbound(p.TestRequest("q" + strconv.Itoa(k)))
			if res.TimedOut {
				c.Inconclusive("watchdog: " + desc)
				return
			}
			es := lg.since(m)
			ar := judgeIn(name, "1", es)
			_ = ar
			due := -1 // not judged
			if logged {
				due = 1
			}
			judgeOut(name, es, res.Outs, nil, false, due)
		case "damaged":
			res := rg.Inbound(rig.BadChecksum(p.Heartbeat()))
			if res.TimedOut {
				c.Inconclusive("watchdog: " + desc)
				return
			}
			es := lg.since(m)
			ar := judgeIn(name, "0", es)
			_ = ar
			due := 1
			judgeOut(name, es, res.Outs, nil, false, due)
		case "relogon":
			// the peer logs out and on again on the same connection; the handlers registered so far (also those added
			// after the first logon) must go on being offered every inbound message in order
			if !logged {
				continue
			}
			res := rg.Inbound(p.Logout())
			if res.TimedOut {
				c.Inconclusive("watchdog: " + desc)
				return
			}
			judgeIn(name+"/logout", "5", lg.since(m))
			m2 := lg.mark()
			res = rg.Inbound(p.Logon(30, "0"))
			if res.TimedOut {
				c.Inconclusive("watchdog: " + desc)
				return
			}
			judgeIn(name+"/logon", "A", lg.since(m2))
			logged = res.Logged
			c.Count("relogons_inside_scenarios", 1)
		case "app":
			res := rg.Inbound(p.App("a" + strconv.Itoa(k)))
			if res.TimedOut {
				c.Inconclusive("watchdog: " + desc)
				return
			}
			es := lg.since(m)
			judgeIn(name, "V", es)
			judgeOut(name, es, res.Outs, nil, false, 0)
		}
	}
	c.Eval(vk.Hash64([]byte(desc)), refusals > 0)
	c.Count("refusals_and_failed_saves", int64(refusals))
	if c.WantSample() && refusals > 1 && idx%37 == 0 {
		c.Sample(desc)
	}
}

func ids(es []entry) []int {
	var o []int
	for _, e := range es {
		o = append(o, e.id)
	}
	return o
}
