package main

import (
	"bytes"
	"fmt"
	"strconv"
	"sync"
	"time"

	simplefixgo "github.com/b2broker/simplefix-go"
	"github.com/b2broker/simplefix-go/fix"
	"github.com/b2broker/simplefix-go/session"
	"github.com/b2broker/simplefix-go/storages/memory"
	fixgen "github.com/b2broker/simplefix-go/tests/fix44"

	"verifharness/fixref"
	"verifharness/rig"
	"verifharness/vk"
)

// queuedScenario: messages stay queued in the handler's buffered outgoing channel while the application goes on
// sending — the same message object again (changed in place or not) or fresh objects. What finally leaves must be,
// message by message, what the outgoing handlers saw and what the store holds under that sequence number.
func queuedScenario(c *vk.Ctx, i int) {
	r := c.Rand("c19-queued", int64(i))
	role := rig.Role(i % 2)
	buf := []int{4, 8, 16}[r.Intn(3)]
	k := 2 + r.Intn(buf-1)
	reuse := i%3 != 2
	change := r.Intn(2) == 0
	desc := fmt.Sprintf("%s buffer=%d: %d sends while nothing is taken from Outgoing(); one message object re-used=%v, changed in place between sends=%v", role, buf, k, reuse, change)
	replay := map[string]interface{}{"scenario": desc, "index": i, "seed": c.Seed}
	st := memory.NewStorage()
	var mu sync.Mutex
	var seen [][]byte
	rg, err := rig.NewStepRig(rig.StepCfg{Role: role, HeartBtInt: 30, Limits: &session.IntLimits{Min: 5, Max: 60}, Counter: st, Messages: st, BufferSize: buf, SentinelBarrier: true,
		AfterRun: func(h *simplefixgo.DefaultHandler, s *session.Session) {
			h.HandleOutgoing(simplefixgo.AllMsgTypes, func(m simplefixgo.SendingMessage) bool {
				b, _ := m.ToBytes()
				mu.Lock()
				seen = append(seen, append([]byte(nil), b...))
				mu.Unlock()
				return true
			})
		}})
	if err != nil {
		c.Inconclusive("rig: " + err.Error())
		return
	}
	defer rg.Close()
	p := rig.NewPeer()
	rg.Inbound(p.Logon(30, "0"))
	// the handler is buffered here: the step driver's barrier does not wait for the message to be served
	for w := 0; !rg.S.IsLogged(); w++ {
		if w > 2000 {
			c.Inconclusive("no logon in " + desc)
			return
		}
		time.Sleep(time.Millisecond)
	}
	for w := 0; w < 2000; w++ { // the acceptor's Logon answer / nothing for the initiator
		if n := len(rg.AllOuts()); (role == rig.Acceptor && n >= 1) || (role == rig.Initiator && n >= 1) {
			break
		}
		time.Sleep(time.Millisecond)
	}
	time.Sleep(5 * time.Millisecond)
	base := len(rg.AllOuts())
	mu.Lock()
	seenBase := len(seen)
	mu.Unlock()
	release := rg.HoldOutgoing()
	own := fixgen.CreateMarketDataRequestReject("queued-0")
	var seqs []int
	sendErr := ""
	done := make(chan struct{})
	go func() {
		defer close(done)
		for n := 0; n < k; n++ {
			m := own
			if !reuse {
				m = fixgen.CreateMarketDataRequestReject("queued-" + strconv.Itoa(n))
			} else if change && n > 0 {
				m.SetText("changed before send " + strconv.Itoa(n))
			}
			if err := rg.S.Send(m); err != nil {
				sendErr = err.Error()
				return
			}
			seqs = append(seqs, m.HeaderBuilder().MsgSeqNum())
		}
	}()
	select {
	case <-done:
	case <-time.After(5 * time.Second):
		release()
		c.Inconclusive("sends did not return while the queue had room: " + desc)
		return
	}
	release()
	// the collector takes the queued messages one by one
	for w := 0; w < 2000 && len(rg.AllOuts()) < base+k; w++ {
		time.Sleep(time.Millisecond)
	}
	outs := rg.AllOuts()[base:]
	if sendErr != "" {
		c.Inconclusive("Send failed: " + sendErr)
		return
	}
	mu.Lock()
	sn := append([][]byte(nil), seen[seenBase:]...)
	mu.Unlock()
	c.Eval(vk.Hash64([]byte(desc)), reuse)
	c.Count("queued_scenarios", 1)
	c.Count("queued_messages", int64(len(outs)))
	if len(outs) != k || len(sn) != k {
		c.Violate("C19/queued/count", fmt.Sprintf("%s: %d sends, %d messages seen by the outgoing handler, %d transmitted", desc, k, len(sn), len(outs)), replay)
		return
	}
	id := fix.StorageID{Sender: rig.LibID, Target: rig.PeerID, Side: fix.Outgoing}
	for n := 0; n < k; n++ {
		if !bytes.Equal(outs[n].Raw, sn[n]) {
			c.Violate("C19/queued/transmitted-differs-from-what-the-handler-saw", fmt.Sprintf("%s: transmitted message #%d is %s, the outgoing handler was shown %s", desc, n, vk.Trunc(fixref.Pretty(outs[n].Raw), 200), vk.Trunc(fixref.Pretty(sn[n]), 200)), replay)
			return
		}
		stored, err := st.Messages(id, seqs[n], seqs[n])
		if err != nil || len(stored) != 1 {
			c.Violate("C19/queued/not-stored", fmt.Sprintf("%s: message #%d (34=%d) is not in the store: %v", desc, n, seqs[n], err), replay)
			return
		}
		sb, _ := stored[0].ToBytes()
		if !bytes.Equal(sb, outs[n].Raw) {
			c.Violate("C19/queued/transmitted-differs-from-stored", fmt.Sprintf("%s: transmitted message #%d is %s, the store holds %s under %d", desc, n, vk.Trunc(fixref.Pretty(outs[n].Raw), 200), vk.Trunc(fixref.Pretty(sb), 200), seqs[n]), replay)
			return
		}
	}
}
