package main

import (
	"bytes"
	"fmt"
	"strconv"
	"sync"

	simplefixgo "github.com/b2broker/simplefix-go"
	"github.com/b2broker/simplefix-go/session"
	fixgen "github.com/b2broker/simplefix-go/tests/fix44"

	"verifharness/fixref"
	"verifharness/rig"
	"verifharness/vk"
)

// modifyingScenario: an outgoing handler changes the message it is shown (what HandleOutgoing is documented for); the
// handlers behind it see the changed message, and what is transmitted is what the LAST handler saw.
func modifyingScenario(c *vk.Ctx, i int) {
	r := c.Rand("c19-modifying", int64(i))
	role := rig.Role(i % 2)
	scopeMod := []string{simplefixgo.AllMsgTypes, "Y"}[r.Intn(2)]
	var mu sync.Mutex
	var last [][]byte
	rg, err := rig.NewStepRig(rig.StepCfg{Role: role, HeartBtInt: 30, Limits: &session.IntLimits{Min: 5, Max: 60}, SentinelBarrier: true,
		AfterRun: func(h *simplefixgo.DefaultHandler, s *session.Session) {
			h.HandleOutgoing(scopeMod, func(m simplefixgo.SendingMessage) bool {
				if mm, ok := m.(*fixgen.MarketDataRequestReject); ok {
					mm.SetText("stamped-by-handler")
					mm.HeaderBuilder().SetFieldSendingTime("20300101-00:00:00.000")
				}
				return true
			})
			h.HandleOutgoing("Y", func(m simplefixgo.SendingMessage) bool {
				b, _ := m.ToBytes()
				mu.Lock()
				last = append(last, append([]byte(nil), b...))
				mu.Unlock()
				return true
			})
		}})
	if err != nil {
		c.Inconclusive("rig: " + err.Error())
		return
	}
	defer rg.Close()
	p := rig.NewPeer()
	if res := rg.Inbound(p.Logon(30, "0")); !res.Logged {
		c.Inconclusive("modifying-handler scenario: no logon")
		return
	}
	n := 1 + r.Intn(4)
	desc := fmt.Sprintf("%s: an outgoing handler (scope %s) stamps Text and SendingTime on the message, a handler behind it records what it is shown; %d sends", role, pretty(scopeMod), n)
	replay := map[string]interface{}{"scenario": desc, "index": i, "seed": c.Seed}
	for k := 0; k < n; k++ {
		res := rg.Do(func() error { return rg.S.Send(fixgen.CreateMarketDataRequestReject("mod-" + strconv.Itoa(k))) })
		if res.TimedOut || res.SendErr != nil || len(res.Outs) != 1 {
			c.Inconclusive(fmt.Sprintf("send did not go through (%v): %s", res.SendErr, desc))
			return
		}
		mu.Lock()
		seen := last[len(last)-1]
		mu.Unlock()
		c.Eval(vk.Hash64([]byte(desc), []byte{byte(k)}), true)
		c.Count("sends_through_a_modifying_handler", 1)
		if !bytes.Equal(res.Outs[0].Raw, seen) {
			c.Violate("C19/modifying-handler/transmitted-differs-from-what-the-last-handler-saw", fmt.Sprintf("%s: transmitted %s, the last outgoing handler was shown %s", desc, vk.Trunc(fixref.Pretty(res.Outs[0].Raw), 250), vk.Trunc(fixref.Pretty(seen), 250)), replay)
			return
		}
		if fixref.GetS(res.Outs[0].Fields, "58") != "stamped-by-handler" {
			c.Violate("C19/modifying-handler/change-made-by-a-handler-not-transmitted", fmt.Sprintf("%s: transmitted %s", desc, vk.Trunc(fixref.Pretty(res.Outs[0].Raw), 250)), replay)
			return
		}
	}
}
