package main

import (
	"bytes"
	"fmt"
	"strconv"
	"strings"
	"sync"
	"time"

	simplefixgo "github.com/b2broker/simplefix-go"
	"github.com/b2broker/simplefix-go/session"
	"github.com/b2broker/simplefix-go/storages/memory"
	fixgen "github.com/b2broker/simplefix-go/tests/fix44"

	"verifharness/fixref"
	"verifharness/rig"
	"verifharness/vk"
)

// resendScenario: some of the messages the application sends are refused by an outgoing handler that runs behind the
// session's store handler (so the store holds them under their numbers although they never left). Then the peer asks
// for retransmissions over ranges that cover those numbers. A refused message is not transmitted — not at the send,
// and not later on behalf of a ResendRequest. (Which of the other messages are retransmitted is C10's business.)
func resendScenario(c *vk.Ctx, i int) {
	r := c.Rand("c19-resend", int64(i))
	role := rig.Role(i % 2)
	mode := []string{"type-handler-refuses", "all-handler-refuses"}[(i/2)%2]
	n := 3 + r.Intn(6)
	marker := []byte("262=never-leaves")
	refuse := func(m simplefixgo.SendingMessage) bool {
		b, _ := m.ToBytes()
		return !bytes.Contains(b, marker)
	}
	lg := &clog{}
	st := &store{Storage: memory.NewStorage(), log: lg}
	rg, err := rig.NewStepRig(rig.StepCfg{Role: role, HeartBtInt: 30, Limits: &session.IntLimits{Min: 5, Max: 60}, Counter: st, Messages: st, SentinelBarrier: true,
		AfterRun: func(h *simplefixgo.DefaultHandler, s *session.Session) {
			if mode == "all-handler-refuses" {
				h.HandleOutgoing(simplefixgo.AllMsgTypes, refuse)
			} else {
				h.HandleOutgoing("Y", refuse)
			}
		}})
	if err != nil {
		c.Inconclusive("rig: " + err.Error())
		return
	}
	defer rg.Close()
	p := rig.NewPeer()
	if res := rg.Inbound(p.Logon(30, "0")); !res.Logged {
		c.Inconclusive("resend scenario: no logon")
		return
	}
	desc := fmt.Sprintf("%s %s: %d application sends", role, mode, n)
	replay := map[string]interface{}{"scenario": desc, "index": i, "seed": c.Seed}
	leaked := func(outs []rig.Out, when string) bool {
		for _, o := range outs {
			if bytes.Contains(o.Raw, marker) {
				c.Violate("C19/refused-message-transmitted/"+when+"/"+mode, fmt.Sprintf("%s: a message the outgoing handler refused is on the wire (%s): %s", desc, when, vk.Trunc(string(bytes.ReplaceAll(o.Raw, []byte{1}, []byte("|"))), 300)), replay)
				return true
			}
		}
		return false
	}
	refused := 0
	for k := 0; k < n; k++ {
		id := "ok-" + strconv.Itoa(k)
		bad := r.Intn(3) == 0 || (k == n-1 && refused == 0)
		if bad {
			id = "never-leaves"
			refused++
		}
		res := rg.Do(func() error { return rg.S.Send(fixgen.CreateMarketDataRequestReject(id)) })
		if res.TimedOut {
			c.Inconclusive("watchdog: " + desc)
			return
		}
		if bad {
			if leaked(res.Outs, "at-the-send") {
				return
			}
			if res.SendErr == nil {
				c.Violate("C19/refused-send-returned-nil/"+mode, desc+": Send returned nil for a message its outgoing handler refused", replay)
			}
		}
	}
	c.Eval(vk.Hash64([]byte(desc), []byte(strconv.Itoa(i))), true)
	c.Count("resend_scenarios_with_refused_messages_in_the_store", 1)
	for q := 0; q < 3; q++ {
		b, e := 1, 0
		switch q {
		case 1:
			b = 1 + r.Intn(n+1)
			e = b + r.Intn(n+2)
		case 2:
			b = 1 + r.Intn(n+1)
			e = 0
		}
		res := rg.Inbound(p.Resend(b, e))
		if res.TimedOut || res.RunEnded {
			return
		}
		c.Count("resend_requests_over_refused_numbers", 1)
		if leaked(res.Outs, "on-behalf-of-a-resend-request") {
			return
		}
	}
}

// logoutScenario: the message that cannot be stored, or that an outgoing handler refuses, is the session's own Logout
// (sent by Session.Logout or Session.Stop). It is a message like any other: it does not leave.
func logoutScenario(c *vk.Ctx, i int) {
	role := rig.Role(i % 2)
	mode := []string{"save-fails", "all-handler-refuses", "type-handler-refuses"}[(i/2)%3]
	via := []string{"Logout", "Stop"}[(i/6)%2]
	lg := &clog{}
	st := &store{Storage: memory.NewStorage(), log: lg}
	refuse := func(m simplefixgo.SendingMessage) bool { return m.MsgType() != "5" }
	rg, err := rig.NewStepRig(rig.StepCfg{Role: role, HeartBtInt: 30, Limits: &session.IntLimits{Min: 5, Max: 60}, Counter: st, Messages: st, SentinelBarrier: true, CloseTimeout: 300 * time.Millisecond,
		AfterRun: func(h *simplefixgo.DefaultHandler, s *session.Session) {
			switch mode {
			case "all-handler-refuses":
				h.HandleOutgoing(simplefixgo.AllMsgTypes, refuse)
			case "type-handler-refuses":
				h.HandleOutgoing("5", refuse)
			}
		}})
	if err != nil {
		c.Inconclusive("rig: " + err.Error())
		return
	}
	defer rg.Close()
	p := rig.NewPeer()
	if res := rg.Inbound(p.Logon(30, "0")); !res.Logged {
		c.Inconclusive("logout scenario: no logon")
		return
	}
	for k := 0; k < i%3; k++ {
		rg.Do(func() error { return rg.S.Send(fixgen.CreateMarketDataRequestReject("before-" + strconv.Itoa(k))) })
	}
	if mode == "save-fails" {
		st.mu.Lock()
		st.failAt = st.n + 1
		st.mu.Unlock()
	}
	desc := fmt.Sprintf("%s Session.%s while %s for the Logout", role, via, mode)
	replay := map[string]interface{}{"scenario": desc, "index": i, "seed": c.Seed}
	m0 := lg.mark()
	res := rg.Do(func() error {
		if via == "Stop" {
			return rg.S.Stop()
		}
		return rg.S.Logout()
	})
	if res.TimedOut {
		c.Inconclusive("watchdog: " + desc)
		return
	}
	c.Eval(vk.Hash64([]byte(desc), []byte{byte(i)}), true)
	c.Count("logouts_that_could_not_be_stored_or_were_refused", 1)
	saved := map[string]bool{}
	for _, e := range lg.since(m0) {
		if e.kind == "save" && e.ok {
			saved[strconv.Itoa(e.seq)] = true
		}
	}
	for _, o := range res.Outs {
		if o.Type != "5" {
			continue
		}
		if mode == "save-fails" && !saved[fixref.GetS(o.Fields, rig.TSeq)] {
			c.Violate("C19/transmitted-without-save/own-logout", fmt.Sprintf("%s: a Logout with 34=%s is on the wire, but nothing was saved under that number", desc, fixref.GetS(o.Fields, rig.TSeq)), replay)
		}
		if mode != "save-fails" {
			c.Violate("C19/refused-message-transmitted/own-logout/"+mode, desc+": the Logout an outgoing handler refused is on the wire", replay)
		}
	}
}

// inboundOddSeq: inbound messages whose MsgSeqNum is missing or not a number (correct framing). Whatever the session
// makes of them, they are inbound messages: offered to the application's all-types handlers and then to the handlers
// of their own type.
func inboundOddSeq(c *vk.Ctx, i int) {
	role := rig.Role(i % 2)
	var mu sync.Mutex
	var log []string
	rec := func(scope string) func([]byte) bool {
		return func(m []byte) bool {
			fs, _ := fixref.TokenizeLoose(m)
			if t := fixref.GetS(fs, "35"); t != "0" && t != "1" {
				return true // the step driver's own barrier message
			}
			mu.Lock()
			log = append(log, scope+":"+fixref.GetS(fs, "35")+":"+fixref.GetS(fs, rig.TTestReqID)+fixref.GetS(fs, "58"))
			mu.Unlock()
			return true
		}
	}
	rg, err := rig.NewStepRig(rig.StepCfg{Role: role, HeartBtInt: 30, Limits: &session.IntLimits{Min: 5, Max: 60}, SentinelBarrier: true,
		AfterRun: func(h *simplefixgo.DefaultHandler, s *session.Session) {
			h.HandleIncoming(simplefixgo.AllMsgTypes, rec("ALL"))
			h.HandleIncoming("0", rec("TYPE"))
			h.HandleIncoming("1", rec("TYPE"))
		}})
	if err != nil {
		c.Inconclusive("rig: " + err.Error())
		return
	}
	defer rg.Close()
	p := rig.NewPeer()
	if res := rg.Inbound(p.Logon(30, "0")); !res.Logged {
		c.Inconclusive("odd-seq scenario: no logon")
		return
	}
	mu.Lock()
	log = nil
	mu.Unlock()
	type in struct {
		name string
		msg  []byte
		want string
	}
	hb := func(tag string) []byte { return p.Msg("0", fixref.F(rig.TTestReqID, tag)) }
	ins := []in{
		{"ordinary Heartbeat", hb("h1"), "0:h1"},
		{"Heartbeat without MsgSeqNum", rig.Reframe(hb("h2"), nil, map[string]bool{rig.TSeq: true}), "0:h2"},
		{"Heartbeat with MsgSeqNum 'x'", rig.Reframe(hb("h3"), map[string]string{rig.TSeq: "x"}, nil), "0:h3"},
		{"Heartbeat with an empty MsgSeqNum", rig.Reframe(hb("h4"), map[string]string{rig.TSeq: ""}, nil), "0:h4"},
		{"ordinary TestRequest", p.TestRequest("t5"), "1:t5"},
	}
	if i%4 >= 2 {
		ins[1], ins[3] = ins[3], ins[1]
	}
	for _, x := range ins {
		desc := fmt.Sprintf("%s logged on: inbound %s", role, x.name)
		mu.Lock()
		m0 := len(log)
		mu.Unlock()
		res := rg.Inbound(x.msg)
		if res.TimedOut || res.RunEnded {
			return
		}
		mu.Lock()
		got := append([]string(nil), log[m0:]...)
		mu.Unlock()
		c.Eval(vk.Hash64([]byte(desc), []byte{byte(i)}), true)
		c.Count("inbound_messages_with_odd_sequence_numbers", 1)
		want := []string{"ALL:" + x.want, "TYPE:" + x.want}
		if strings.Join(got, " ") != strings.Join(want, " ") {
			c.Violate("C19/incoming-order/message-with-odd-seqnum", fmt.Sprintf("%s: offered as %v, want %v", desc, got, want), map[string]interface{}{"case": desc, "index": i, "message": fixref.Pretty(x.msg)})
			return
		}
	}
}
