package main

import (
	"fmt"
	"strconv"
	"strings"

	simplefixgo "github.com/b2broker/simplefix-go"
	"github.com/b2broker/simplefix-go/fix"
	"github.com/b2broker/simplefix-go/session"
	"github.com/b2broker/simplefix-go/storages/memory"
	fixgen "github.com/b2broker/simplefix-go/tests/fix44"

	"verifharness/fixref"
	"verifharness/rig"
	"verifharness/vk"
)

// removalScenario: the application registers handlers of its own, later hands one of the identifiers it was given back
// to RemoveOutgoingHandler / RemoveIncomingHandler, and goes on. Whether the removed handler still runs is not judged
// (the statement does not say what removal means); everything else is: messages are saved before they leave, a failing
// save stops the send, the handlers that were not removed still run in order, inbound requests are still served.
func removalScenario(c *vk.Ctx, i int) {
	r := c.Rand("c19-removal", int64(i))
	role := rig.Role(i % 2)
	nOut := 1 + r.Intn(3)
	nIn := 1 + r.Intn(2)
	lg := &clog{}
	failAt := 0
	if r.Intn(2) == 0 {
		failAt = 4 + r.Intn(3) // one of the saves after the removal fails
	}
	st := &store{Storage: memory.NewStorage(), log: lg, failAt: failAt}
	type reg struct {
		scope string
		id    int64
		n     int
	}
	var outs, ins []*reg
	phase := r.Intn(2) // register before or after Session.Run
	register := func(h *simplefixgo.DefaultHandler) {
		for k := 0; k < nOut; k++ {
			rg := &reg{scope: []string{simplefixgo.AllMsgTypes, simplefixgo.AllMsgTypes, "Y"}[r.Intn(3)], n: k}
			rg.id = h.HandleOutgoing(rg.scope, func(m simplefixgo.SendingMessage) bool {
				lg.add(entry{kind: "app-out", id: rg.n, ok: true, typ: m.MsgType()})
				return true
			})
			outs = append(outs, rg)
		}
		for k := 0; k < nIn; k++ {
			rg := &reg{scope: []string{simplefixgo.AllMsgTypes, "1"}[r.Intn(2)], n: k}
			rg.id = h.HandleIncoming(rg.scope, func(d []byte) bool {
				if !rig.IsSentinel(d) {
					lg.add(entry{kind: "app-in", id: rg.n, ok: true})
				}
				return true
			})
			ins = append(ins, rg)
		}
	}
	cfg := rig.StepCfg{Role: role, HeartBtInt: 30, Limits: &session.IntLimits{Min: 5, Max: 60}, Counter: st, Messages: st, SentinelBarrier: true}
	if phase == 0 {
		cfg.BeforeRun = func(h *simplefixgo.DefaultHandler, s *session.Session) { register(h) }
	} else {
		cfg.AfterRun = func(h *simplefixgo.DefaultHandler, s *session.Session) { register(h) }
	}
	rgg, err := rig.NewStepRig(cfg)
	if err != nil {
		c.Inconclusive("rig: " + err.Error())
		return
	}
	defer rgg.Close()
	p := rig.NewPeer()
	if res := rgg.Inbound(p.Logon(30, "0")); !res.Logged {
		c.Inconclusive("removal scenario: no logon")
		return
	}
	rmOut := outs[r.Intn(len(outs))]
	rmIn := ins[r.Intn(len(ins))]
	which := r.Intn(3) // 0: outgoing, 1: incoming, 2: both
	desc := fmt.Sprintf("%s: application handlers registered %s Session.Run (outgoing scopes %s, incoming scopes %s); removal of ", role, []string{"before", "after"}[phase], scopes(outs), scopes(ins))
	var e1, e2 error
	if which != 1 {
		e1 = rgg.H.RemoveOutgoingHandler(rmOut.scope, rmOut.id)
		desc += fmt.Sprintf("outgoing #%d (scope %s, id %d, result %v) ", rmOut.n, pretty(rmOut.scope), rmOut.id, e1)
	}
	if which != 0 {
		e2 = rgg.H.RemoveIncomingHandler(rmIn.scope, rmIn.id)
		desc += fmt.Sprintf("incoming #%d (scope %s, id %d, result %v) ", rmIn.n, pretty(rmIn.scope), rmIn.id, e2)
	}
	if failAt != 0 {
		desc += fmt.Sprintf("; save #%d fails", failAt)
	}
	replay := map[string]interface{}{"scenario": desc, "index": i, "seed": c.Seed}
	c.Eval(vk.Hash64([]byte(desc)), true)
	c.Count("removal_scenarios", 1)
	id := fix.StorageID{Sender: rig.LibID, Target: rig.PeerID, Side: fix.Outgoing}
	for step := 0; step < 5; step++ {
		m0 := lg.mark()
		var res rig.StepResult
		inbound := step%2 == 1
		if inbound {
			res = rgg.Inbound(p.TestRequest("rm" + strconv.Itoa(step)))
		} else {
			res = rgg.Do(func() error { return rgg.S.Send(fixgen.CreateMarketDataRequestReject("rm" + strconv.Itoa(step))) })
		}
		if res.TimedOut {
			c.Inconclusive("watchdog: " + desc)
			return
		}
		es := lg.since(m0)
		var saves []entry
		var appOut []int
		for _, e := range es {
			switch e.kind {
			case "save":
				saves = append(saves, e)
			case "app-out":
				appOut = append(appOut, e.id)
			}
		}
		saveFailed := len(saves) == 1 && !saves[0].ok
		what := "application send"
		if inbound {
			what = "reply to an inbound TestRequest"
		}
		// (1) whatever left was saved first, under its own number, with the bytes that left
		for _, o := range res.Outs {
			seq, _ := strconv.Atoi(fixref.GetS(o.Fields, rig.TSeq))
			stored, err := st.Messages(id, seq, seq)
			if len(saves) == 0 || err != nil || len(stored) != 1 {
				c.Violate("C19/after-removal/transmitted-without-save", fmt.Sprintf("%s: step %d (%s): message 34=%d left through the session but the store was not asked to save it (saves in this step: %d, lookup: %v)", desc, step, what, seq, len(saves), err), replay)
				return
			}
		}
		// (2) a failed save stops the message and the caller hears about it
		if saveFailed {
			if len(res.Outs) != 0 {
				c.Violate("C19/after-removal/transmitted-although-save-failed", fmt.Sprintf("%s: step %d (%s): the store refused the message, yet %d message(s) were transmitted", desc, step, what, len(res.Outs)), replay)
				return
			}
			if !inbound && res.SendErr == nil {
				c.Violate("C19/after-removal/send-returned-nil-although-save-failed", fmt.Sprintf("%s: step %d: the store refused the message and Send returned nil", desc, step), replay)
				return
			}
			continue
		}
		// (3) a message is due in every step: the application's send, or the Heartbeat answering the TestRequest
		if len(res.Outs) != 1 {
			c.Violate("C19/after-removal/message-not-transmitted", fmt.Sprintf("%s: step %d (%s): %d messages transmitted, 1 expected (send error: %v)", desc, step, what, len(res.Outs), res.SendErr), replay)
			return
		}
		// (4) the application's remaining outgoing handlers ran, in registration order within their scope class
		var wantAll, wantType []int
		for _, o := range outs {
			if which != 1 && o == rmOut {
				continue // not judged
			}
			if o.scope == simplefixgo.AllMsgTypes {
				wantAll = append(wantAll, o.n)
			} else if o.scope == res.Outs[0].Type {
				wantType = append(wantType, o.n)
			}
		}
		want := append(wantAll, wantType...)
		gotKept := appOut[:0:0]
		for _, x := range appOut {
			if which != 1 && x == rmOut.n {
				continue
			}
			gotKept = append(gotKept, x)
		}
		if fmt.Sprint(gotKept) != fmt.Sprint(want) {
			c.Violate("C19/after-removal/remaining-handlers-not-run-in-order", fmt.Sprintf("%s: step %d (%s, type %s): application outgoing handlers that were not removed ran as %v, registration order (ALL before type) is %v", desc, step, what, res.Outs[0].Type, gotKept, want), replay)
			return
		}
	}
}

func scopes[T any](rs []*T) string {
	var s []string
	for _, r := range rs {
		s = append(s, pretty(fmt.Sprintf("%v", any(*r))))
	}
	return "[" + strings.Join(s, " ") + "]"
}

func pretty(s string) string {
	return strings.ReplaceAll(s, simplefixgo.AllMsgTypes, "ALL")
}
