package main

import (
	"bytes"
	"fmt"
	"strconv"

	simplefixgo "github.com/b2broker/simplefix-go"
	"github.com/b2broker/simplefix-go/session"
	"github.com/b2broker/simplefix-go/storages/memory"
	fixgen "github.com/b2broker/simplefix-go/tests/fix44"

	"verifharness/fixref"
	"verifharness/rig"
	"verifharness/vk"
)

// batchScenario: the application hands a batch of prepared messages to the handler's SendBatch while the store fails
// on one of them or an outgoing handler refuses one. The refused / unsaved message must not be transmitted, the call
// must return an error, and whatever was transmitted was saved first. (What happens to the messages behind the refused
// one is not judged.)
func batchScenario(c *vk.Ctx, i int) {
	r := c.Rand("c19-batch", int64(i))
	role := rig.Role(i % 2)
	n := 2 + r.Intn(6)
	bad := -1
	mode := []string{"clean", "save-fails", "all-handler-refuses", "type-handler-refuses"}[i%4]
	if mode != "clean" {
		bad = r.Intn(n)
	}
	lg := &clog{}
	st := &store{Storage: memory.NewStorage(), log: lg}
	marker := []byte("262=batch-bad")
	refuse := func(m simplefixgo.SendingMessage) bool {
		b, _ := m.ToBytes()
		return !bytes.Contains(b, marker)
	}
	rg, err := rig.NewStepRig(rig.StepCfg{Role: role, HeartBtInt: 30, Limits: &session.IntLimits{Min: 5, Max: 60}, Counter: st, Messages: st, SentinelBarrier: true,
		AfterRun: func(h *simplefixgo.DefaultHandler, s *session.Session) {
			switch mode {
			case "all-handler-refuses":
				h.HandleOutgoing(simplefixgo.AllMsgTypes, refuse)
			case "type-handler-refuses":
				h.HandleOutgoing("Y", refuse)
			}
		}})
	if err != nil {
		c.Inconclusive("rig: " + err.Error())
		return
	}
	defer rg.Close()
	p := rig.NewPeer()
	if res := rg.Inbound(p.Logon(30, "0")); !res.Logged {
		c.Inconclusive("batch scenario: no logon")
		return
	}
	var batch []simplefixgo.SendingMessage
	for k := 0; k < n; k++ {
		id := "batch-" + strconv.Itoa(k)
		if k == bad && mode != "save-fails" {
			id = "batch-bad"
		}
		m := fixgen.CreateMarketDataRequestReject(id)
		m.HeaderBuilder().SetFieldMsgSeqNum(100 + k).SetFieldSenderCompID(rig.LibID).SetFieldTargetCompID(rig.PeerID).SetFieldSendingTime("20240101-00:00:00.000")
		batch = append(batch, m)
	}
	if mode == "save-fails" {
		st.mu.Lock()
		st.failAt = st.n + bad + 1
		st.mu.Unlock()
	}
	desc := fmt.Sprintf("%s SendBatch of %d messages, %s at position %d", role, n, mode, bad)
	replay := map[string]interface{}{"scenario": desc, "index": i, "seed": c.Seed}
	res := rg.Do(func() error { return rg.H.SendBatch(batch) })
	if res.TimedOut {
		c.Inconclusive("watchdog: " + desc)
		return
	}
	c.Eval(vk.Hash64([]byte(desc)), mode != "clean")
	c.Count("batch_scenarios", 1)
	onWire := map[int]bool{}
	for _, o := range res.Outs {
		seq, _ := strconv.Atoi(fixref.GetS(o.Fields, rig.TSeq))
		onWire[seq-100] = true
	}
	if bad >= 0 {
		if onWire[bad] {
			c.Violate("C19/batch/refused-or-unsaved-message-transmitted/"+mode, fmt.Sprintf("%s: message #%d was transmitted", desc, bad), replay)
		}
		if res.SendErr == nil {
			c.Violate("C19/batch/send-call-returned-nil-although-a-message-was-refused/"+mode, fmt.Sprintf("%s: SendBatch returned nil; %d of %d messages were transmitted", desc, len(res.Outs), n), replay)
		}
	} else {
		if res.SendErr != nil || len(res.Outs) != n {
			c.Violate("C19/batch/clean-batch-not-sent", fmt.Sprintf("%s: error %v, %d messages transmitted", desc, res.SendErr, len(res.Outs)), replay)
		}
	}
	saved := map[int]bool{}
	for _, e := range lg.since(0) {
		if e.kind == "save" && e.ok {
			saved[e.seq-100] = true
		}
	}
	for k := range onWire {
		if !saved[k] {
			c.Violate("C19/batch/transmitted-without-save", fmt.Sprintf("%s: message #%d was transmitted without a successful Save before", desc, k), replay)
		}
	}
}
