// C02 — parsing inverts serialization for every message shape and value.
package main

import (
	"bytes"
	"fmt"
	"regexp"
	"runtime"
	"strings"

	"github.com/b2broker/simplefix-go/fix"
	"github.com/b2broker/simplefix-go/fix/encoding"

	"verifharness/fixref"
	"verifharness/gen"
	"verifharness/vk"
)

var digits = regexp.MustCompile(`[0-9]+`)

func errClass(e string) string {
	e = digits.ReplaceAllString(e, "N")
	// keep the innermost cause
	if i := strings.LastIndex(e, ": "); i >= 0 && i+2 < len(e) {
		e = e[i+2:]
	}
	e = strings.Map(func(r rune) rune {
		if r == ' ' {
			return '-'
		}
		if r < 33 || r > 126 {
			return -1
		}
		return r
	}, e)
	if len(e) > 50 {
		e = e[:50]
	}
	return e
}

func parse(strict bool, into *fix.Message, wire []byte) (err error, pan string) {
	defer func() {
		if p := recover(); p != nil {
			pan = fmt.Sprint(p)
		}
	}()
	if strict {
		err = encoding.Unmarshal(into, wire)
	} else {
		err = encoding.NewDefaultUnmarshaller(false).Unmarshal(into, wire)
	}
	return
}

func main() {
	c := vk.Init("C02")
	c.Rule("case i: PRNG(seed,i) draws a template (unique tag per position, tags related by decimal suffix/prefix, groups nested to depth 3 with components in entries and entries in components, all 7 value types also inside entries), a population meeting the preconditions (first leaf of every entry populated, no empty value; decoy strings 't=' for template tags) and values; serialize with the library, parse into an empty message of the same template (strict and non-strict), compare the parsed tree with the population spec (typed), re-serialize and compare bytes; plus every tests/fix44 type populated through its exposed items and compared tree-to-tree. distinct = hash(shape, wire); non-trivial = contains a group or at least 3 value types")
	c.Assume("preconditions of the statement are enforced by the generator: one template position per tag, first field of each group entry populated, no empty values, no SOH in values")
	n := c.Pick(20000, 1000000)
	nf44 := c.Pick(300, 2000)
	o := gen.DefaultOpts()

	vk.Parallel(n, runtime.NumCPU(), func(i int) {
		r := c.Rand("c02", int64(i))
		t := gen.RandTemplate(r, o)
		mp := gen.RandPop(r, t, o)
		m, _ := mp.Build()
		wire, err, pan := gen.Serialize(m)
		if err != nil || pan != "" {
			return // C01/C17 matter
		}
		replay := map[string]interface{}{"generator": "template", "index": i, "seed": c.Seed, "population": vk.Trunc(mp.Describe(), 1500), "wire": vk.Trunc(fixref.Pretty(wire), 1500), "shape": vk.Trunc(t.Shape(), 600)}
		exp := mp.Expected(true)
		kinds := map[gen.Kind]bool{}
		hasGroup := false
		for _, e := range exp {
			if e.Val == nil {
				hasGroup = true
			} else {
				kinds[e.Val.K] = true
				if strings.Contains(e.Path, "/g") {
					c.SetAdd("value_types_in_group_entries", e.Val.K.String())
				}
			}
			c.Max("max_nesting", int64(strings.Count(e.Path, "/")))
		}
		c.Eval(vk.Hash64([]byte(t.Shape()), wire), hasGroup || len(kinds) >= 3)
		for _, strict := range []bool{true, false} {
			mode := "strict"
			if !strict {
				mode = "non-strict"
			}
			into := t.Empty()
			perr, ppan := parse(strict, into, wire)
			if ppan != "" {
				c.Violate("C02/parse-panic/"+errClass(ppan), mode+": parsing the library's own output panicked: "+ppan, replay)
				continue
			}
			if perr != nil {
				c.Violate("C02/parse-error/"+errClass(perr.Error()), mode+": parsing the library's own output failed: "+perr.Error(), replay)
				continue
			}
			var diffs []gen.Diff
			gen.CompareSpec(mp.Header, into.Header().Items(), "header", false, &diffs)
			gen.CompareSpec(mp.Body, into.Body(), "body", false, &diffs)
			gen.CompareSpec(mp.Trailer, into.Trailer().Items(), "trailer", false, &diffs)
			for _, d := range diffs {
				c.Violate("C02/"+d.Class, mode+": "+d.Detail, replay)
			}
			re, rerr, rpan := gen.Serialize(into)
			if rpan != "" || rerr != nil {
				c.Violate("C02/reserialize-failed", fmt.Sprintf("%s: re-serializing the parsed message failed: %v %s", mode, rerr, rpan), replay)
				continue
			}
			if !bytes.Equal(re, wire) && len(diffs) == 0 {
				c.Violate("C02/reserialized-bytes-differ", mode+": re-serialized bytes differ: "+vk.Trunc(fixref.Pretty(re), 600), replay)
			}
		}
		if c.WantSample() && hasGroup && i%500 == 1 {
			c.Sample(map[string]interface{}{"index": i, "population": vk.Trunc(mp.Describe(), 300), "wire": vk.Trunc(fixref.Pretty(wire), 300)})
		}
	})

	vk.Parallel(nf44*len(gen.F44Types), runtime.NumCPU(), func(i int) {
		ty := gen.F44Types[i%len(gen.F44Types)]
		r := c.Rand("c02-fix44", int64(i))
		m := ty.New()
		// every third object is used twice: populated, serialized and parsed, then populated again (values set in
		// place, entries added to the groups it already has) and serialized and parsed again
		uses := 1
		if i%3 == 0 {
			uses = 2
		}
		for use := 1; use <= uses; use++ {
			second := ""
			if use == 2 {
				second = "second-use/"
				c.Count("objects_populated_and_serialized_twice", 1)
			}
			exp, _ := gen.PopulateLib(r, m, o, true)
			wire, err, pan := gen.Serialize(m)
			if err != nil || pan != "" {
				return
			}
			var d []string
			hasGroup := false
			for _, e := range exp {
				d = append(d, e.Path+":"+e.String())
				if e.Val == nil {
					hasGroup = true
				}
			}
			replay := map[string]interface{}{"generator": "fix44/" + ty.Name, "index": i, "seed": c.Seed, "population": vk.Trunc(strings.Join(d, " | "), 1500), "wire": vk.Trunc(fixref.Pretty(wire), 1500)}
			c.Eval(vk.Hash64([]byte(ty.Name), wire), hasGroup || len(exp) >= 3)
			c.SetAdd("fix44_types", ty.Name)
			for _, strict := range []bool{true, false} {
				mode := "strict"
				if !strict {
					mode = "non-strict"
				}
				into := ty.New()
				perr, ppan := parse(strict, into, wire)
				if ppan != "" {
					c.Violate("C02/parse-panic/"+errClass(ppan), mode+": "+ty.Name+": parsing the library's own output panicked: "+ppan, replay)
					continue
				}
				if perr != nil {
					c.Violate("C02/parse-error/"+errClass(perr.Error()), mode+": "+ty.Name+": parsing the library's own output failed: "+perr.Error(), replay)
					continue
				}
				var diffs []string
				gen.CompareTrees(m.Header().Items(), into.Header().Items(), "header", &diffs)
				gen.CompareTrees(m.Body(), into.Body(), "body", &diffs)
				gen.CompareTrees(m.Trailer().Items(), into.Trailer().Items(), "trailer", &diffs)
				for _, df := range diffs {
					cls := "value-changed"
					switch {
					case strings.Contains(df, "value type"):
						cls = "type-lost"
					case strings.Contains(df, "entries in the original"):
						cls = "entry-count"
					case strings.Contains(df, "populated="):
						cls = "lost-or-phantom-value"
					}
					c.Violate("C02/fix44/"+second+cls, mode+": "+ty.Name+": "+df, replay)
				}
				re, rerr, rpan := gen.Serialize(into)
				if rpan != "" || rerr != nil {
					c.Violate("C02/reserialize-failed", fmt.Sprintf("%s: %s: re-serializing failed: %v %s", mode, ty.Name, rerr, rpan), replay)
				} else if !bytes.Equal(re, wire) && len(diffs) == 0 {
					c.Violate("C02/reserialized-bytes-differ", mode+": "+ty.Name+": re-serialized bytes differ: "+vk.Trunc(fixref.Pretty(re), 600), replay)
				}
			}
		}
	})
	c.Finish()
}
