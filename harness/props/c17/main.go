// C17 — exactly the populated fields reach the wire, once each, in template order.
package main

import (
	"fmt"
	"runtime"
	"strings"

	"verifharness/fixref"
	"verifharness/gen"
	"verifharness/vk"
)

func howClass(e string) string { return e }

func main() {
	c := vk.Init("C17")
	c.Rule("case i: PRNG(seed,i) draws a template (fields/components/groups, depth<=3, 7 value types, header/body/trailer), a population (each leaf populated with p=0.7 through one of 5 constructor/setter paths; Set(nil) un-population; group entries direct or via AsTemplate) and values; plus every tests/fix44 message type populated through the items it exposes. distinct = hash(template shape, wire bytes); non-trivial = at least one populated non-framing field")
	c.Assume("fixref tokenizer and the harness's expected-field computation are the trusted base")
	c.Assume("a Message is always given a header and a trailer component (possibly empty); never-SetHeader messages are not generated")
	n := c.Pick(20000, 500000)
	nf44 := c.Pick(200, 2000)
	o := gen.DefaultOpts()

	judge := func(kind string, idx int, ft fixref.FramingTags, shape string, exp []gen.Exp, wire []byte, err error, panicked string, desc string, buildErrs []string) {
		replay := map[string]interface{}{"generator": kind, "index": idx, "seed": c.Seed, "population": vk.Trunc(desc, 1500), "wire": vk.Trunc(fixref.Pretty(wire), 1500)}
		for _, e := range buildErrs {
			c.Violate("C17/setter-error/"+strings.SplitN(e, ":", 2)[0], "a public setter refused a value of its own type: "+e, replay)
		}
		if panicked != "" {
			c.Violate("C17/serialize-panic", "ToBytes panicked: "+panicked, replay)
			return
		}
		if err != nil {
			c.Violate("C17/serialize-error", "ToBytes error: "+err.Error(), replay)
			return
		}
		fs, terr := fixref.Tokenize(wire)
		if terr != nil {
			cls := "malformed"
			if strings.Contains(terr.Error(), "empty value") {
				cls = "empty-value"
			} else if strings.Contains(terr.Error(), "no tag") {
				cls = "empty-or-tagless-field"
			}
			c.Violate("C17/wire-"+cls, "wire is not a list of tag=value fields: "+terr.Error(), replay)
			return
		}
		inner, ok := gen.StripFraming(ft, fs)
		if !ok {
			c.Violate("C17/framing-fields-misplaced", "framing fields are not where they belong", replay)
			return
		}
		cls, detail := gen.MatchExpected(exp, inner)
		if cls != "" {
			if strings.Contains(cls, "/trailer/") {
				cls = "trailer-field-not-serialized:" + strings.SplitN(cls, "/", 2)[0]
			}
			c.Violate("C17/"+cls, detail, replay)
		}
		nontrivial := len(exp) > 0
		c.Eval(vk.Hash64([]byte(shape), wire), nontrivial)
		for _, e := range exp {
			if e.Val != nil {
				c.SetAdd("constructors_setters", e.Val.K.String()+"/"+gen.HowNames[e.How])
				c.SetAdd("parts_populated", string(e.Path[0]))
			} else {
				c.SetAdd("parts_populated", string(e.Path[0])+"-group")
			}
		}
		if c.WantSample() && len(exp) > 2 {
			c.Sample(map[string]interface{}{"generator": kind, "index": idx, "population": vk.Trunc(desc, 400), "wire": vk.Trunc(fixref.Pretty(wire), 400)})
		}
	}

	vk.Parallel(n, runtime.NumCPU(), func(i int) {
		r := c.Rand("c17", int64(i))
		t := gen.RandTemplate(r, o)
		mp := gen.RandPop(r, t, o)
		m, be := mp.Build()
		wire, err, pan := gen.Serialize(m)
		judge("template", i, t.FT, t.Shape(), mp.Expected(true), wire, err, pan, mp.Describe(), be.Errs)
		c.Count("unset_fields", int64(countUnset(mp)))
	})
	vk.Parallel(nf44*len(gen.F44Types), runtime.NumCPU(), func(i int) {
		ty := gen.F44Types[i%len(gen.F44Types)]
		r := c.Rand("c17-fix44", int64(i))
		m := ty.New()
		exp, errs := gen.PopulateLib(r, m, o, true)
		wire, err, pan := gen.Serialize(m)
		var d []string
		for _, e := range exp {
			d = append(d, e.Path+":"+e.String())
		}
		judge("fix44/"+ty.Name, i, fixref.Std, "fix44/"+ty.Name, exp, wire, err, pan, strings.Join(d, " | "), errs)
		c.SetAdd("fix44_types", ty.Name)
	})
	c.Finish()
	fmt.Println("done")
}

func countUnset(mp *gen.MsgPop) int {
	n := 0
	var walk func(ps []*gen.Pop)
	walk = func(ps []*gen.Pop) {
		for _, p := range ps {
			if p.Unset {
				n++
			}
			walk(p.Kids)
			for _, e := range p.Entries {
				walk(e)
			}
		}
	}
	walk(mp.Header)
	walk(mp.Body)
	walk(mp.Trailer)
	return n
}
