// C17 — exactly the populated fields reach the wire, once each, in template order.
package main

import (
	"bytes"

	"github.com/b2broker/simplefix-go/fix"
	"fmt"
	"reflect"
	"runtime"
	"sort"
	"strconv"
	"strings"

	"verifharness/fixref"
	"verifharness/gen"
	"verifharness/vk"
)

func howClass(e string) string { return e }

func main() {
	c := vk.Init("C17")
	c.Rule("case i: PRNG(seed,i) draws a template (fields/components/groups, depth<=3, 7 value types, header/body/trailer; every third template's trailer may hold components and groups too), a population (each leaf populated with p=0.7 through one of 5 constructor/setter paths; Set(nil) un-population; group entries direct or via AsTemplate) and values; plus every tests/fix44 message type populated through the items it exposes, plus the generated typed API by reflection (values set on group entries before AddEntry, on entries handed back by Entries(), and members replaced as a whole through Set<Component>/Set<Group> must be on the wire); plus Set calls with values of a wrong Go type on every leaf (they return an error and must leave the wire unchanged); plus updates AFTER a serialization on every fix44 message and every fourth template message: one body field set / un-set through its value, one group entry added, header untouched, serialized again after each step; plus re-population BY PARSING after a serialization (every populated body leaf of every fourth template message and every second fix44 message gets KeyValue.FromBytes of another canonical text of its type, all seven value types; the next ToBytes carries each once with the new text). distinct = hash(template shape, wire bytes); non-trivial = at least one populated non-framing field")
	c.Assume("fixref tokenizer and the harness's expected-field computation are the trusted base")
	c.Assume("a Message is always given a header and a trailer component (possibly empty); never-SetHeader messages are not generated")
	n := c.Pick(20000, 500000)
	nf44 := c.Pick(200, 2000)
	o := gen.DefaultOpts()

	judge := func(kind string, idx int, ft fixref.FramingTags, shape string, exp []gen.Exp, wire []byte, err error, panicked string, desc string, buildErrs []string) {
		replay := map[string]interface{}{"generator": kind, "index": idx, "seed": c.Seed, "population": vk.Trunc(desc, 1500), "wire": vk.Trunc(fixref.Pretty(wire), 1500)}
		for _, e := range buildErrs {
			c.Violate("C17/setter-error/"+strings.SplitN(e, ":", 2)[0], "a public setter refused a value of its own type: "+e, replay)
		}
		if panicked != "" {
			c.Violate("C17/serialize-panic", "ToBytes panicked: "+panicked, replay)
			return
		}
		if err != nil {
			c.Violate("C17/serialize-error", "ToBytes error: "+err.Error(), replay)
			return
		}
		fs, terr := fixref.Tokenize(wire)
		if terr != nil {
			cls := "malformed"
			if strings.Contains(terr.Error(), "empty value") {
				cls = "empty-value"
			} else if strings.Contains(terr.Error(), "no tag") {
				cls = "empty-or-tagless-field"
			}
			c.Violate("C17/wire-"+cls, "wire is not a list of tag=value fields: "+terr.Error(), replay)
			return
		}
		inner, ok := gen.StripFraming(ft, fs)
		if !ok {
			c.Violate("C17/framing-fields-misplaced", "framing fields are not where they belong", replay)
			return
		}
		cls, detail := gen.MatchExpected(exp, inner)
		if cls != "" {
			if strings.Contains(cls, "/trailer/") {
				cls = "trailer-field-not-serialized:" + strings.SplitN(cls, "/", 2)[0]
			}
			c.Violate("C17/"+cls, detail, replay)
		}
		nontrivial := len(exp) > 0
		c.Eval(vk.Hash64([]byte(shape), wire), nontrivial)
		for _, e := range exp {
			if e.Val != nil {
				c.SetAdd("constructors_setters", e.Val.K.String()+"/"+gen.HowNames[e.How])
				c.SetAdd("parts_populated", string(e.Path[0]))
			} else {
				c.SetAdd("parts_populated", string(e.Path[0])+"-group")
			}
		}
		if c.WantSample() && len(exp) > 2 {
			c.Sample(map[string]interface{}{"generator": kind, "index": idx, "population": vk.Trunc(desc, 400), "wire": vk.Trunc(fixref.Pretty(wire), 400)})
		}
	}

	vk.Parallel(n, runtime.NumCPU(), func(i int) {
		r := c.Rand("c17", int64(i))
		oo := o
		oo.TrailerNested = i%3 == 0 // trailers that hold components and repeating groups
		t := gen.RandTemplate(r, oo)
		mp := gen.RandPop(r, t, o)
		m, be := mp.Build()
		wire, err, pan := gen.Serialize(m)
		judge("template", i, t.FT, t.Shape(), mp.Expected(true), wire, err, pan, mp.Describe(), be.Errs)
		if err == nil && pan == "" && i%4 == 1 {
			refusedSets(c, "template", i, m, wire)
		}
		if err == nil && pan == "" && i%4 == 0 {
			updateAfterSerialization(c, "template", i, m, tagCountsOf(m))
		}
		if err == nil && pan == "" && i%4 == 2 {
			reparseAfterSerialization(c, "template", i, m, tagCountsOf(m))
		}
		c.Count("unset_fields", int64(countUnset(mp)))
	})
	vk.Parallel(nf44*len(gen.F44Types), runtime.NumCPU(), func(i int) {
		ty := gen.F44Types[i%len(gen.F44Types)]
		r := c.Rand("c17-fix44", int64(i))
		m := ty.New()
		exp, errs := gen.PopulateLib(r, m, o, true)
		wire, err, pan := gen.Serialize(m)
		var d []string
		for _, e := range exp {
			d = append(d, e.Path+":"+e.String())
		}
		judge("fix44/"+ty.Name, i, fixref.Std, "fix44/"+ty.Name, exp, wire, err, pan, strings.Join(d, " | "), errs)
		if err == nil && pan == "" && i%2 == 1 {
			refusedSets(c, "fix44/"+ty.Name, i, m, wire)
		}
		if err == nil && pan == "" && i%2 == 0 {
			updateAfterSerialization(c, "fix44/"+ty.Name, i, m, tagCountsOf(m))
		}
		if err == nil && pan == "" && i%2 == 1 {
			reparseAfterSerialization(c, "fix44/"+ty.Name, i, m, tagCountsOf(m))
		}
		c.SetAdd("fix44_types", ty.Name)
	})
	typedAPI(c)
	c.Finish()
	fmt.Println("done")
}

// firstStringLeaf finds the first String-valued field of an item list (through components, not into groups) and the
// first group.
func firstStringLeaf(items fix.Items) (*fix.KeyValue, *fix.Group) {
	var kvOut *fix.KeyValue
	var gOut *fix.Group
	var walk func(items fix.Items)
	walk = func(items fix.Items) {
		for _, it := range items {
			switch el := it.(type) {
			case *fix.KeyValue:
				if _, ok := el.Value.(*fix.String); ok && el != nil && kvOut == nil {
					kvOut = el
				}
			case *fix.Component:
				if el != nil {
					walk(el.Items())
				}
			case *fix.Group:
				if el != nil && gOut == nil {
					gOut = el
				}
			}
		}
	}
	walk(items)
	return kvOut, gOut
}

// tagCountsOf counts how many template positions carry each tag (fields and group count fields, entry templates included).
func tagCountsOf(m *fix.Message) map[string]int {
	return gen.TagCounts(m.Items())
}

func countField(fs []fixref.Field, tag, val string) (withTag, withVal int) {
	for _, f := range fs {
		if f.Tag == tag {
			withTag++
			if string(f.Val) == val {
				withVal++
			}
		}
	}
	return
}

// reparseAfterSerialization re-populates every populated BODY leaf (top level and inside components, not inside group
// entries) of a message object that has already been serialized BY PARSING — KeyValue.FromBytes with a different
// canonical text of the value's own type, the path encoding.Unmarshal takes when a used message object is filled
// again — and serializes once more: every such field is on the wire once, with the new text.
func reparseAfterSerialization(c *vk.Ctx, kind string, idx int, m *fix.Message, tagCount map[string]int) {
	replay := map[string]interface{}{"generator": kind, "index": idx, "seed": c.Seed}
	type want struct{ tag, text, typ string }
	var wants []want
	var walk func(items fix.Items)
	walk = func(items fix.Items) {
		for _, it := range items {
			switch el := it.(type) {
			case *fix.KeyValue:
				if el == nil || el.Value == nil || tagCount[el.Key] != 1 {
					continue
				}
				cur := string(el.Value.ToBytes())
				if cur == "" {
					continue
				}
				var text, typ string
				switch el.Value.(type) {
				case *fix.String:
					text, typ = fmt.Sprintf("rp-%d", idx), "String"
				case *fix.Raw:
					text, typ = fmt.Sprintf("rp-%d", idx), "Raw"
				case *fix.Int:
					text, typ = strconv.Itoa(800000+idx%90000), "Int"
				case *fix.Uint:
					text, typ = strconv.Itoa(800000+idx%90000), "Uint"
				case *fix.Float:
					text, typ = strconv.Itoa(8000+idx%900)+".25", "Float"
				case *fix.Time:
					text, typ = fmt.Sprintf("20240301-10:%02d:%02d.%03d", idx%60, (idx/60)%60, idx%1000), "Time"
				case *fix.Bool:
					text, typ = "Y", "Bool"
					if cur == "Y" {
						text = "N"
					}
				default:
					continue
				}
				if text == cur {
					continue
				}
				if err := el.FromBytes([]byte(text)); err != nil {
					c.Violate("C17/reparse-after-serialization/FromBytes-refused/"+typ, fmt.Sprintf("%s #%d: field %s (%s) refused the canonical text %q: %v", kind, idx, el.Key, typ, text, err), replay)
					continue
				}
				wants = append(wants, want{el.Key, text, typ})
			case *fix.Component:
				if el != nil {
					walk(el.Items())
				}
			}
		}
	}
	walk(m.Body())
	if len(wants) == 0 {
		return
	}
	wire, err, pan := gen.Serialize(m)
	if err != nil || pan != "" {
		c.Violate("C17/reparse-after-serialization/serialize-failed", fmt.Sprintf("%s #%d: err=%v panic=%s", kind, idx, err, pan), replay)
		return
	}
	fs, terr := fixref.Tokenize(wire)
	if terr != nil {
		c.Violate("C17/reparse-after-serialization/wire-malformed", fmt.Sprintf("%s #%d: %v", kind, idx, terr), replay)
		return
	}
	replay["wire"] = vk.Trunc(fixref.Pretty(wire), 1200)
	for _, w := range wants {
		c.Count("reparsed_after_serialization/"+w.typ, 1)
		if nt, nv := countField(fs, w.tag, w.text); nt != 1 || nv != 1 {
			c.Violate("C17/reparse-after-serialization/parsed-value-not-on-wire/"+w.typ, fmt.Sprintf("%s #%d: field %s (%s) of a message object that had been serialized before was populated again by parsing %q; the next ToBytes carries the tag %d times, with that text %d times", kind, idx, w.tag, w.typ, w.text, nt, nv), replay)
		}
	}
}

// updateAfterSerialization changes BODY content of a message object that has already been serialized, through the
// value setters and AddEntry only (the header is left exactly as it was), and serializes it again after every change:
// the new value is on the wire once, a value un-set with Set(nil) is gone, a new group entry is counted and present.
func updateAfterSerialization(c *vk.Ctx, kind string, idx int, m *fix.Message, tagCount map[string]int) {
	kv, g := firstStringLeaf(m.Body())
	replay := map[string]interface{}{"generator": kind, "index": idx, "seed": c.Seed}
	ser := func(step string) ([]fixref.Field, bool) {
		wire, err, pan := gen.Serialize(m)
		if err != nil || pan != "" {
			c.Violate("C17/update-after-serialization/serialize-failed", fmt.Sprintf("%s #%d after %s: err=%v panic=%s", kind, idx, step, err, pan), replay)
			return nil, false
		}
		fs, terr := fixref.Tokenize(wire)
		if terr != nil {
			c.Violate("C17/update-after-serialization/wire-malformed", fmt.Sprintf("%s #%d after %s: %v", kind, idx, step, terr), replay)
			return nil, false
		}
		replay["wire"] = vk.Trunc(fixref.Pretty(wire), 1200)
		return fs, true
	}
	if kv != nil && tagCount[kv.Key] == 1 {
		marker := fmt.Sprintf("upd-%d", idx)
		if err := kv.Value.Set(marker); err == nil {
			if fs, ok := ser("Set"); ok {
				c.Count("updates_after_serialization/Set", 1)
				if nt, nv := countField(fs, kv.Key, marker); nt != 1 || nv != 1 {
					c.Violate("C17/update-after-serialization/set-value-not-on-wire", fmt.Sprintf("%s #%d: field %s was set to %q on a message object that had been serialized before (header untouched); the next ToBytes carries the tag %d times, with that value %d times", kind, idx, kv.Key, marker, nt, nv), replay)
					return
				}
			}
			_ = kv.Value.Set(nil)
			if fs, ok := ser("Set(nil)"); ok {
				c.Count("updates_after_serialization/Set(nil)", 1)
				if nt, _ := countField(fs, kv.Key, marker); nt != 0 {
					c.Violate("C17/update-after-serialization/unset-value-still-on-wire", fmt.Sprintf("%s #%d: field %s was un-set with Set(nil) after a serialization; the next ToBytes still carries it", kind, idx, kv.Key), replay)
					return
				}
			}
		}
	}
	if g != nil && tagCount[g.NoTag()] == 1 {
		entry := g.AsTemplate()
		var leaf *fix.KeyValue
		for _, it := range entry {
			if el, ok := it.(*fix.KeyValue); ok && el != nil {
				leaf = el
			}
			break // the first member of an entry is its delimiter field
		}
		if leaf == nil || tagCount[leaf.Key] != 1 {
			return
		}
		marker := strconv.Itoa(700000 + idx%90000)
		checkValue := false
		switch leaf.Value.(type) {
		case *fix.String, *fix.Int, *fix.Raw, *fix.Uint:
			checkValue = true // these render the marker text unchanged
		}
		if err := leaf.FromBytes([]byte(marker)); err != nil {
			return
		}
		if !checkValue {
			// other value types: populate the first field with a value of its type; only the count field is judged
			marker = string(leaf.Value.ToBytes())
			if marker == "" {
				return
			}
		}
		before := len(g.Entries())
		g.AddEntry(entry)
		if fs, ok := ser("AddEntry"); ok {
			c.Count("updates_after_serialization/AddEntry", 1)
			_, nc := countField(fs, g.NoTag(), strconv.Itoa(before+1))
			_, nv := countField(fs, leaf.Key, marker)
			if nc != 1 || (checkValue && nv != 1) || nv < 1 {
				c.Violate("C17/update-after-serialization/added-entry-not-on-wire", fmt.Sprintf("%s #%d: an entry (first field %s=%s) was added to group %s (%d entries before) after a serialization; the next ToBytes has count field %s=%d %d times and the entry's first field %d times", kind, idx, leaf.Key, marker, g.NoTag(), before, g.NoTag(), before+1, nc, nv), replay)
			}
		}
	}
}

// refusedSets calls Value.Set with values of Go types the field's value type refuses (it returns an error) on every
// leaf of the message — populated or not, top level and inside group entries — and serializes again: a refused Set
// must leave the wire as it was.
func refusedSets(c *vk.Ctx, kind string, idx int, m *fix.Message, before []byte) {
	wrong := func(v fix.Value) []interface{} {
		switch v.(type) {
		case *fix.String:
			return []interface{}{42, []byte("x"), struct{}{}}
		case *fix.Int:
			return []interface{}{int64(8), "8", 8.0, struct{}{}}
		case *fix.Uint:
			return []interface{}{200, "200", int64(7)}
		case *fix.Float:
			return []interface{}{"1.5", 3, struct{}{}}
		case *fix.Bool:
			return []interface{}{"Y", 1, struct{}{}}
		case *fix.Time:
			return []interface{}{"20240101-00:00:00.000", 5}
		case *fix.Raw:
			return []interface{}{"text", 7}
		}
		return nil
	}
	refused := 0
	var walk func(items fix.Items)
	walk = func(items fix.Items) {
		for _, it := range items {
			switch el := it.(type) {
			case *fix.KeyValue:
				if el == nil || el.Value == nil {
					continue
				}
				for _, w := range wrong(el.Value) {
					if err := el.Value.Set(w); err != nil {
						refused++
					} else {
						return // the type accepts this after all: nothing to learn from this message
					}
				}
			case *fix.Component:
				if el != nil {
					walk(el.Items())
				}
			case *fix.Group:
				if el != nil {
					for _, e := range el.Entries() {
						walk(e)
					}
				}
			}
		}
	}
	walk(m.Items())
	if refused == 0 {
		return
	}
	after, err, pan := gen.Serialize(m)
	c.Count("refused_set_calls", int64(refused))
	c.Count("messages_reserialized_after_refused_sets", 1)
	if err != nil || pan != "" || !bytes.Equal(before, after) {
		c.Violate("C17/refused-set-changed-the-wire", fmt.Sprintf("%s #%d: %d Set calls with values of a wrong Go type were refused with an error, yet the message serializes differently afterwards (err=%v panic=%s): before %s / after %s", kind, idx, refused, err, pan, vk.Trunc(fixref.Pretty(before), 300), vk.Trunc(fixref.Pretty(after), 300)),
			map[string]interface{}{"generator": kind, "index": idx, "seed": c.Seed})
	}
}

func countUnset(mp *gen.MsgPop) int {
	n := 0
	var walk func(ps []*gen.Pop)
	walk = func(ps []*gen.Pop) {
		for _, p := range ps {
			if p.Unset {
				n++
			}
			walk(p.Kids)
			for _, e := range p.Entries {
				walk(e)
			}
		}
	}
	walk(mp.Header)
	walk(mp.Body)
	walk(mp.Trailer)
	return n
}

// ---------------------------------------------------------------------------
// typed API of the generated reference package, driven by reflection: values put in through
// the generated setters of group entries (also entries obtained back from Entries() after
// AddEntry, and members replaced as a whole) must reach the wire.

var ctorByType = map[reflect.Type]reflect.Value{}

func buildTyped(t reflect.Type, depth int) (reflect.Value, bool) {
	ctor, ok := ctorByType[t]
	if !ok || depth > 4 {
		return reflect.Value{}, false
	}
	ft := ctor.Type()
	var args []reflect.Value
	for i := 0; i < ft.NumIn(); i++ {
		pt := ft.In(i)
		switch pt.Kind() {
		case reflect.String:
			args = append(args, reflect.ValueOf("arg"+strconv.Itoa(i)))
		case reflect.Int:
			args = append(args, reflect.ValueOf(40+i))
		case reflect.Float64:
			args = append(args, reflect.ValueOf(1.25))
		case reflect.Bool:
			args = append(args, reflect.ValueOf(true))
		case reflect.Ptr:
			v, ok := buildTyped(pt, depth+1)
			if !ok {
				return reflect.Value{}, false
			}
			args = append(args, v)
		default:
			return reflect.Value{}, false
		}
	}
	return ctor.Call(args)[0], true
}

// setMarker puts the marker into the first string-typed field the value offers a setter for.
func setMarker(v reflect.Value, marker string) (string, bool) {
	t := v.Type()
	for i := 0; i < t.NumMethod(); i++ {
		m := t.Method(i)
		if !strings.HasPrefix(m.Name, "Set") || strings.HasPrefix(m.Name, "SetField") || m.Type.NumIn() != 2 || m.Type.In(1).Kind() != reflect.String {
			continue
		}
		if m.Type.NumOut() != 1 || m.Type.Out(0) != t {
			continue
		}
		v.Method(i).Call([]reflect.Value{reflect.ValueOf(marker)})
		return m.Name, true
	}
	return "", false
}

func typedAPI(c *vk.Ctx) {
	for _, f := range gen.F44Ctors {
		ft := reflect.TypeOf(f)
		if ft.Kind() == reflect.Func && ft.NumOut() == 1 {
			ctorByType[ft.Out(0)] = reflect.ValueOf(f)
		}
	}
	names := make([]string, 0, len(gen.F44TypedMessages))
	for n := range gen.F44TypedMessages {
		names = append(names, n)
	}
	sort.Strings(names)
	mk := 0
	marker := func() string { mk++; return "MRK" + strconv.Itoa(mk) + "x" }
	onWire := func(msg reflect.Value, marker string) (bool, string) {
		out := msg.MethodByName("ToBytes").Call(nil)
		b := out[0].Bytes()
		return bytes.Contains(b, []byte("="+marker+"\x01")), fixref.Pretty(b)
	}
	var visitGroups func(msgName string, msg reflect.Value, holder reflect.Value, path string, depth int)
	visitGroups = func(msgName string, msg reflect.Value, holder reflect.Value, path string, depth int) {
		if depth > 2 {
			return
		}
		ht := holder.Type()
		for i := 0; i < ht.NumMethod(); i++ {
			m := ht.Method(i)
			if m.Type.NumIn() != 1 || m.Type.NumOut() != 1 || m.Type.Out(0).Kind() != reflect.Ptr {
				continue
			}
			gt := m.Type.Out(0)
			add, ok := gt.MethodByName("AddEntry")
			if !ok || add.Type.NumIn() != 2 {
				continue
			}
			if _, ok := gt.MethodByName("Entries"); !ok {
				continue
			}
			entryT := add.Type.In(1)
			entry, ok := buildTyped(entryT, 0)
			if !ok {
				continue
			}
			m0 := marker()
			setter0, ok := setMarker(entry, m0)
			if !ok {
				continue
			}
			where := path + "." + m.Name + "()"
			before := holder.Method(i).Call(nil)[0].MethodByName("Entries").Call(nil)[0].Len()
			holder.Method(i).Call(nil)[0].MethodByName("AddEntry").Call([]reflect.Value{entry})
			c.Count("typed_api_checks", 1)
			c.Eval(vk.Hash64([]byte("typed"), []byte(msgName+where+setter0)), true)
			if ok, wire := onWire(msg, m0); !ok {
				c.Violate("C17/typed-api/value-set-before-AddEntry-not-on-wire", fmt.Sprintf("%s%s.AddEntry(entry) with entry.%s(%q): the value is not on the wire: %s", msgName, where, setter0, m0, vk.Trunc(wire, 400)), map[string]interface{}{"message": msgName, "path": where})
				continue
			}
			// the entry as handed back by Entries()
			ents := holder.Method(i).Call(nil)[0].MethodByName("Entries").Call(nil)[0]
			if ents.Len() != before+1 {
				c.Violate("C17/typed-api/entries-count", fmt.Sprintf("%s%s.Entries() has %d entries after AddEntry on a group of %d", msgName, where, ents.Len(), before), nil)
				continue
			}
			last := before
			e0 := ents.Index(last)
			et := e0.Type()
			// scalar setter on the handed-back entry
			m1 := marker()
			if setter1, ok := setMarker(e0, m1); ok {
				c.Count("typed_api_checks", 1)
				if ok, wire := onWire(msg, m1); !ok {
					c.Violate("C17/typed-api/setter-on-entry-from-Entries-lost/scalar", fmt.Sprintf("%s%s.Entries()[0].%s(%q): the value is not on the wire: %s", msgName, where, setter1, m1, vk.Trunc(wire, 400)), map[string]interface{}{"message": msgName, "path": where})
				}
			}
			// member-replacing setters (components and nested groups) on the handed-back entry
			for k := 0; k < et.NumMethod(); k++ {
				sm := et.Method(k)
				if !strings.HasPrefix(sm.Name, "Set") || sm.Type.NumIn() != 2 || sm.Type.In(1).Kind() != reflect.Ptr {
					continue
				}
				argT := sm.Type.In(1)
				arg, ok := buildTyped(argT, 0)
				if !ok {
					continue
				}
				m2 := marker()
				placed := false
				if add2, isGrp := argT.MethodByName("AddEntry"); isGrp {
					sub, ok := buildTyped(add2.Type.In(1), 0)
					if ok {
						if _, ok := setMarker(sub, m2); ok {
							arg.MethodByName("AddEntry").Call([]reflect.Value{sub})
							placed = true
						}
					}
				} else if _, ok := setMarker(arg, m2); ok {
					placed = true
				}
				if !placed {
					continue
				}
				// fetch the entry again each time, the way an application would
				e := holder.Method(i).Call(nil)[0].MethodByName("Entries").Call(nil)[0].Index(last)
				e.MethodByName(sm.Name).Call([]reflect.Value{arg})
				c.Count("typed_api_checks", 1)
				c.SetAdd("typed_member_setters_on_entries", et.Elem().Name()+"."+sm.Name)
				if ok, wire := onWire(msg, m2); !ok {
					c.Violate("C17/typed-api/setter-on-entry-from-Entries-lost/member", fmt.Sprintf("%s%s.Entries()[0].%s(<%s populated with %q>): the value is not on the wire: %s", msgName, where, sm.Name, argT.Elem().Name(), m2, vk.Trunc(wire, 500)), map[string]interface{}{"message": msgName, "path": where, "setter": sm.Name})
				}
			}
			// nested groups inside the entry
			visitGroups(msgName, msg, holder.Method(i).Call(nil)[0].MethodByName("Entries").Call(nil)[0].Index(last), where+".Entries()[last]", depth+1)
		}
	}
	for _, n := range names {
		ctor := reflect.ValueOf(gen.F44TypedMessages[n])
		msg := ctor.Call(nil)[0]
		visitGroups(n, msg, msg, n, 0)
		// groups inside the header and inside body components
		mt := msg.Type()
		for i := 0; i < mt.NumMethod(); i++ {
			m := mt.Method(i)
			if m.Type.NumIn() == 1 && m.Type.NumOut() == 1 && m.Type.Out(0).Kind() == reflect.Ptr && (m.Name == "Header" || strings.HasPrefix(m.Type.Out(0).Elem().Name(), "Instrument") || strings.HasPrefix(m.Type.Out(0).Elem().Name(), "Underlying")) {
				comp := msg.Method(i).Call(nil)[0]
				if comp.IsValid() && !comp.IsNil() {
					visitGroups(n, msg, comp, n+"."+m.Name+"()", 1)
				}
			}
		}
	}
}
