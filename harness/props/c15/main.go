// C15 — Logout is acknowledged once; Stop ends on the peer's answer or the deadline.
package main

import (
	"errors"
	"fmt"
	"github.com/b2broker/simplefix-go/fix"
	"github.com/b2broker/simplefix-go/storages/memory"
	"strings"
	"sync"
	"sync/atomic"
	"time"

	simplefixgo "github.com/b2broker/simplefix-go"
	"github.com/b2broker/simplefix-go/session"
	fixgen "github.com/b2broker/simplefix-go/tests/fix44"
	"github.com/b2broker/simplefix-go/utils"

	"verifharness/rig"
	"verifharness/vk"
)

var maxJitter int64 // ns, measured by the canary

func canary(stop chan struct{}) {
	for {
		t0 := time.Now()
		select {
		case <-stop:
			return
		case <-time.After(5 * time.Millisecond):
		}
		if d := int64(time.Since(t0) - 5*time.Millisecond); d > atomic.LoadInt64(&maxJitter) {
			atomic.StoreInt64(&maxJitter, d)
		}
	}
}

func types(outs []rig.Out) string {
	var t []string
	for _, o := range outs {
		t = append(t, o.Type)
	}
	return "[" + strings.Join(t, ",") + "]"
}

func count(outs []rig.Out, ty string) int {
	n := 0
	for _, o := range outs {
		if o.Type == ty {
			n++
		}
	}
	return n
}

type scenario struct {
	role         rig.Role
	variant      string // peer-logout | local-logout | stop-answered | stop-unanswered
	closeTO      time.Duration
	pre          int  // valid inbound messages before the action
	between      int  // other inbound messages between the local action and the peer's answer
	appEvent     bool // application registered an EventLogout handler before the action
	probePending bool // N=1 and 2.3 s of silence first: the session's own TestRequest is pending when the application acts
	lateAnswer   bool // N=1 and 2.3 s of silence AFTER the local action: the session's own TestRequest goes out while the Logout answer is outstanding
}

func (s scenario) String() string {
	return fmt.Sprintf("%s %s closeTimeout=%v pre=%d between=%d appLogoutHandler=%v ownTestRequestPending=%v", s.role, s.variant, s.closeTO, s.pre, s.between, s.appEvent, s.probePending) + map[bool]string{false: "", true: " answerAfterOwnTestRequest=true"}[s.lateAnswer]
}

func run(c *vk.Ctx, sc scenario, idx int) {
	desc := sc.String()
	replay := map[string]interface{}{"scenario": desc, "index": idx, "seed": c.Seed}
	var appLogout int32
	hbInt, lims := 30, &session.IntLimits{Min: 5, Max: 60}
	if sc.probePending || sc.lateAnswer {
		hbInt, lims = 1, &session.IntLimits{Min: 1, Max: 60}
	}
	// every fourth scenario: the application watches Logout messages with two incoming and two outgoing observers
	// registered before Session.Run, and takes them out again (in registration order) once the session is logged on
	observers := idx%4 == 1
	var obsIn, obsOut [2]int64
	var before func(h *simplefixgo.DefaultHandler, s *session.Session)
	if observers {
		desc += " logout-observers-registered-before-Run-and-removed-after-logon"
		replay["scenario"] = desc
		before = func(h *simplefixgo.DefaultHandler, _ *session.Session) {
			for k := 0; k < 2; k++ {
				obsIn[k] = h.HandleIncoming("5", func([]byte) bool { return true })
				obsOut[k] = h.HandleOutgoing("5", func(simplefixgo.SendingMessage) bool { return true })
			}
		}
	}
	r, err := rig.NewStepRig(rig.StepCfg{Role: sc.role, HeartBtInt: hbInt, Limits: lims, CloseTimeout: sc.closeTO, BeforeRun: before,
		AfterRun: func(h *simplefixgo.DefaultHandler, s *session.Session) {
			if sc.appEvent {
				// the application's logout callback looks at the session, as a re-logon policy would
				s.OnChangeState(utils.EventLogout, func() bool {
					_ = s.IsLogged()
					_ = s.Context().Err()
					atomic.AddInt32(&appLogout, 1)
					return true
				})
			}
		}})
	if err != nil {
		c.Inconclusive("rig: " + err.Error())
		return
	}
	defer r.Close()
	p := rig.NewPeer()
	if res := r.Inbound(p.Logon(hbInt, "0")); !res.Logged {
		c.Inconclusive("no logon: " + desc)
		return
	}
	if observers {
		for k := 0; k < 2; k++ {
			_ = r.H.RemoveIncomingHandler("5", obsIn[k])
			_ = r.H.RemoveOutgoingHandler("5", obsOut[k])
		}
		c.Count("scenarios_with_logout_observers_removed_after_logon", 1)
	}
	for k := 0; k < sc.pre; k++ {
		if k%2 == 0 {
			r.Inbound(p.Heartbeat())
		} else {
			r.Do(func() error { return r.S.Send(fixgen.CreateMarketDataRequestReject("x")) })
		}
	}
	nontrivial := true
	defer func() { c.Eval(vk.Hash64([]byte(desc)), nontrivial) }()
	if sc.probePending {
		// the peer has been silent for N+1 s: the session's own TestRequest is out when the application acts
		time.Sleep(2300 * time.Millisecond)
		own := 0
		for _, o := range r.AllOuts() {
			if o.Type == "1" {
				own++
			}
		}
		if own == 0 {
			c.Count("scenarios_without_own_testrequest", 1)
			nontrivial = false
			return
		}
		c.Count("actions_while_own_testrequest_pending", 1)
	}
	c.SetAdd("variants", sc.variant+"/"+sc.role.String())
	switch sc.variant {
	case "peer-logout":
		res := r.Inbound(p.Logout())
		if res.TimedOut {
			c.Inconclusive("watchdog: " + desc)
			return
		}
		c.Count("logouts_counted", int64(count(res.Outs, "5")))
		if count(res.Outs, "5") != 1 || len(res.Outs) != 1 {
			c.Violate("C15/peer-logout-not-acknowledged-once/"+sc.role.String(), desc+": a Logout from the peer while logged on was answered with "+types(res.Outs)+", want exactly one Logout", replay)
		}
		if res.Logged {
			c.Violate("C15/still-logged-after-peer-logout/"+sc.role.String(), desc+": IsLogged is still true after the peer's Logout", replay)
		}
		// a second Logout from the peer must not be acknowledged as if logged on
		res2 := r.Inbound(p.Logout())
		if count(res2.Outs, "5") != 0 {
			c.Violate("C15/second-logout-acknowledged/"+sc.role.String(), desc+": a repeated peer Logout (session no longer logged on) drew "+types(res2.Outs), replay)
		}
	case "local-logout":
		res := r.Do(func() error { return r.S.Logout() })
		if count(res.Outs, "5") != 1 {
			c.Violate("C15/local-logout-sends-not-one-logout/"+sc.role.String(), desc+": Session.Logout emitted "+types(res.Outs), replay)
		}
		for k := 0; k < sc.between; k++ {
			r.Inbound(p.Heartbeat())
		}
		if sc.lateAnswer {
			// the peer stays silent for N+1 s after our Logout: the session probes it with a TestRequest while the
			// answer to its Logout is outstanding, and the answer arrives after that
			seen := len(r.AllOuts())
			time.Sleep(2300 * time.Millisecond)
			own := 0
			for _, o := range r.AllOuts()[seen:] {
				if o.Type == "1" {
					own++
				}
			}
			if own == 0 {
				c.Count("scenarios_without_own_testrequest", 1)
				nontrivial = false
				return
			}
			c.Count("logout_answers_after_own_testrequest", 1)
		}
		evBefore := len(r.AllEvents())
		res = r.Inbound(p.Logout())
		if res.TimedOut {
			if time.Duration(atomic.LoadInt64(&maxJitter)) > 100*time.Millisecond {
				c.Inconclusive("watchdog: " + desc)
				return
			}
			// a step that takes microseconds did not finish in 5 s on a quiet machine: the handler loop is stuck while
			// serving the peer's answer, so the logout is never signalled
			c.Violate("C15/peer-answer-to-own-logout-never-finishes-being-served/"+sc.role.String(), fmt.Sprintf("%s: 5 s after the peer's Logout answer was handed to the session the handler loop had not finished serving it (state lock held: %v; application's EventLogout handler ran %d times)", desc, res.StateLocked, atomic.LoadInt32(&appLogout)), replay)
			return
		}
		c.Count("logouts_counted", int64(count(res.Outs, "5")))
		if count(res.Outs, "5") != 0 {
			c.Violate("C15/second-logout-sent-after-own-logout/"+sc.role.String(), desc+": the peer's answer to our Logout drew "+types(res.Outs)+", want no further Logout", replay)
		}
		got := 0
		for _, e := range r.AllEvents()[evBefore:] {
			if e == utils.EventLogout {
				got++
			}
		}
		if got != 1 {
			c.Violate("C15/logout-event-not-signalled/"+sc.role.String(), fmt.Sprintf("%s: EventLogout fired %d times when the peer answered our Logout", desc, got), replay)
		}
		if sc.appEvent && atomic.LoadInt32(&appLogout) != 1 {
			c.Violate("C15/logout-event-not-signalled-to-application/"+sc.role.String(), fmt.Sprintf("%s: the application's EventLogout handler ran %d times", desc, atomic.LoadInt32(&appLogout)), replay)
		}
		if res.Logged {
			c.Violate("C15/still-logged-after-logout-exchange/"+sc.role.String(), desc+": IsLogged true after the logout exchange", replay)
		}
	case "stop-answered", "stop-unanswered":
		tStop := time.Now()
		res := r.Do(func() error { return r.S.Stop() })
		if res.TimedOut {
			c.Inconclusive("watchdog in Stop: " + desc)
			return
		}
		if res.SendErr != nil {
			c.Violate("C15/stop-error", desc+": Stop returned "+res.SendErr.Error(), replay)
			return
		}
		c.Count("logouts_counted", int64(count(res.Outs, "5")))
		if count(res.Outs, "5") != 1 {
			c.Violate("C15/stop-sends-not-one-logout/"+sc.role.String(), desc+": Stop emitted "+types(res.Outs)+", want exactly one Logout", replay)
		}
		done := r.S.Context().Done()
		if sc.variant == "stop-answered" {
			for k := 0; k < sc.between; k++ {
				r.Inbound(p.Heartbeat())
			}
			if sc.lateAnswer {
				// the peer stays silent for N+1 s after our Logout: the session probes it with a TestRequest while the
				// answer to its Logout is outstanding, and the answer arrives after that
				seen := len(r.AllOuts())
				time.Sleep(2300 * time.Millisecond)
				own := 0
				for _, o := range r.AllOuts()[seen:] {
					if o.Type == "1" {
						own++
					}
				}
				if own == 0 {
					c.Count("scenarios_without_own_testrequest", 1)
					nontrivial = false
					return
				}
				c.Count("logout_answers_after_own_testrequest", 1)
			}
			select {
			case <-done:
				// the deadline path won the race against our answer; nothing to judge about the answer path
				c.Count("stop_answered_but_deadline_first", 1)
				nontrivial = false
				return
			default:
			}
			ans := r.Inbound(p.Logout())
			tAns := time.Now()
			if count(ans.Outs, "5") != 0 {
				c.Violate("C15/second-logout-sent-after-own-logout/"+sc.role.String(), desc+": the peer's answer to Stop's Logout drew "+types(ans.Outs), replay)
			}
			j0 := time.Duration(atomic.LoadInt64(&maxJitter))
			bound := 250*time.Millisecond + 3*j0
			select {
			case <-done:
				lat := time.Since(tAns)
				c.Max("max_cancel_latency_after_answer_us", lat.Microseconds())
			case <-time.After(bound):
				j1 := time.Duration(atomic.LoadInt64(&maxJitter))
				if j1 > 100*time.Millisecond {
					c.Inconclusive(fmt.Sprintf("scheduler jitter %v while waiting for cancellation: %s", j1, desc))
					return
				}
				// how long does it really take? (bounded by the close timeout)
				var lat time.Duration
				select {
				case <-done:
					lat = time.Since(tAns)
				case <-time.After(sc.closeTO + 2*time.Second):
					lat = -1
				}
				c.Violate("C15/stop-not-cancelled-on-answer/"+sc.role.String(), fmt.Sprintf("%s: the peer's Logout answer arrived %v after Stop, but the session context was not cancelled within %v of it (cancelled after %v; -1 = never within closeTimeout+2s)", desc, tAns.Sub(tStop).Round(time.Millisecond), bound, lat.Round(time.Millisecond)), replay)
			}
			if sc.appEvent {
				time.Sleep(20 * time.Millisecond)
				if atomic.LoadInt32(&appLogout) != 1 {
					c.Violate("C15/logout-event-not-signalled-to-application/after-stop/"+sc.role.String(), fmt.Sprintf("%s: the application's EventLogout handler (registered before Stop) ran %d times when the peer answered", desc, atomic.LoadInt32(&appLogout)), replay)
				}
			}
		} else {
			j0 := time.Duration(atomic.LoadInt64(&maxJitter))
			bound := sc.closeTO + 300*time.Millisecond + 3*j0
			select {
			case <-done:
				c.Max("max_cancel_latency_past_deadline_us", (time.Since(tStop) - sc.closeTO).Microseconds())
			case <-time.After(time.Until(tStop.Add(bound))):
				if time.Duration(atomic.LoadInt64(&maxJitter)) > 100*time.Millisecond {
					c.Inconclusive("scheduler jitter while waiting for the deadline: " + desc)
					return
				}
				c.Violate("C15/stop-not-cancelled-at-deadline/"+sc.role.String(), fmt.Sprintf("%s: context still alive %v after Stop (close timeout %v)", desc, time.Since(tStop).Round(time.Millisecond), sc.closeTO), replay)
			}
		}
	}
	if c.WantSample() && idx%7 == 0 {
		c.Sample(desc)
	}
}

// stalled: the outgoing path is blocked when Stop() is called (nobody takes messages from the handler's full outgoing
// buffer, as with a peer that stopped reading): the Logout cannot leave, no answer ever comes, and the session context
// must still be cancelled when the close timeout has elapsed.
func stalled(c *vk.Ctx, role rig.Role, closeTO time.Duration, idx int) {
	desc := fmt.Sprintf("%s stop-with-stalled-outgoing-path closeTimeout=%v (handler buffer 1, full, nobody reads it)", role, closeTO)
	replay := map[string]interface{}{"scenario": desc, "index": idx, "seed": c.Seed}
	r, err := rig.NewStepRig(rig.StepCfg{Role: role, HeartBtInt: 30, Limits: &session.IntLimits{Min: 5, Max: 60}, CloseTimeout: closeTO, BufferSize: 1, SentinelBarrier: true})
	if err != nil {
		c.Inconclusive("rig: " + err.Error())
		return
	}
	defer r.Close()
	p := rig.NewPeer()
	r.Inbound(p.Logon(30, "0"))
	for w := 0; !r.S.IsLogged(); w++ {
		if w > 2000 {
			c.Inconclusive("no logon: " + desc)
			return
		}
		time.Sleep(time.Millisecond)
	}
	time.Sleep(20 * time.Millisecond)
	release := r.HoldOutgoing()
	defer release()
	filled := make(chan error, 1)
	go func() { filled <- r.S.Send(fixgen.CreateMarketDataRequestReject("fills-the-buffer")) }()
	select {
	case <-filled:
	case <-time.After(2 * time.Second):
		c.Inconclusive("could not fill the buffer: " + desc)
		return
	}
	done := r.S.Context().Done()
	tStop := time.Now()
	go func() { _ = r.S.Stop() }()
	j0 := time.Duration(atomic.LoadInt64(&maxJitter))
	bound := closeTO + 300*time.Millisecond + 3*j0
	c.Eval(vk.Hash64([]byte(desc)), true)
	c.Count("stops_with_stalled_outgoing_path", 1)
	select {
	case <-done:
		c.Max("max_cancel_latency_past_deadline_us", (time.Since(tStop) - closeTO).Microseconds())
	case <-time.After(bound):
		if time.Duration(atomic.LoadInt64(&maxJitter)) > 100*time.Millisecond {
			c.Inconclusive("scheduler jitter while waiting for the deadline: " + desc)
			return
		}
		c.Violate("C15/stop-not-cancelled-at-deadline/stalled-outgoing-path/"+role.String(), fmt.Sprintf("%s: context still alive %v after Stop", desc, time.Since(tStop).Round(time.Millisecond)), replay)
	}
}

// connLossBehindLogout: the peer's Logout is already received (queued behind a message the application is still
// working on) when the loss of the connection is reported to the handler. Whichever of the two the handler loop takes
// first, the Logout was received and has to be processed: the session is no longer logged on, and a session that had
// sent the Logout itself signals the logout event.
func connLossBehindLogout(c *vk.Ctx, role rig.Role, variant string, trial int) {
	desc := fmt.Sprintf("%s %s: peer Logout queued behind a slow application handler, connection loss reported right behind it (trial %d)", role, variant, trial)
	replay := map[string]interface{}{"scenario": desc, "seed": c.Seed}
	var appLogout int32
	release := make(chan struct{})
	entered := make(chan struct{}, 1)
	r, err := rig.NewStepRig(rig.StepCfg{Role: role, HeartBtInt: 30, Limits: &session.IntLimits{Min: 5, Max: 60}, CloseTimeout: 5 * time.Second, BufferSize: 4, SentinelBarrier: true,
		AfterRun: func(h *simplefixgo.DefaultHandler, s *session.Session) {
			s.OnChangeState(utils.EventLogout, func() bool { atomic.AddInt32(&appLogout, 1); return true })
			h.HandleIncoming("V", func([]byte) bool {
				select {
				case entered <- struct{}{}:
				default:
				}
				<-release
				return true
			})
		}})
	if err != nil {
		c.Inconclusive("rig: " + err.Error())
		return
	}
	defer r.Close()
	p := rig.NewPeer()
	r.Inbound(p.Logon(30, "0"))
	for w := 0; !r.S.IsLogged(); w++ {
		if w > 2000 {
			c.Inconclusive("no logon: " + desc)
			close(release)
			return
		}
		time.Sleep(time.Millisecond)
	}
	time.Sleep(10 * time.Millisecond)
	if variant == "own-logout" {
		go func() { _ = r.S.Logout() }()
		time.Sleep(10 * time.Millisecond)
	}
	go r.H.ServeIncoming(p.App("slow"))
	select {
	case <-entered:
	case <-time.After(2 * time.Second):
		c.Inconclusive("application handler not reached: " + desc)
		close(release)
		return
	}
	r.H.ServeIncoming(p.Logout()) // queued: the loop is inside the application handler
	go r.H.StopWithError(simplefixgo.ErrConnClosed)
	time.Sleep(5 * time.Millisecond)
	close(release)
	// the loop ends once it has taken the error
	deadline := time.Now().Add(2 * time.Second)
	for time.Now().Before(deadline) {
		if r.S.Context().Err() != nil || !r.S.IsLogged() {
			break
		}
		time.Sleep(time.Millisecond)
	}
	time.Sleep(30 * time.Millisecond)
	c.Eval(vk.Hash64([]byte(desc)), true)
	c.Count("connection_loss_behind_a_queued_logout", 1)
	if variant == "own-logout" {
		if atomic.LoadInt32(&appLogout) == 0 {
			c.Violate("C15/logout-event-not-signalled-to-application/answer-received-before-connection-loss/"+role.String(), desc+": the peer's answer to the session's own Logout had been received, the logout event was not signalled", replay)
		}
	} else if r.S.IsLogged() {
		c.Violate("C15/still-logged-after-peer-logout/connection-loss-right-behind-it/"+role.String(), desc+": IsLogged is still true although the peer's Logout had been received", replay)
	}
}

// reactingApplication: a send of the session (the Heartbeat that answers a TestRequest) fails on a transient store
// fault; the session reports it (OnError) and the application reacts inside that callback by calling into the
// session — it sends an alert, or it stops the session. The Logout flows that follow work as always.
func reactingApplication(c *vk.Ctx, role rig.Role, variant string, idx int) {
	desc := fmt.Sprintf("%s: a Heartbeat reply fails on a store fault, the application's OnError handler %s", role, variant)
	replay := map[string]interface{}{"scenario": desc, "seed": c.Seed}
	st := rig.NewFlakyStore()
	var sess *session.Session
	var reacted int32
	r, err := rig.NewStepRig(rig.StepCfg{Role: role, HeartBtInt: 30, Limits: &session.IntLimits{Min: 5, Max: 60}, CloseTimeout: 2 * time.Second, Counter: st, Messages: st, SentinelBarrier: true,
		AfterRun: func(h *simplefixgo.DefaultHandler, s *session.Session) {
			sess = s
			s.OnError(func(error) {
				if !atomic.CompareAndSwapInt32(&reacted, 0, 1) {
					return
				}
				if variant == "stops-the-session" {
					_ = s.Stop()
				} else {
					_ = s.Send(fixgen.CreateMarketDataRequestReject("alert"))
				}
			})
		}})
	if err != nil {
		c.Inconclusive("rig: " + err.Error())
		return
	}
	defer r.Close()
	_ = sess
	p := rig.NewPeer()
	if res := r.Inbound(p.Logon(30, "0")); !res.Logged {
		c.Inconclusive("no logon: " + desc)
		return
	}
	c.Eval(vk.Hash64([]byte(desc)), true)
	if idx%2 == 0 {
		atomic.StoreInt32(&st.FailNextOutgoingNumber, 1)
	} else {
		atomic.StoreInt32(&st.FailNextSave, 1)
	}
	t0 := time.Now()
	res := r.Inbound(p.TestRequest("fails"))
	stuck := func(what string) {
		if time.Duration(atomic.LoadInt64(&maxJitter)) > 100*time.Millisecond {
			c.Inconclusive("watchdog: " + desc)
			return
		}
		c.Violate("C15/handler-loop-stuck-after-a-reported-send-error/"+variant+"/"+role.String(), fmt.Sprintf("%s: %v after %s was handed to the session the handler loop had not finished serving it: no Logout is sent or acknowledged any more", desc, time.Since(t0).Round(time.Second), what), replay)
	}
	if res.TimedOut {
		stuck("the TestRequest")
		return
	}
	if atomic.LoadInt32(&reacted) != 1 {
		c.Count("reacting_application_scenarios_without_a_reported_error", 1)
		return
	}
	c.Count("reported_send_errors_the_application_reacted_to", 1)
	if variant == "stops-the-session" {
		// Stop was called inside the callback: its Logout is among the messages of that step, and the peer's answer ends it
		if count(res.Outs, "5") != 1 {
			c.Violate("C15/stop-did-not-send-one-logout/called-from-the-error-callback/"+role.String(), desc+": the step emitted "+types(res.Outs)+", want one Logout", replay)
			return
		}
		done := r.S.Context().Done()
		t0 = time.Now()
		if res := r.Inbound(p.Logout()); res.TimedOut {
			stuck("the peer's Logout answer")
			return
		}
		select {
		case <-done:
		case <-time.After(time.Second):
			c.Violate("C15/stop-not-ended-by-answer/called-from-the-error-callback/"+role.String(), desc+": 1 s after the peer's answer the session's context is not cancelled", replay)
		}
		return
	}
	t0 = time.Now()
	res = r.Inbound(p.Logout())
	if res.TimedOut {
		stuck("the peer's Logout")
		return
	}
	if count(res.Outs, "5") != 1 {
		c.Violate("C15/peer-logout-not-acknowledged-once/after-a-reported-send-error/"+role.String(), desc+": answered with "+types(res.Outs)+", want exactly one Logout", replay)
	}
	if res.Logged {
		c.Violate("C15/still-logged-after-peer-logout/after-a-reported-send-error/"+role.String(), desc+": IsLogged is still true", replay)
	}
}

// stopFromCallback: the application stops the session from inside one of its own incoming-message callbacks (it
// reacts to a business message by shutting down), i.e. Stop runs on the handler's processing loop. The peer answers
// the Logout at once: the context is cancelled when that answer arrives — not only when the close timeout expires —
// and the logout event is signalled.
func stopFromCallback(c *vk.Ctx, role rig.Role, idx int) {
	closeTO := 3 * time.Second
	desc := fmt.Sprintf("%s: Stop called from an application callback for an inbound message (closeTimeout %v), the peer answers the Logout at once", role, closeTO)
	replay := map[string]interface{}{"scenario": desc, "seed": c.Seed}
	var appLogout int32
	r, err := rig.NewStepRig(rig.StepCfg{Role: role, HeartBtInt: 30, Limits: &session.IntLimits{Min: 5, Max: 60}, CloseTimeout: closeTO, SentinelBarrier: true,
		AfterRun: func(h *simplefixgo.DefaultHandler, s *session.Session) {
			s.OnChangeState(utils.EventLogout, func() bool { atomic.AddInt32(&appLogout, 1); return true })
			h.HandleIncoming("V", func([]byte) bool {
				_ = s.Stop()
				return true
			})
		}})
	if err != nil {
		c.Inconclusive("rig: " + err.Error())
		return
	}
	defer r.Close()
	p := rig.NewPeer()
	if res := r.Inbound(p.Logon(30, "0")); !res.Logged {
		c.Inconclusive("no logon: " + desc)
		return
	}
	c.Eval(vk.Hash64([]byte(desc), []byte{byte(idx)}), true)
	c.Count("stops_called_from_an_incoming_callback", 1)
	done := r.S.Context().Done()
	go r.H.ServeIncoming(p.App("shut down"))
	// the peer answers as soon as it sees the Logout
	deadline := time.Now().Add(2 * time.Second)
	seen := false
	for time.Now().Before(deadline) && !seen {
		seen = count(r.AllOuts(), "5") > 0
		if !seen {
			time.Sleep(2 * time.Millisecond)
		}
	}
	if !seen {
		if time.Duration(atomic.LoadInt64(&maxJitter)) > 100*time.Millisecond {
			c.Inconclusive("no Logout within 2 s (late scheduler): " + desc)
			return
		}
		c.Violate("C15/stop-did-not-send-one-logout/called-from-an-incoming-callback/"+role.String(), desc+": no Logout was sent within 2 s", replay)
		return
	}
	tAnswer := time.Now()
	go r.H.ServeIncoming(p.Logout())
	select {
	case <-done:
	case <-time.After(closeTO + 2*time.Second):
	}
	took := time.Since(tAnswer)
	if jit := time.Duration(atomic.LoadInt64(&maxJitter)); jit > 100*time.Millisecond {
		c.Inconclusive(fmt.Sprintf("late scheduler (%v): %s", jit, desc))
		return
	}
	if took > time.Second {
		c.Violate("C15/stop-not-ended-by-answer/called-from-an-incoming-callback/"+role.String(), fmt.Sprintf("%s: the context was cancelled %v after the peer's answer was handed to the handler (the answer ends a Stop at once; %v is the close timeout)", desc, took.Round(10*time.Millisecond), closeTO), replay)
		return
	}
	time.Sleep(50 * time.Millisecond)
	if n := atomic.LoadInt32(&appLogout); n != 1 {
		c.Violate("C15/logout-event-not-signalled-to-application/after-stop/called-from-an-incoming-callback/"+role.String(), fmt.Sprintf("%s: the application's EventLogout handler ran %d times", desc, n), replay)
	}
}

// secondCycle: one session object used for two logons. After a first complete logon/logout cycle the session logs on
// again (an initiator through LogonRequest, an acceptor by the peer's new Logon); the Logout flows of the second
// cycle work like those of the first.
func secondCycle(c *vk.Ctx, role rig.Role, variant string, idx int) {
	desc := fmt.Sprintf("%s second logon of one session, then %s", role, variant)
	replay := map[string]interface{}{"scenario": desc, "seed": c.Seed}
	var appLogout int32
	r, err := rig.NewStepRig(rig.StepCfg{Role: role, HeartBtInt: 30, Limits: &session.IntLimits{Min: 5, Max: 60}, CloseTimeout: 2 * time.Second, SentinelBarrier: true,
		AfterRun: func(h *simplefixgo.DefaultHandler, s *session.Session) {
			s.OnChangeState(utils.EventLogout, func() bool { atomic.AddInt32(&appLogout, 1); return true })
		}})
	if err != nil {
		c.Inconclusive("rig: " + err.Error())
		return
	}
	defer r.Close()
	p := rig.NewPeer()
	if res := r.Inbound(p.Logon(30, "0")); !res.Logged {
		c.Inconclusive("no logon: " + desc)
		return
	}
	// first cycle: ended by the peer (idx even) or by the application (idx odd)
	if idx%2 == 0 {
		if res := r.Inbound(p.Logout()); res.TimedOut || res.Logged || count(res.Outs, "5") != 1 {
			return // the first cycle is judged by the other scenarios
		}
	} else {
		r.Do(func() error { return r.S.Logout() })
		if res := r.Inbound(p.Logout()); res.TimedOut || res.Logged {
			return
		}
	}
	if role == rig.Initiator {
		if res := r.Do(func() error { return r.S.LogonRequest() }); res.TimedOut || count(res.Outs, "A") != 1 {
			return
		}
	}
	if res := r.Inbound(p.Logon(30, "0")); res.TimedOut || !res.Logged {
		c.Count("second_cycles_without_a_second_logon", 1)
		return
	}
	c.Eval(vk.Hash64([]byte(desc), []byte{byte(idx)}), true)
	c.Count("second_logon_cycles", 1)
	switch variant {
	case "peer-logout":
		res := r.Inbound(p.Logout())
		if res.TimedOut {
			c.Inconclusive("watchdog: " + desc)
			return
		}
		if count(res.Outs, "5") != 1 {
			c.Violate("C15/peer-logout-not-acknowledged-once/second-logon-of-the-session/"+role.String(), desc+": answered with "+types(res.Outs)+", want exactly one Logout", replay)
		}
		if res.Logged {
			c.Violate("C15/still-logged-after-peer-logout/second-logon-of-the-session/"+role.String(), desc+": IsLogged is still true", replay)
		}
	case "stop":
		before := atomic.LoadInt32(&appLogout)
		res := r.Do(func() error { return r.S.Stop() })
		if res.TimedOut {
			c.Inconclusive("watchdog in Stop: " + desc)
			return
		}
		if count(res.Outs, "5") != 1 {
			c.Violate("C15/stop-did-not-send-one-logout/second-logon-of-the-session/"+role.String(), desc+": Stop emitted "+types(res.Outs)+", want one Logout", replay)
			return
		}
		done := r.S.Context().Done()
		if res := r.Inbound(p.Logout()); res.TimedOut {
			c.Inconclusive("watchdog: " + desc)
			return
		}
		select {
		case <-done:
		case <-time.After(time.Second):
			c.Violate("C15/stop-not-ended-by-answer/second-logon-of-the-session/"+role.String(), desc+": 1 s after the peer's answer the session's context is not cancelled (close timeout 2 s)", replay)
			return
		}
		if atomic.LoadInt32(&appLogout) != before+1 {
			c.Violate("C15/logout-event-not-signalled-to-application/after-stop/second-logon-of-the-session/"+role.String(), fmt.Sprintf("%s: the application's EventLogout handler ran %d times for the second logout", desc, atomic.LoadInt32(&appLogout)-before), replay)
		}
	}
}

// flakyCounter is the bundled store whose next SetSeqNum for the incoming side fails once when armed (a transient
// fault of the application's counter store).
type flakyCounter struct {
	*memory.Storage
	armed int32
}

func (f *flakyCounter) SetSeqNum(id fix.StorageID, n int) error {
	if id.Side == fix.Incoming && atomic.CompareAndSwapInt32(&f.armed, 1, 0) {
		return errors.New("scripted: counter store unavailable")
	}
	return f.Storage.SetSeqNum(id, n)
}

// storeFaultAtLogout: the counter store fails to record the sequence number of the very Logout message. The Logout was
// received all the same: it is acknowledged / ends the Stop.
func storeFaultAtLogout(c *vk.Ctx, role rig.Role, variant string, idx int) {
	desc := fmt.Sprintf("%s %s while the counter store fails to record the peer's Logout", role, variant)
	replay := map[string]interface{}{"scenario": desc, "seed": c.Seed}
	st := &flakyCounter{Storage: memory.NewStorage()}
	var appLogout int32
	r, err := rig.NewStepRig(rig.StepCfg{Role: role, HeartBtInt: 30, Limits: &session.IntLimits{Min: 5, Max: 60}, CloseTimeout: 3 * time.Second, Counter: st, Messages: st, SentinelBarrier: true,
		AfterRun: func(h *simplefixgo.DefaultHandler, s *session.Session) {
			s.OnChangeState(utils.EventLogout, func() bool { atomic.AddInt32(&appLogout, 1); return true })
		}})
	if err != nil {
		c.Inconclusive("rig: " + err.Error())
		return
	}
	defer r.Close()
	p := rig.NewPeer()
	if res := r.Inbound(p.Logon(30, "0")); !res.Logged {
		c.Inconclusive("no logon: " + desc)
		return
	}
	r.Inbound(p.Heartbeat())
	c.Eval(vk.Hash64([]byte(desc)), true)
	c.Count("logouts_with_a_counter_store_fault", 1)
	switch variant {
	case "peer-logout":
		atomic.StoreInt32(&st.armed, 1)
		res := r.Inbound(p.Logout())
		if res.TimedOut {
			c.Inconclusive("watchdog: " + desc)
			return
		}
		if count(res.Outs, "5") != 1 {
			c.Violate("C15/peer-logout-not-acknowledged-once/counter-store-fault/"+role.String(), desc+": answered with "+types(res.Outs)+", want exactly one Logout", replay)
		}
		if res.Logged {
			c.Violate("C15/still-logged-after-peer-logout/counter-store-fault/"+role.String(), desc+": IsLogged is still true", replay)
		}
	case "own-logout":
		r.Do(func() error { return r.S.Logout() })
		atomic.StoreInt32(&st.armed, 1)
		res := r.Inbound(p.Logout())
		if res.TimedOut {
			c.Inconclusive("watchdog: " + desc)
			return
		}
		if atomic.LoadInt32(&appLogout) != 1 {
			c.Violate("C15/logout-event-not-signalled-to-application/counter-store-fault/"+role.String(), fmt.Sprintf("%s: the application's EventLogout handler ran %d times when the peer answered", desc, atomic.LoadInt32(&appLogout)), replay)
		}
	case "stop":
		r.Do(func() error { return r.S.Stop() })
		done := r.S.Context().Done()
		atomic.StoreInt32(&st.armed, 1)
		r.Inbound(p.Logout())
		select {
		case <-done:
		case <-time.After(time.Second + 3*time.Duration(atomic.LoadInt64(&maxJitter))):
			if time.Duration(atomic.LoadInt64(&maxJitter)) > 100*time.Millisecond {
				c.Inconclusive("scheduler jitter: " + desc)
				return
			}
			c.Violate("C15/stop-not-cancelled-on-answer/counter-store-fault/"+role.String(), desc+": the context was not cancelled within 1 s of the peer's answer (close timeout 3 s)", replay)
		}
	}
}

func main() {
	c := vk.Init("C15")
	c.Rule("scenarios: role x variant {peer Logout while logged on (then a repeated one); local Logout() then the peer's answer after 0..3 other inbound messages; Stop() answered immediately / after other inbound messages; Stop() never answered; peer Logout / answer to the own Logout / answer to Stop arriving while the counter store fails to record that message's number; a peer Logout (or answer to the session's own Logout) that is queued behind a slow application handler when the loss of the connection is reported (8/40 trials per role and variant: the handler loop may take either first); Stop() while the outgoing path is stalled (full handler buffer nobody reads: the Logout cannot even leave) with close timeout {0,50ms,300ms,1s}; Stop()/Logout() issued while the session's own TestRequest is pending (N=1, 2.3 s of silence); Stop()/Logout() whose answer arrives after 2.3 s of silence (N=1), i.e. after the session has sent a TestRequest of its own while waiting for it} x close timeout {2s,5s} for answered and {0,50ms,300ms,2s} for unanswered x 0..3 messages before x application EventLogout handler registered before the action or not. Oracle: Logout count on Outgoing() per step, IsLogged, EventLogout, and Context().Done(): within 250 ms (+3x measured scheduler jitter) after the answer's step completed — an order of magnitude below the deadline so the deadline path cannot pass for the answer path — resp. no later than closeTimeout + 300 ms (+jitter) when unanswered. distinct = scenario tuple; non-trivial = all but those where the deadline beat the scripted answer")
	c.Assume("wall clock is used only for the two bounds the statement itself gives (as soon as the answer arrives / at the latest at the close timeout); a jitter canary turns overloaded runs into inconclusive")
	stop := make(chan struct{})
	go canary(stop)
	var scs []scenario
	for _, role := range []rig.Role{rig.Acceptor, rig.Initiator} {
		for pre := 0; pre <= c.Pick(1, 3); pre++ {
			for _, app := range []bool{false, true} {
				scs = append(scs, scenario{role, "peer-logout", time.Second, pre, 0, app, false, false})
				for between := 0; between <= c.Pick(1, 3); between++ {
					scs = append(scs, scenario{role, "local-logout", time.Second, pre, between, app, false, false})
					for _, to := range []time.Duration{2 * time.Second, 5 * time.Second} {
						scs = append(scs, scenario{role, "stop-answered", to, pre, between, app, false, false})
					}
				}
				for _, to := range []time.Duration{0, 50 * time.Millisecond, 300 * time.Millisecond, 2 * time.Second} {
					scs = append(scs, scenario{role, "stop-unanswered", to, pre, 0, app, false, false})
				}
			}
		}
	}
	for _, role := range []rig.Role{rig.Acceptor, rig.Initiator} {
		scs = append(scs, scenario{role: role, variant: "stop-answered", closeTO: 5 * time.Second, probePending: true})
		scs = append(scs, scenario{role: role, variant: "local-logout", closeTO: time.Second, probePending: true, appEvent: true})
		scs = append(scs, scenario{role: role, variant: "stop-answered", closeTO: 8 * time.Second, lateAnswer: true})
		scs = append(scs, scenario{role: role, variant: "stop-answered", closeTO: 8 * time.Second, lateAnswer: true, appEvent: true, pre: 2})
		scs = append(scs, scenario{role: role, variant: "local-logout", closeTO: 8 * time.Second, lateAnswer: true, appEvent: true})
		scs = append(scs, scenario{role: role, variant: "local-logout", closeTO: 8 * time.Second, lateAnswer: true, pre: 1})
	}
	var wg sync.WaitGroup
	sem := make(chan struct{}, 24)
	for i, sc := range scs {
		wg.Add(1)
		sem <- struct{}{}
		go func(i int, sc scenario) {
			defer wg.Done()
			defer func() { <-sem }()
			run(c, sc, i)
		}(i, sc)
	}
	for i, to := range []time.Duration{0, 50 * time.Millisecond, 300 * time.Millisecond, time.Second} {
		for _, role := range []rig.Role{rig.Acceptor, rig.Initiator} {
			wg.Add(1)
			go func(i int, role rig.Role, to time.Duration) {
				defer wg.Done()
				stalled(c, role, to, 100000+i)
			}(i, role, to)
		}
	}
	for i, variant := range []string{"peer-logout", "own-logout", "stop"} {
		for _, role := range []rig.Role{rig.Acceptor, rig.Initiator} {
			wg.Add(1)
			go func(i int, role rig.Role, variant string) {
				defer wg.Done()
				storeFaultAtLogout(c, role, variant, i)
			}(i, role, variant)
		}
	}
	for i, variant := range []string{"peer-logout", "peer-logout", "stop", "stop"} {
		for _, role := range []rig.Role{rig.Acceptor, rig.Initiator} {
			wg.Add(1)
			go func(i int, role rig.Role, variant string) {
				defer wg.Done()
				secondCycle(c, role, variant, i)
			}(i, role, variant)
		}
	}
	for i := 0; i < 4; i++ {
		for _, role := range []rig.Role{rig.Acceptor, rig.Initiator} {
			wg.Add(1)
			go func(i int, role rig.Role) {
				defer wg.Done()
				stopFromCallback(c, role, i)
			}(i, role)
		}
	}
	for i, variant := range []string{"sends-an-alert", "stops-the-session", "sends-an-alert", "stops-the-session"} {
		for _, role := range []rig.Role{rig.Acceptor, rig.Initiator} {
			wg.Add(1)
			go func(i int, role rig.Role, variant string) {
				defer wg.Done()
				reactingApplication(c, role, variant, i/2+int(role))
			}(i, role, variant)
		}
	}
	for trial := 0; trial < c.Pick(8, 40); trial++ {
		for _, role := range []rig.Role{rig.Acceptor, rig.Initiator} {
			for _, variant := range []string{"peer-logout", "own-logout"} {
				wg.Add(1)
				go func(trial int, role rig.Role, variant string) {
					defer wg.Done()
					connLossBehindLogout(c, role, variant, trial)
				}(trial, role, variant)
			}
		}
	}
	wg.Wait()
	close(stop)
	c.Set("max_scheduler_jitter_ms", float64(atomic.LoadInt64(&maxJitter))/1e6)
	c.Finish()
}
