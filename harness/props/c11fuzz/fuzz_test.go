package c11fuzz

import (
	"math/rand"
	"testing"

	"github.com/b2broker/simplefix-go/fix"
	"github.com/b2broker/simplefix-go/fix/encoding"

	"verifharness/fixref"
	"verifharness/gen"
)

func seeds(f *testing.F, withSel bool) {
	o := gen.DefaultOpts()
	r := rand.New(rand.NewSource(7))
	for i, ty := range gen.F44Types {
		m := ty.New()
		gen.PopulateLib(r, m, o, true)
		if b, err := m.ToBytes(); err == nil {
			if withSel {
				f.Add(b, uint8(i))
			} else {
				f.Add(b, "35")
			}
		}
	}
	extra := [][]byte{nil, []byte("8"), []byte("8="), []byte("8=F\x019=0\x0110=000\x01"),
		fixref.EncodeRaw(fixref.Std, "FIX.4.4", []byte("35=V\x01146=2\x0155=a\x0155=b\x01267=1\x01")),
		fixref.EncodeRaw(fixref.Std, "FIX.4.4", []byte("35=W\x01268=2\x01269=0\x01269=1\x01")),
		fixref.EncodeRaw(fixref.Std, "FIX.4.4", []byte("35=A\x01384=1\x01"))}
	for _, b := range extra {
		if withSel {
			f.Add(b, uint8(7))
		} else {
			f.Add(b, "10")
		}
	}
}

func FuzzUnmarshal(f *testing.F) {
	seeds(f, true)
	f.Fuzz(func(t *testing.T, data []byte, sel uint8) {
		ty := gen.F44Types[int(sel>>1)%len(gen.F44Types)]
		d := make([]byte, len(data))
		copy(d, data)
		d = d[:len(d):len(d)]
		into := ty.New()
		var err error
		if sel&1 == 0 {
			err = encoding.Unmarshal(into, d)
		} else {
			err = encoding.NewDefaultUnmarshaller(false).Unmarshal(into, d)
		}
		if err == nil {
			_, _ = into.ToBytes()
		}
	})
}

func FuzzValueByTag(f *testing.F) {
	seeds(f, false)
	f.Fuzz(func(t *testing.T, data []byte, tag string) {
		d := make([]byte, len(data))
		copy(d, data)
		d = d[:len(d):len(d)]
		_, _ = fix.ValueByTag(d, tag)
	})
}
