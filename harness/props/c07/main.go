// C07 — nothing but Logon, Logout and Reject is sent to a peer that has not logged on.
package main

import (
	"fmt"
	"runtime"
	"strconv"
	"strings"
	"sync"
	"time"

	"github.com/b2broker/simplefix-go/fix"
	"github.com/b2broker/simplefix-go/session"
	"github.com/b2broker/simplefix-go/storages/memory"
	fixgen "github.com/b2broker/simplefix-go/tests/fix44"

	"verifharness/fixref"
	"verifharness/rig"
	"verifharness/vk"
)

type sym struct {
	name  string
	build func(p *rig.Peer) []byte
	local string // "logout" / "stop": a local call instead of an inbound message
}

func alphabet(role rig.Role) []sym {
	var out []sym
	for _, s := range rig.Alphabet() {
		s := s
		if s.Local {
			continue
		}
		if s.LogonClass == rig.LogonGood {
			continue
		}
		if role == rig.Initiator && s.LogonClass != rig.NotLogon && s.LogonClass != rig.LogonBadChecksum && s.LogonClass != rig.LogonBadLength && s.LogonClass != rig.LogonNonNumericHb {
			continue // any well-formed Logon completes the initiator's logon
		}
		if strings.HasPrefix(s.Name, "Resend") {
			continue
		}
		out = append(out, sym{name: s.Name, build: func(p *rig.Peer) []byte { return s.Build(p, [2]int{5, 60}) }})
	}
	for _, be := range [][2]int{{1, 0}, {1, 1}, {1, 3}, {2, 5}, {0, 0}, {3, 2}, {1, 9}, {5, 5}} {
		be := be
		out = append(out, sym{name: fmt.Sprintf("Resend(%d,%d)", be[0], be[1]), build: func(p *rig.Peer) []byte { return p.Resend(be[0], be[1]) }})
	}
	// the application may shut the session down before any peer logged on (the Logout this emits is allowed)
	out = append(out, sym{name: "LocalLogout", local: "logout"}, sym{name: "LocalStop", local: "stop"})
	return out
}

// preload fills a store through its public API with messages of an earlier session.
func preload(st *memory.Storage, n int) {
	id := fix.StorageID{Sender: rig.LibID, Target: rig.PeerID, Side: fix.Outgoing}
	for i := 1; i <= n; i++ {
		m := fixgen.CreateMarketDataRequestReject("earlier-session-" + strconv.Itoa(i))
		m.HeaderBuilder().SetFieldMsgSeqNum(i).SetFieldSenderCompID(rig.LibID).SetFieldTargetCompID("SOMEONE-ELSE").SetFieldSendingTime("20200101-00:00:00.000")
		_ = st.Save(id, m, i)
	}
	_ = st.SetSeqNum(id, n)
}

var allowed = map[string]bool{"A": true, "5": true, "3": true}

func main() {
	c := vk.Init("C07")
	c.Rule("histories that contain no acceptable Logon (refused and damaged Logons, Heartbeat, TestRequest, Logout, application, unknown types, ResendRequests over 8 ranges incl. e=0, b>e, b=0, beyond the stored range, and the local calls Logout() and Stop() before any logon), both roles, with an empty message store and with a store preloaded through the public Save/SetSeqNum API with 5 messages of an earlier session: EXHAUSTIVE up to length 2 (quick) / 3 (thorough) plus random histories up to length 12; plus real-time idle scenarios (2.6 s of silence on an acceptor before any Logon, after a Logon with an out-of-range interval, after a Logon the application's callback refused, after a Logon with HeartBtInt=0 under limits [-1,60]; an initiator with N=1 whose Logon is never answered). Every fourth history runs with Opts.Tags.HeartBtInt and .EncryptedMethod left at 0 (only the tags the session needs are configured). Oracle: MsgType of every message on Outgoing() must be A, 5 or 3. distinct = (role, store, sequence); non-trivial = at least one message was emitted or a ResendRequest was in the history")
	c.Assume("the application itself sends nothing before logon (the statement is about what the session transmits on its own)")
	maxLen := c.Pick(2, 3)
	nRandom := c.Pick(600, 20000)
	type job struct {
		role    rig.Role
		preload bool
		hist    []int
	}
	var jobs []job
	for _, role := range []rig.Role{rig.Acceptor, rig.Initiator} {
		al := alphabet(role)
		for _, pre := range []bool{false, true} {
			for l := 1; l <= maxLen; l++ {
				idx := make([]int, l)
				for {
					jobs = append(jobs, job{role, pre, append([]int(nil), idx...)})
					k := l - 1
					for k >= 0 {
						idx[k]++
						if idx[k] < len(al) {
							break
						}
						idx[k] = 0
						k--
					}
					if k < 0 {
						break
					}
				}
			}
		}
	}
	c.Set("exhaustive_histories", len(jobs))
	for i := 0; i < nRandom; i++ {
		r := c.Rand("c07", int64(i))
		role := rig.Role(r.Intn(2))
		al := alphabet(role)
		h := make([]int, 3+r.Intn(10))
		for k := range h {
			h[k] = r.Intn(len(al))
		}
		jobs = append(jobs, job{role, r.Intn(2) == 0, h})
	}
	vk.Parallel(len(jobs), runtime.NumCPU(), func(i int) {
		j := jobs[i]
		al := alphabet(j.role)
		var names []string
		for _, s := range j.hist {
			names = append(names, al[s].name)
		}
		desc := fmt.Sprintf("%s preloaded-store=%v: %s", j.role, j.preload, strings.Join(names, " > "))
		st := memory.NewStorage()
		if j.preload {
			preload(st, 5)
		}
		var optsMod func(*session.Opts)
		if i%4 == 3 {
			// an application that configures only the tags the session cannot do without (MsgType, MsgSeqNum): the two
			// others only name the offending field in a Reject
			desc += " [Opts.Tags.HeartBtInt and .EncryptedMethod left 0]"
			optsMod = func(o *session.Opts) { o.Tags.HeartBtInt, o.Tags.EncryptedMethod = 0, 0 }
		}
		r, err := rig.NewStepRig(rig.StepCfg{Role: j.role, HeartBtInt: 10, Limits: &session.IntLimits{Min: 5, Max: 60}, Counter: st, Messages: st, CloseTimeout: time.Minute, OptsMod: optsMod,
			OnLogon: func(ls *session.LogonSettings) error {
				if !rig.Approve(ls.Username, ls.Password) {
					return fmt.Errorf("refused")
				}
				return nil
			}})
		if err != nil {
			c.Inconclusive("rig: " + err.Error())
			return
		}
		defer r.Close()
		p := rig.NewPeer()
		emitted := 0
		hasResend := false
		stopped := false
		for k, s := range j.hist {
			if strings.HasPrefix(al[s].name, "Resend") {
				hasResend = true
			}
			var res rig.StepResult
			switch al[s].local {
			case "logout":
				res = r.Do(func() error { return r.S.Logout() })
			case "stop":
				if stopped {
					continue // Stop is called once
				}
				stopped = true
				res = r.Do(func() error { return r.S.Stop() })
			default:
				res = r.Inbound(al[s].build(p))
			}
			if res.TimedOut {
				c.Inconclusive("watchdog in [" + desc + "]")
				return
			}
			if res.Logged {
				// no message of this alphabet is an acceptable Logon: a session that reports itself logged on after one of
				// them treats a peer that has not logged on as logged on (C06 judges the logon rules themselves), and from
				// here on it would send it heartbeats, test requests and retransmissions
				c.Violate(fmt.Sprintf("C07/treats-peer-as-logged-on-without-acceptable-logon/%s/after-%s", j.role, strings.SplitN(al[s].name, "(", 2)[0]),
					fmt.Sprintf("step %d of [%s]: IsLogged() is true although the history contains no acceptable Logon", k, desc), map[string]interface{}{"history": desc, "seed": c.Seed})
				return
			}
			for _, o := range res.Outs {
				emitted++
				c.SetAdd("emitted_types_before_logon", o.Type)
				if !allowed[o.Type] {
					what := "message"
					if v, ok := fixref.Get(o.Fields, "262"); ok && strings.HasPrefix(string(v), "earlier-session") {
						what = "retransmission-of-stored-message"
					}
					c.Violate(fmt.Sprintf("C07/%s-type-%s-before-logon/%s/after-%s", what, o.Type, j.role, strings.SplitN(al[s].name, "(", 2)[0]),
						fmt.Sprintf("step %d of [%s]: session transmitted %s before any successful logon", k, desc, vk.Trunc(fixref.Pretty(o.Raw), 300)),
						map[string]interface{}{"history": desc, "seed": c.Seed})
				}
			}
			if res.RunEnded {
				break
			}
		}
		c.Eval(vk.Hash64([]byte(desc)), emitted > 0 || hasResend)
		c.Count("messages_emitted_before_logon", int64(emitted))
		if c.WantSample() && i%211 == 5 {
			c.Sample(desc)
		}
	})

	// real-time idle scenarios: timers must not run before logon
	idle := c.Pick(8, 40)
	var wg sync.WaitGroup
	for i := 0; i < idle; i++ {
		wg.Add(1)
		go func(i int) {
			defer wg.Done()
			role := rig.Role(i % 2)
			desc := fmt.Sprintf("%s idle for 2.6 s before logon (initiator HeartBtInt=1, acceptor limits [1,60])", role)
			lims := &session.IntLimits{Min: 1, Max: 60}
			zeroInterval := i%8 == 4 && role == rig.Acceptor
			if zeroInterval {
				// unusual but accepted configuration: limits that admit an interval of 0; such a Logon cannot be served
				// (no timer can be built for it) and is refused
				lims = &session.IntLimits{Min: -1, Max: 60}
			}
			r, err := rig.NewStepRig(rig.StepCfg{Role: role, HeartBtInt: 1, Limits: lims,
				OnLogon: func(ls *session.LogonSettings) error {
					if !rig.Approve(ls.Username, ls.Password) {
						return fmt.Errorf("refused")
					}
					return nil
				}})
			if err != nil {
				c.Inconclusive("rig: " + err.Error())
				return
			}
			defer r.Close()
			p := rig.NewPeer()
			switch {
			case zeroInterval:
				desc += " after a Logon with HeartBtInt=0 under limits [-1,60]"
				res := r.Inbound(p.Logon(0, "0", fixref.F(rig.TUser, "user"), fixref.F(rig.TPass, "pw")))
				if res.Logged {
					c.Count("zero_interval_logons_accepted(not judged here)", 1)
					return
				}
			case i%8 >= 6 && role == rig.Acceptor:
				// a Logon that passes every library check (N=1 is within the limits) but is refused by the application, then silence
				desc += " after a Logon the application's callback refused"
				r.Inbound(p.Logon(1, "0", fixref.F(rig.TUser, rig.BadUser), fixref.F(rig.TPass, "x")))
			case i%4 >= 2 && role == rig.Acceptor:
				desc += " after a Logon with an interval below the limit"
				r.Inbound(p.Logon(0, "0")) // refused logon with interval below the limit, then silence
			}
			time.Sleep(2600 * time.Millisecond)
			n := 0
			for _, o := range r.AllOuts() {
				n++
				c.SetAdd("emitted_types_before_logon", o.Type)
				if !allowed[o.Type] {
					c.Violate(fmt.Sprintf("C07/timer-message-type-%s-before-logon/%s", o.Type, role), desc+": session transmitted "+vk.Trunc(fixref.Pretty(o.Raw), 300), map[string]interface{}{"scenario": desc})
				}
			}
			c.Eval(vk.Hash64([]byte(desc), []byte{byte(i)}), true)
			c.Count("idle_scenarios", 1)
		}(i)
	}
	wg.Wait()
	c.Finish()
}
