package main

import (
	"fmt"
	"go/ast"
	"go/parser"
	"go/token"
	"go/types"
	"os"
	"path/filepath"
	"strconv"
	"strings"
)

// Stage 2: the emitted files are read back as data and compared, declaration by
// declaration, with what the harness's own XML reader says.

type pkgIndex struct {
	consts  map[string]string
	funcs   map[string]*ast.FuncDecl // plain functions by name, methods by "Recv.Name"
	pkgName string
	files   int
}

func indexPackage(dir string) (*pkgIndex, error) {
	fset := token.NewFileSet()
	idx := &pkgIndex{consts: map[string]string{}, funcs: map[string]*ast.FuncDecl{}}
	names, _ := filepath.Glob(filepath.Join(dir, "*.go"))
	for _, fn := range names {
		f, err := parser.ParseFile(fset, fn, nil, 0)
		if err != nil {
			return nil, fmt.Errorf("%s does not parse: %v", filepath.Base(fn), err)
		}
		idx.files++
		if idx.pkgName == "" {
			idx.pkgName = f.Name.Name
		} else if idx.pkgName != f.Name.Name {
			return nil, fmt.Errorf("package clauses differ: %s vs %s", idx.pkgName, f.Name.Name)
		}
		for _, d := range f.Decls {
			switch x := d.(type) {
			case *ast.GenDecl:
				for _, sp := range x.Specs {
					vs, ok := sp.(*ast.ValueSpec)
					if !ok {
						continue
					}
					for i, n := range vs.Names {
						if i < len(vs.Values) {
							if bl, ok := vs.Values[i].(*ast.BasicLit); ok && bl.Kind == token.STRING {
								if s, err := strconv.Unquote(bl.Value); err == nil {
									idx.consts[n.Name] = s
								}
							}
						}
					}
				}
			case *ast.FuncDecl:
				name := x.Name.Name
				if x.Recv != nil && len(x.Recv.List) == 1 {
					rt := types.ExprString(x.Recv.List[0].Type)
					name = strings.TrimPrefix(rt, "*") + "." + name
				}
				idx.funcs[name] = x
			}
		}
	}
	return idx, nil
}

type item struct {
	kind, name, fixType string
}

func classify(e ast.Expr) (item, bool) {
	switch x := e.(type) {
	case *ast.CallExpr:
		if sel, ok := x.Fun.(*ast.SelectorExpr); ok && sel.Sel.Name == "NewKeyValue" && len(x.Args) == 2 {
			id, ok1 := x.Args[0].(*ast.Ident)
			un, ok2 := x.Args[1].(*ast.UnaryExpr)
			if ok1 && ok2 {
				if cl, ok := un.X.(*ast.CompositeLit); ok {
					return item{"field", strings.TrimPrefix(id.Name, "Field"), strings.TrimPrefix(types.ExprString(cl.Type), "fix.")}, true
				}
			}
		}
	case *ast.SelectorExpr:
		if call, ok := x.X.(*ast.CallExpr); ok {
			if id, ok := call.Fun.(*ast.Ident); ok {
				if x.Sel.Name == "Component" && strings.HasPrefix(id.Name, "make") {
					return item{"component", strings.TrimPrefix(id.Name, "make"), ""}, true
				}
				if x.Sel.Name == "Group" && strings.HasPrefix(id.Name, "New") {
					return item{"group", strings.TrimPrefix(id.Name, "New"), ""}, true
				}
			}
		}
	}
	return item{}, false
}

// itemsOf finds the call named callName inside fn and classifies its arguments (from index skip).
func itemsOf(fn *ast.FuncDecl, callName string, skip int) ([]item, []ast.Expr, bool) {
	var found *ast.CallExpr
	ast.Inspect(fn.Body, func(n ast.Node) bool {
		if found != nil {
			return false
		}
		if c, ok := n.(*ast.CallExpr); ok {
			if sel, ok := c.Fun.(*ast.SelectorExpr); ok && sel.Sel.Name == callName {
				found = c
				return false
			}
		}
		return true
	})
	if found == nil {
		return nil, nil, false
	}
	var out []item
	for _, a := range found.Args[skip:] {
		it, ok := classify(a)
		if !ok {
			it = item{"?", types.ExprString(a), ""}
		}
		out = append(out, it)
	}
	return out, found.Args, true
}

func firstIntArg(fn *ast.FuncDecl, callName string) (int, bool) {
	res, ok := -1, false
	ast.Inspect(fn.Body, func(n ast.Node) bool {
		if ok {
			return false
		}
		if c, isCall := n.(*ast.CallExpr); isCall {
			if sel, isSel := c.Fun.(*ast.SelectorExpr); isSel && sel.Sel.Name == callName && len(c.Args) >= 1 {
				if bl, isLit := c.Args[0].(*ast.BasicLit); isLit && bl.Kind == token.INT {
					res, _ = strconv.Atoi(bl.Value)
					ok = true
					return false
				}
			}
		}
		return true
	})
	return res, ok
}

func params(fn *ast.FuncDecl) []string {
	var out []string
	if fn.Type.Params == nil {
		return out
	}
	for _, p := range fn.Type.Params.List {
		t := types.ExprString(p.Type)
		if len(p.Names) == 0 {
			out = append(out, "_ "+t)
		}
		for _, n := range p.Names {
			out = append(out, n.Name+" "+t)
		}
	}
	return out
}

func results(fn *ast.FuncDecl) []string {
	var out []string
	if fn.Type.Results == nil {
		return out
	}
	for _, p := range fn.Type.Results.List {
		out = append(out, types.ExprString(p.Type))
	}
	return out
}

// staticCompare returns the list of disagreements and the number of comparisons made.
func staticCompare(idx *pkgIndex, e *expectation, wantPkg string) (diffs []string, checked int) {
	bad := func(format string, a ...interface{}) { diffs = append(diffs, fmt.Sprintf(format, a...)) }
	checked++
	if idx.pkgName != wantPkg {
		bad("package clause is %q, the output directory's base name is %q", idx.pkgName, wantPkg)
	}
	for n, v := range e.FieldConsts {
		checked++
		if got, ok := idx.consts[n]; !ok || got != v {
			bad("constant %s = %q, schema says %q", n, got, v)
		}
	}
	for n, v := range e.MsgConsts {
		checked++
		if got, ok := idx.consts[n]; !ok || got != v {
			bad("constant %s = %q, schema says %q", n, got, v)
		}
	}
	for _, c := range e.Containers {
		var items []item
		var ok bool
		owner := c.Name // receiver type of the accessors
		switch c.Kind {
		case "message":
			fn := idx.funcs["make"+c.Name]
			if fn == nil {
				bad("message %s: no make%s function", c.Name, c.Name)
				continue
			}
			items, _, ok = itemsOf(fn, "SetBody", 0)
		case "component", "header", "trailer":
			fn := idx.funcs["make"+c.Name]
			if fn == nil {
				bad("%s %s: no make%s function", c.Kind, c.Name, c.Name)
				continue
			}
			items, _, ok = itemsOf(fn, "NewComponent", 0)
		case "group":
			fn := idx.funcs[c.Plain]
			if fn == nil {
				bad("group %s: no %s function", c.Name, c.Plain)
				continue
			}
			var args []ast.Expr
			items, args, ok = itemsOf(fn, "NewGroup", 1)
			checked++
			if ok && (len(args) == 0 || types.ExprString(args[0]) != c.NoField) {
				bad("group %s: count tag argument is %s, schema says %s", c.Name, types.ExprString(args[0]), c.NoField)
			}
			owner = strings.TrimSuffix(c.Name, "Grp") + "Entry"
		}
		if !ok {
			bad("%s %s: member list not found in the emitted constructor", c.Kind, c.Name)
			continue
		}
		checked++
		if len(items) != len(c.Members) {
			bad("%s %s: %d members emitted, schema has %d", c.Kind, c.Name, len(items), len(c.Members))
			continue
		}
		for i, m := range c.Members {
			checked++
			it := items[i]
			switch m.Kind {
			case "field":
				if it.kind != "field" || it.name != m.Name || it.fixType != m.FixType {
					bad("%s %s member %d: emitted %s %s (%s), schema says field %s of library type %s", c.Kind, c.Name, i, it.kind, it.name, it.fixType, m.Name, m.FixType)
				}
			case "component":
				if it.kind != "component" || it.name != m.TypeName {
					bad("%s %s member %d: emitted %s %s, schema says component %s", c.Kind, c.Name, i, it.kind, it.name, m.TypeName)
				}
			case "group":
				if it.kind != "group" || it.name != m.TypeName {
					bad("%s %s member %d: emitted %s %s, schema says group %s", c.Kind, c.Name, i, it.kind, it.name, m.TypeName)
				}
			}
			// accessors
			get := idx.funcs[owner+"."+m.Accessor]
			set := idx.funcs[owner+".Set"+m.Accessor]
			checked += 2
			if get == nil || set == nil {
				bad("%s %s: accessor pair %s/Set%s is missing on %s", c.Kind, c.Name, m.Accessor, m.Accessor, owner)
				continue
			}
			if r := results(get); len(r) != 1 || r[0] != m.GoType {
				bad("%s.%s returns %v, the type mapping says %s", owner, m.Accessor, r, m.GoType)
			}
			wantParam := lowerFirst(m.Name) + " " + m.GoType
			if p := params(set); len(p) != 1 || p[0] != wantParam {
				bad("%s.Set%s takes (%s), expected (%s)", owner, m.Accessor, strings.Join(p, ", "), wantParam)
			}
			checked += 2
			if gi, ok := firstIntArg(get, "Get"); !ok || gi != m.Index {
				bad("%s.%s reads item %d, its own position is %d", owner, m.Accessor, gi, m.Index)
			}
			si, ok := firstIntArg(set, "Get")
			if !ok {
				si, ok = firstIntArg(set, "Set")
			}
			if !ok || si != m.Index {
				bad("%s.Set%s writes item %d, its own position is %d", owner, m.Accessor, si, m.Index)
			}
		}
		// populating constructor: required members, in order
		if c.Kind == "group" {
			continue
		}
		ctor := idx.funcs[c.Ctor]
		checked++
		if ctor == nil {
			bad("%s %s: populating constructor %s is missing", c.Kind, c.Name, c.Ctor)
			continue
		}
		var want []string
		for _, m := range c.Members {
			if m.Required {
				want = append(want, lowerFirst(m.Name)+" "+m.GoType)
			}
		}
		if got := params(ctor); strings.Join(got, ", ") != strings.Join(want, ", ") {
			bad("%s(%s): the required members are (%s)", c.Ctor, strings.Join(got, ", "), strings.Join(want, ", "))
		}
	}
	return
}

// declMultiset renders every top-level declaration of a package directory.
func declMultiset(dir string) (map[string]int, error) {
	fset := token.NewFileSet()
	out := map[string]int{}
	names, _ := filepath.Glob(filepath.Join(dir, "*.go"))
	for _, fn := range names {
		if strings.HasSuffix(fn, "_test.go") {
			continue
		}
		src, err := os.ReadFile(fn)
		if err != nil {
			return nil, err
		}
		f, err := parser.ParseFile(fset, fn, src, 0)
		if err != nil {
			return nil, err
		}
		for _, d := range f.Decls {
			if gd, ok := d.(*ast.GenDecl); ok && gd.Tok == token.IMPORT {
				continue
			}
			text := string(src[fset.Position(d.Pos()).Offset:fset.Position(d.End()).Offset])
			out[strings.Join(strings.Fields(text), " ")]++
		}
	}
	return out, nil
}
