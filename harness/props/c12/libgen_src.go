package main

// libgenSource is a small program that uses the generator as a library: the schema is parsed ONCE and the package is
// generated from that one parsed document into every directory given (a new Generator for each of the first three directories, then ONE Generator executed for all the following ones).
const libgenSource = `package main

import (
	"fmt"
	"os"
	"path/filepath"

	"github.com/b2broker/simplefix-go/generator"
	"github.com/b2broker/simplefix-go/utils"
)

func main() {
	defer func() {
		if p := recover(); p != nil {
			fmt.Println("PANIC:", p)
			os.Exit(3)
		}
	}()
	doc := &generator.Doc{}
	if err := utils.ParseXML(os.Args[1], doc); err != nil {
		fmt.Println("ERROR:", err)
		os.Exit(2)
	}
	config := &generator.Config{}
	if err := utils.ParseXML(os.Args[2], config); err != nil {
		fmt.Println("ERROR:", err)
		os.Exit(2)
	}
	var one *generator.Generator
	for i, out := range os.Args[3:] {
		if err := os.MkdirAll(out, os.ModePerm); err != nil {
			fmt.Println("ERROR:", err)
			os.Exit(2)
		}
		// the first three directories: a new Generator each; the following ones: one Generator executed again and again
		g := generator.NewGenerator(doc, config, filepath.Base(out))
		if i >= 3 {
			if one == nil {
				one = g
			}
			g = one
		}
		if err := g.Execute(out); err != nil {
			fmt.Printf("ERROR: generation #%d into %s: %v\n", i+1, out, err)
			os.Exit(2)
		}
		fmt.Printf("generated #%d into %s\n", i+1, out)
	}
}
`
