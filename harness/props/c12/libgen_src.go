package main

// libgenSource is a small program that uses the generator as a library: the schema is parsed ONCE and the package is
// generated from that one parsed document into every directory given (a new Generator for each of the first three directories, then ONE Generator executed for all the following ones).
const libgenSource = `package main

import (
	"fmt"
	"os"
	"path/filepath"

	"github.com/b2broker/simplefix-go/generator"
	"github.com/b2broker/simplefix-go/utils"
)

func main() {
	defer func() {
		if p := recover(); p != nil {
			fmt.Println("PANIC:", p)
			os.Exit(3)
		}
	}()
	doc := &generator.Doc{}
	if err := utils.ParseXML(os.Args[1], doc); err != nil {
		fmt.Println("ERROR:", err)
		os.Exit(2)
	}
	config := &generator.Config{}
	if err := utils.ParseXML(os.Args[2], config); err != nil {
		fmt.Println("ERROR:", err)
		os.Exit(2)
	}
	var one *generator.Generator
	for i, out := range os.Args[3:] {
		if err := os.MkdirAll(out, os.ModePerm); err != nil {
			fmt.Println("ERROR:", err)
			os.Exit(2)
		}
		// the first three directories: a new Generator each; the following ones: one Generator executed again and again
		g := generator.NewGenerator(doc, config, filepath.Base(out))
		if i >= 3 {
			if one == nil {
				one = g
			}
			g = one
		}
		if err := g.Execute(out); err != nil {
			fmt.Printf("ERROR: generation #%d into %s: %v\n", i+1, out, err)
			os.Exit(2)
		}
		fmt.Printf("generated #%d into %s\n", i+1, out)
	}
}
`

// librejectSource: the generator used as a library on a schema object that has a duplicate (message type or field
// number) added in memory: the Generator must reject it at every attempt; after the application has taken the
// duplicate out of the document again, the same Generator (and a new one) must produce the package of the schema.
const librejectSource = `package main

import (
	"fmt"
	"os"
	"path/filepath"

	"github.com/b2broker/simplefix-go/generator"
	"github.com/b2broker/simplefix-go/utils"
)

func main() {
	defer func() {
		if p := recover(); p != nil {
			fmt.Println("PANIC:", p)
			os.Exit(3)
		}
	}()
	mode := os.Args[1]
	doc := &generator.Doc{}
	if err := utils.ParseXML(os.Args[2], doc); err != nil {
		fmt.Println("ERROR:", err)
		os.Exit(2)
	}
	config := &generator.Config{}
	if err := utils.ParseXML(os.Args[3], config); err != nil {
		fmt.Println("ERROR:", err)
		os.Exit(2)
	}
	outs := os.Args[4:]
	for _, out := range outs {
		if err := os.MkdirAll(out, os.ModePerm); err != nil {
			fmt.Println("ERROR:", err)
			os.Exit(2)
		}
	}
	nm, nf := len(doc.Messages), len(doc.Fields)
	switch mode {
	case "msgtype":
		dup := *doc.Messages[nm-1]
		dup.Name = "ZzDuplicateOfTheFirstType"
		dup.MsgType = doc.Messages[0].MsgType
		doc.Messages = append(doc.Messages, &dup)
	case "field":
		dup := *doc.Fields[nf/2]
		dup.Name = "ZzDuplicateNumber"
		doc.Fields = append(doc.Fields, &dup)
	}
	g := generator.NewGenerator(doc, config, filepath.Base(outs[0]))
	for i := 0; i < 2; i++ {
		if err := g.Execute(outs[i]); err != nil {
			fmt.Printf("ATTEMPT%d: rejected: %v\n", i+1, err)
		} else {
			fmt.Printf("ATTEMPT%d: accepted\n", i+1)
		}
	}
	doc.Messages, doc.Fields = doc.Messages[:nm], doc.Fields[:nf]
	if err := g.Execute(outs[2]); err != nil {
		fmt.Printf("REPAIRED-SAME-GENERATOR: error: %v\n", err)
	} else {
		fmt.Println("REPAIRED-SAME-GENERATOR: generated")
	}
	if err := generator.NewGenerator(doc, config, filepath.Base(outs[3])).Execute(outs[3]); err != nil {
		fmt.Printf("REPAIRED-NEW-GENERATOR: error: %v\n", err)
	} else {
		fmt.Println("REPAIRED-NEW-GENERATOR: generated")
	}
}
`
