package main

// driverSource is the behavioural driver (stage 3). It is generic: it is driven
// by expect.json (derived from the XML by the harness's own reader) and reaches
// the emitted package only through registry_test.go (a list of constructor
// names generated from the XML, not from the emitted code).
const driverSource = `package scratch

import (
	"bytes"
	"encoding/json"
	"fmt"
	"os"
	"reflect"
	"strconv"
	"strings"
	"testing"
	"time"
)

type expMember struct {
	Kind     string ` + "`json:\"kind\"`" + `
	Name     string ` + "`json:\"name\"`" + `
	Accessor string ` + "`json:\"accessor\"`" + `
	Tag      string ` + "`json:\"tag\"`" + `
	FixType  string ` + "`json:\"fix_type\"`" + `
	GoType   string ` + "`json:\"go_type\"`" + `
	TypeName string ` + "`json:\"type_name\"`" + `
	Entry    string ` + "`json:\"entry\"`" + `
	Required bool   ` + "`json:\"required\"`" + `
	Index    int    ` + "`json:\"index\"`" + `
}
type expContainer struct {
	Kind    string      ` + "`json:\"kind\"`" + `
	Name    string      ` + "`json:\"name\"`" + `
	MsgType string      ` + "`json:\"msgtype\"`" + `
	NoTag   string      ` + "`json:\"no_tag\"`" + `
	Ctor    string      ` + "`json:\"ctor\"`" + `
	Plain   string      ` + "`json:\"plain\"`" + `
	Members []expMember ` + "`json:\"members\"`" + `
}
type expectation struct {
	BeginString string         ` + "`json:\"begin_string\"`" + `
	Containers  []expContainer ` + "`json:\"containers\"`" + `
}

var exp expectation
var byName = map[string]*expContainer{}
var checks int

type kv struct{ tag, val string }

func tokenize(b []byte) []kv {
	var out []kv
	for _, seg := range bytes.Split(b, []byte{1}) {
		if len(seg) == 0 {
			continue
		}
		i := bytes.IndexByte(seg, '=')
		if i < 0 {
			out = append(out, kv{"?", string(seg)})
			continue
		}
		out = append(out, kv{string(seg[:i]), string(seg[i+1:])})
	}
	return out
}

func sample(goType string, salt int) (reflect.Value, string) {
	switch goType {
	case "string":
		s := "S" + strconv.Itoa(salt)
		return reflect.ValueOf(s), s
	case "int":
		return reflect.ValueOf(7 + salt), strconv.Itoa(7 + salt)
	case "float64":
		f := 1.5 + float64(salt)
		return reflect.ValueOf(f), strconv.FormatFloat(f, 'f', -1, 64)
	case "bool":
		return reflect.ValueOf(true), "Y"
	case "[]byte":
		b := []byte("raw" + strconv.Itoa(salt))
		return reflect.ValueOf(b), string(b)
	case "time.Time":
		tm := time.Date(2024, 1, 2, 3, 4, 5, 0, time.UTC).Add(time.Duration(salt) * time.Second)
		return reflect.ValueOf(tm), tm.Format("20060102-15:04:05.000")
	}
	panic("no sample for " + goType)
}

func call(t *testing.T, name string, args ...reflect.Value) reflect.Value {
	fn, ok := registry[name]
	if !ok {
		t.Fatalf("registry has no %s", name)
	}
	out := reflect.ValueOf(fn).Call(args)
	return out[0]
}

// build calls a constructor, making up arguments by parameter type.
func build(t *testing.T, name string) reflect.Value {
	fn, ok := registry[name]
	if !ok {
		t.Fatalf("registry has no %s", name)
	}
	ft := reflect.TypeOf(fn)
	var args []reflect.Value
	for i := 0; i < ft.NumIn(); i++ {
		pt := ft.In(i)
		if pt.Kind() == reflect.Ptr && pt.Elem().Kind() == reflect.Struct && pt.Elem().Name() != "Time" {
			tn := pt.Elem().Name()
			if c, ok := byName[tn]; ok && c.Kind == "group" {
				args = append(args, build(t, c.Plain))
			} else if ok {
				args = append(args, build(t, c.Ctor))
			} else {
				t.Fatalf("%s: parameter %d has unknown type %s", name, i, tn)
			}
			continue
		}
		v, _ := sample(pt.String(), 100+i)
		args = append(args, v)
	}
	return reflect.ValueOf(fn).Call(args)[0]
}

func method(t *testing.T, v reflect.Value, name string) reflect.Value {
	m := v.MethodByName(name)
	if !m.IsValid() {
		t.Fatalf("%s has no method %s", v.Type(), name)
	}
	return m
}

func toBytes(t *testing.T, v reflect.Value) []kv {
	out := method(t, v, "ToBytes").Call(nil)
	if len(out) == 2 && !out[1].IsNil() {
		t.Fatalf("%s.ToBytes: %v", v.Type(), out[1].Interface())
	}
	return tokenize(out[0].Bytes())
}

func strip(fs []kv) []kv {
	var out []kv
	for _, f := range fs {
		if f.tag == "8" || f.tag == "9" || f.tag == "35" || f.tag == "10" {
			continue
		}
		out = append(out, f)
	}
	return out
}

func fail(t *testing.T, format string, a ...interface{}) {
	t.Errorf("DISAGREEMENT: "+format, a...)
}

// requiredTags lists, in schema order, the tags a populating constructor must put on the wire.
func requiredTags(c *expContainer) []string {
	var out []string
	for _, m := range c.Members {
		if !m.Required {
			continue
		}
		switch m.Kind {
		case "field":
			out = append(out, m.Tag)
		case "component":
			if cc, ok := byName[m.TypeName]; ok {
				out = append(out, requiredTags(cc)...)
			}
		}
	}
	return out
}

func firstField(c *expContainer) *expMember {
	for i := range c.Members {
		if c.Members[i].Kind == "field" {
			return &c.Members[i]
		}
	}
	return nil
}

func tags(fs []kv) []string {
	var out []string
	for _, f := range fs {
		out = append(out, f.tag)
	}
	return out
}

func TestDriver(t *testing.T) {
	b, err := os.ReadFile("expect.json")
	if err != nil {
		t.Fatal(err)
	}
	if err := json.Unmarshal(b, &exp); err != nil {
		t.Fatal(err)
	}
	for i := range exp.Containers {
		byName[exp.Containers[i].Name] = &exp.Containers[i]
	}
	for ci := range exp.Containers {
		c := &exp.Containers[ci]
		switch c.Kind {
		case "message":
			// every setter puts exactly its own field on the wire, the getter returns it
			for mi, m := range c.Members {
				if m.Kind != "field" {
					continue
				}
				v := call(t, c.Plain)
				val, text := sample(m.GoType, mi)
				method(t, v, "Set"+m.Accessor).Call([]reflect.Value{val})
				all := toBytes(t, v)
				body := strip(all)
				checks++
				if len(body) != 1 || body[0].tag != m.Tag || body[0].val != text {
					fail(t, "%s.Set%s(%v): wire body is %v, want exactly %s=%s", c.Name, m.Accessor, val.Interface(), body, m.Tag, text)
				}
				got := method(t, v, m.Accessor).Call(nil)[0]
				checks++
				if !reflect.DeepEqual(got.Interface(), val.Interface()) {
					fail(t, "%s.%s() = %v after Set%s(%v)", c.Name, m.Accessor, got.Interface(), m.Accessor, val.Interface())
				}
				checks += 2
				if len(all) < 3 || all[0].tag != "8" || all[0].val != exp.BeginString {
					fail(t, "%s: BeginString on the wire is %v, schema says %s", c.Name, all[0], exp.BeginString)
				}
				if len(all) < 3 || all[2].tag != "35" || all[2].val != c.MsgType {
					fail(t, "%s: MsgType on the wire is %v, schema says %s", c.Name, all[2], c.MsgType)
				}
			}
			// all members populated: wire order is schema order
			v := call(t, c.Plain)
			var want []string
			for mi, m := range c.Members {
				switch m.Kind {
				case "field":
					val, _ := sample(m.GoType, mi)
					method(t, v, "Set"+m.Accessor).Call([]reflect.Value{val})
					want = append(want, m.Tag)
				case "component":
					cc, ok := byName[m.TypeName]
					if !ok {
						continue
					}
					ff := firstField(cc)
					if ff == nil {
						continue
					}
					comp := method(t, v, m.Accessor).Call(nil)[0]
					val, _ := sample(ff.GoType, mi)
					method(t, comp, "Set"+ff.Accessor).Call([]reflect.Value{val})
					want = append(want, ff.Tag)
				case "group":
					gc, ok := byName[m.TypeName]
					if !ok {
						continue
					}
					ff := firstField(gc)
					if ff == nil || gc.Members[0].Kind != "field" {
						continue
					}
					entry := call(t, gc.Ctor)
					val, text := sample(ff.GoType, mi)
					method(t, entry, "Set"+ff.Accessor).Call([]reflect.Value{val})
					grp := method(t, v, m.Accessor).Call(nil)[0]
					method(t, grp, "AddEntry").Call([]reflect.Value{entry})
					want = append(want, gc.NoTag, ff.Tag)
					// round trip through Entries()
					ents := method(t, method(t, v, m.Accessor).Call(nil)[0], "Entries").Call(nil)[0]
					checks++
					if ents.Len() != 1 {
						fail(t, "%s.%s().Entries() has %d entries after one AddEntry", c.Name, m.Accessor, ents.Len())
					} else {
						got := method(t, ents.Index(0), ff.Accessor).Call(nil)[0]
						if !reflect.DeepEqual(got.Interface(), val.Interface()) {
							fail(t, "%s.%s() entry getter %s = %v, want %v (%s)", c.Name, m.Accessor, ff.Accessor, got.Interface(), val.Interface(), text)
						}
					}
				}
			}
			got := tags(strip(toBytes(t, v)))
			checks++
			if strings.Join(got, ",") != strings.Join(want, ",") {
				fail(t, "%s with all members populated: wire tag order %v, schema order %v", c.Name, got, want)
			}
			// populating constructor: exactly the required members
			cv := build(t, c.Ctor)
			got = tags(strip(toBytes(t, cv)))
			wantReq := requiredTags(c)
			checks++
			if strings.Join(got, ",") != strings.Join(wantReq, ",") {
				fail(t, "%s(...): wire carries tags %v, the required members are %v", c.Ctor, got, wantReq)
			}
		case "component", "header", "trailer", "group":
			ctor := c.Ctor
			for mi, m := range c.Members {
				if m.Kind != "field" {
					continue
				}
				v := build(t, ctor)
				val, text := sample(m.GoType, 50+mi)
				method(t, v, "Set"+m.Accessor).Call([]reflect.Value{val})
				fs := tokenize(method(t, v, "ToBytes").Call(nil)[0].Bytes())
				n := 0
				for _, f := range fs {
					if f.tag == m.Tag {
						n++
						checks++
						if f.val != text {
							fail(t, "%s %s.Set%s(%v): wire has %s=%s, want %s", c.Kind, c.Name, m.Accessor, val.Interface(), f.tag, f.val, text)
						}
					}
				}
				checks++
				if n != 1 {
					fail(t, "%s %s.Set%s: tag %s appears %d times in %v", c.Kind, c.Name, m.Accessor, m.Tag, n, fs)
				}
				got := method(t, v, m.Accessor).Call(nil)[0]
				checks++
				if !reflect.DeepEqual(got.Interface(), val.Interface()) {
					fail(t, "%s %s.%s() = %v after Set%s(%v)", c.Kind, c.Name, m.Accessor, got.Interface(), m.Accessor, val.Interface())
				}
			}
			if c.Kind != "group" {
				cv := build(t, ctor)
				got := tags(tokenize(method(t, cv, "ToBytes").Call(nil)[0].Bytes()))
				wantReq := requiredTags(c)
				checks++
				if strings.Join(got, ",") != strings.Join(wantReq, ",") {
					fail(t, "%s(...): carries tags %v, the required members are %v", ctor, got, wantReq)
				}
			}
		}
	}
	fmt.Printf("DRIVER-CHECKS %d\n", checks)
}
`
