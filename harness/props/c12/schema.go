package main

import (
	"encoding/xml"
	"fmt"
	"math/rand"
	"os"
	"strings"
)

// The harness's own reader of the schema XML (own structs, own type-mapping
// reader): nothing here comes from the generator package under test.

type xMember struct {
	XMLName  xml.Name
	Name     string     `xml:"name,attr"`
	Required string     `xml:"required,attr"`
	Kids     []*xMember `xml:",any"`
}

type xContainer struct {
	Name    string     `xml:"name,attr"`
	MsgCat  string     `xml:"msgcat,attr,omitempty"`
	MsgType string     `xml:"msgtype,attr,omitempty"`
	Kids    []*xMember `xml:",any"`
}

type xValue struct {
	Enum string `xml:"enum,attr"`
	Desc string `xml:"description,attr"`
}

type xField struct {
	Number string    `xml:"number,attr"`
	Name   string    `xml:"name,attr"`
	Type   string    `xml:"type,attr"`
	Values []*xValue `xml:"value"`
}

type xDoc struct {
	XMLName     xml.Name      `xml:"fix"`
	Type        string        `xml:"type,attr"`
	Major       string        `xml:"major,attr"`
	Minor       string        `xml:"minor,attr"`
	ServicePack string        `xml:"servicepack,attr"`
	Header      *xContainer   `xml:"header"`
	Messages    []*xContainer `xml:"messages>message"`
	Trailer     *xContainer   `xml:"trailer"`
	Components  []*xContainer `xml:"components>component"`
	Fields      []*xField     `xml:"fields>field"`
}

type xType struct {
	Name string `xml:"name,attr"`
	Cast string `xml:"cast,attr"`
}
type xConfig struct {
	Types []xType `xml:"types>type"`
}

func readDoc(path string) (*xDoc, error) {
	b, err := os.ReadFile(path)
	if err != nil {
		return nil, err
	}
	d := &xDoc{}
	if err := xml.Unmarshal(b, d); err != nil {
		return nil, err
	}
	return d, nil
}

func readTypes(path string) (map[string]string, error) {
	b, err := os.ReadFile(path)
	if err != nil {
		return nil, err
	}
	c := &xConfig{}
	if err := xml.Unmarshal(b, c); err != nil {
		return nil, err
	}
	m := map[string]string{}
	for _, t := range c.Types {
		m[t.Name] = t.Cast
	}
	return m, nil
}

func writeDoc(d *xDoc, path string) error {
	b, err := xml.MarshalIndent(d, "", " ")
	if err != nil {
		return err
	}
	return os.WriteFile(path, b, 0o644)
}

func writeTypes(m map[string]string, order []string, path string) error {
	var sb strings.Builder
	sb.WriteString("<config name=\"derived\">\n <types>\n")
	for _, n := range order {
		fmt.Fprintf(&sb, "  <type name=%q cast=%q/>\n", n, m[n])
	}
	sb.WriteString(" </types>\n</config>\n")
	return os.WriteFile(path, []byte(sb.String()), 0o644)
}

func cloneMembers(ms []*xMember) []*xMember {
	out := make([]*xMember, len(ms))
	for i, m := range ms {
		c := *m
		c.Kids = cloneMembers(m.Kids)
		out[i] = &c
	}
	return out
}

func cloneDoc(d *xDoc) *xDoc {
	c := *d
	cc := func(x *xContainer) *xContainer {
		if x == nil {
			return nil
		}
		y := *x
		y.Kids = cloneMembers(x.Kids)
		return &y
	}
	c.Header = cc(d.Header)
	c.Trailer = cc(d.Trailer)
	c.Messages = nil
	for _, m := range d.Messages {
		c.Messages = append(c.Messages, cc(m))
	}
	c.Components = nil
	for _, m := range d.Components {
		c.Components = append(c.Components, cc(m))
	}
	c.Fields = nil
	for _, f := range d.Fields {
		g := *f
		c.Fields = append(c.Fields, &g)
	}
	return &c
}

// ---------------------------------------------------------------------------
// expectation derived from the XML

var goTypeOf = map[string]string{"Float": "float64", "Int": "int", "Raw": "[]byte", "Bool": "bool", "String": "string", "Time": "time.Time"}

var excluded = map[string]bool{"BeginString": true, "BodyLength": true, "MsgType": true, "CheckSum": true}

type expMember struct {
	Kind     string `json:"kind"` // field | component | group
	Name     string `json:"name"`
	Accessor string `json:"accessor"` // method name of the getter (Set+Accessor is the setter)
	Tag      string `json:"tag,omitempty"`
	FixType  string `json:"fix_type,omitempty"`
	GoType   string `json:"go_type"`
	TypeName string `json:"type_name,omitempty"` // component / group wrapper type
	Entry    string `json:"entry,omitempty"`     // group entry type
	Required bool   `json:"required"`
	Index    int    `json:"index"`
}

type expContainer struct {
	Kind    string      `json:"kind"` // message | component | header | trailer | group
	Name    string      `json:"name"` // Go type name
	MsgType string      `json:"msgtype,omitempty"`
	NoTag   string      `json:"no_tag,omitempty"` // group: count tag number
	NoField string      `json:"no_field,omitempty"`
	Ctor    string      `json:"ctor"`    // populating constructor
	Plain   string      `json:"plain"`   // plain constructor without arguments ("" if the populating one is the only one)
	Members []expMember `json:"members"`
}

type expectation struct {
	BeginString string            `json:"begin_string"`
	Containers  []expContainer    `json:"containers"`
	FieldConsts map[string]string `json:"field_consts"`
	MsgConsts   map[string]string `json:"msg_consts"`
}

func lowerFirst(s string) string {
	if s == "" {
		return s
	}
	return strings.ToLower(s[:1]) + s[1:]
}

func groupType(name string) string { return strings.Replace(name, "No", "", 1) + "Grp" }
func entryType(name string) string { return strings.Replace(name, "No", "", 1) + "Entry" }

// derive computes what the schema says the generated package must contain.
// It returns an error text when the schema is one the generator must reject.
func derive(d *xDoc, types map[string]string) (*expectation, string) {
	e := &expectation{BeginString: d.Type + "." + d.Major + "." + d.Minor, FieldConsts: map[string]string{}, MsgConsts: map[string]string{}}
	fields := map[string]*xField{}
	numbers := map[string]bool{}
	for _, f := range d.Fields {
		if numbers[f.Number] {
			return nil, "duplicate field number " + f.Number
		}
		numbers[f.Number] = true
		fields[f.Name] = f
		e.FieldConsts["Field"+f.Name] = f.Number
	}
	mt := map[string]bool{}
	for _, m := range d.Messages {
		if mt[m.MsgType] {
			return nil, "duplicate msgtype " + m.MsgType
		}
		mt[m.MsgType] = true
		e.MsgConsts["MsgType"+m.Name] = m.MsgType
	}
	member := func(m *xMember, idx int) (expMember, error) {
		em := expMember{Name: m.Name, Required: m.Required == "Y", Index: idx}
		switch m.XMLName.Local {
		case "field":
			f, ok := fields[m.Name]
			if !ok {
				return em, fmt.Errorf("member field %s is not declared", m.Name)
			}
			em.Kind = "field"
			em.Accessor = m.Name
			em.Tag = f.Number
			cast, hasCast := types[f.Type]
			if len(f.Values) > 0 && cast != "Bool" {
				em.FixType, em.GoType = "String", "string"
			} else {
				if !hasCast {
					return em, fmt.Errorf("type %s of field %s has no mapping", f.Type, f.Name)
				}
				em.FixType = cast
				em.GoType = goTypeOf[cast]
			}
		case "component":
			em.Kind = "component"
			em.Accessor = m.Name
			em.TypeName = m.Name
			em.GoType = "*" + m.Name
		case "group":
			em.Kind = "group"
			em.TypeName = groupType(m.Name)
			em.Accessor = em.TypeName
			em.Entry = entryType(m.Name)
			em.GoType = "*" + em.TypeName
			if f, ok := fields[m.Name]; ok {
				em.Tag = f.Number
			}
		default:
			return em, fmt.Errorf("unknown member element %s", m.XMLName.Local)
		}
		return em, nil
	}
	groups := map[string]*xMember{}
	var grab func(ms []*xMember)
	grab = func(ms []*xMember) {
		for _, m := range ms {
			if m.XMLName.Local == "group" {
				groups[m.Name] = m
			}
			grab(m.Kids)
		}
	}
	build := func(kind, name string, kids []*xMember, skipExcluded bool) (expContainer, error) {
		c := expContainer{Kind: kind, Name: name}
		idx := 0
		for _, k := range kids {
			if skipExcluded && excluded[k.Name] {
				continue
			}
			em, err := member(k, idx)
			if err != nil {
				return c, err
			}
			c.Members = append(c.Members, em)
			idx++
		}
		return c, nil
	}
	var errText string
	add := func(c expContainer, err error) {
		if err != nil && errText == "" {
			errText = err.Error()
		}
		e.Containers = append(e.Containers, c)
	}
	if d.Header != nil {
		c, err := build("header", "Header", d.Header.Kids, true)
		c.Ctor, c.Plain = "NewHeader", ""
		add(c, err)
		grab(d.Header.Kids)
	}
	if d.Trailer != nil {
		c, err := build("trailer", "Trailer", d.Trailer.Kids, true)
		c.Ctor, c.Plain = "NewTrailer", ""
		add(c, err)
		grab(d.Trailer.Kids)
	}
	for _, m := range d.Messages {
		c, err := build("message", m.Name, m.Kids, false)
		c.MsgType = m.MsgType
		c.Ctor, c.Plain = "Create"+m.Name, "New"+m.Name
		add(c, err)
		grab(m.Kids)
	}
	for _, m := range d.Components {
		c, err := build("component", m.Name, m.Kids, true)
		c.Ctor, c.Plain = "New"+m.Name, ""
		add(c, err)
		grab(m.Kids)
	}
	var gnames []string
	for n := range groups {
		gnames = append(gnames, n)
	}
	sortStrings(gnames)
	for _, n := range gnames {
		g := groups[n]
		c, err := build("group", groupType(n), g.Kids, false)
		c.Ctor, c.Plain = "New"+entryType(n), "New"+groupType(n)
		c.NoField = "Field" + n
		if f, ok := fields[n]; ok {
			c.NoTag = f.Number
		}
		add(c, err)
	}
	if errText != "" {
		return e, "unusable schema: " + errText
	}
	return e, ""
}

func sortStrings(s []string) {
	for i := 1; i < len(s); i++ {
		for j := i; j > 0 && s[j] < s[j-1]; j-- {
			s[j], s[j-1] = s[j-1], s[j]
		}
	}
}

// ---------------------------------------------------------------------------
// schema mutator

type mutation struct {
	Kind string
	Desc string
}

// mutate applies one PRNG-chosen edit; it returns the description and whether
// the generator must now reject the schema.
func mutate(r *rand.Rand, d *xDoc, types map[string]string, typeOrder *[]string) (mutation, bool) {
	usable := func(c *xContainer) bool { return c != nil && len(c.Kids) > 0 }
	var conts []*xContainer
	for _, m := range d.Messages {
		if usable(m) {
			conts = append(conts, m)
		}
	}
	for _, m := range d.Components {
		if usable(m) {
			conts = append(conts, m)
		}
	}
	pick := func() *xContainer { return conts[r.Intn(len(conts))] }
	// fields that are safe to move around: not framing, not required by the session pipelines
	pinned := map[string]bool{}
	for k := range excluded {
		pinned[k] = true
	}
	for _, n := range []string{"SenderCompID", "TargetCompID", "MsgSeqNum", "SendingTime", "HeartBtInt", "EncryptMethod", "Password", "Username", "ResetSeqNumFlag", "TestReqID", "BeginSeqNo", "EndSeqNo", "NewSeqNo", "GapFillFlag", "SessionRejectReason", "RefSeqNum", "RefTagID"} {
		pinned[n] = true
	}
	for attempt := 0; attempt < 50; attempt++ {
		switch r.Intn(10) {
		case 0: // remove a member
			c := pick()
			i := r.Intn(len(c.Kids))
			if pinned[c.Kids[i].Name] || len(c.Kids) < 2 {
				continue
			}
			name := c.Kids[i].Name
			c.Kids = append(c.Kids[:i], c.Kids[i+1:]...)
			return mutation{"remove-member", "removed " + name + " from " + c.Name}, false
		case 1: // reorder two members
			c := pick()
			if len(c.Kids) < 2 {
				continue
			}
			i, j := r.Intn(len(c.Kids)), r.Intn(len(c.Kids))
			if i == j {
				continue
			}
			c.Kids[i], c.Kids[j] = c.Kids[j], c.Kids[i]
			return mutation{"reorder-members", fmt.Sprintf("swapped members %d and %d of %s", i, j, c.Name)}, false
		case 2: // toggle required
			c := pick()
			m := c.Kids[r.Intn(len(c.Kids))]
			if m.Required == "Y" {
				m.Required = "N"
			} else {
				m.Required = "Y"
			}
			return mutation{"toggle-required", "toggled required of " + m.Name + " in " + c.Name + " to " + m.Required}, false
		case 3: // rename a field everywhere (new constant name, same number)
			f := d.Fields[r.Intn(len(d.Fields))]
			if pinned[f.Name] || strings.HasPrefix(f.Name, "No") {
				continue
			}
			old, nw := f.Name, f.Name+"X"
			f.Name = nw
			var ren func(ms []*xMember)
			ren = func(ms []*xMember) {
				for _, m := range ms {
					if m.XMLName.Local == "field" && m.Name == old {
						m.Name = nw
					}
					ren(m.Kids)
				}
			}
			for _, c := range append(append([]*xContainer{d.Header, d.Trailer}, d.Messages...), d.Components...) {
				if c != nil {
					ren(c.Kids)
				}
			}
			return mutation{"rename-field", "renamed field " + old + " to " + nw}, false
		case 4: // add a new field to a container
			c := pick()
			num := 20000 + r.Intn(9000)
			tnames := *typeOrder
			tp := tnames[r.Intn(len(tnames))]
			name := fmt.Sprintf("Custom%d", num)
			d.Fields = append(d.Fields, &xField{Number: fmt.Sprint(num), Name: name, Type: tp})
			pos := r.Intn(len(c.Kids) + 1)
			nm := &xMember{XMLName: xml.Name{Local: "field"}, Name: name, Required: []string{"Y", "N"}[r.Intn(2)]}
			c.Kids = append(c.Kids[:pos], append([]*xMember{nm}, c.Kids[pos:]...)...)
			return mutation{"add-field", fmt.Sprintf("added field %s (%d, %s, required=%s) to %s at %d", name, num, tp, nm.Required, c.Name, pos)}, false
		case 5: // change a field's number
			f := d.Fields[r.Intn(len(d.Fields))]
			if pinned[f.Name] {
				continue
			}
			old := f.Number
			f.Number = fmt.Sprint(30000 + r.Intn(9000))
			return mutation{"renumber-field", "field " + f.Name + " " + old + " -> " + f.Number}, false
		case 6: // change the type mapping of one type
			tnames := *typeOrder
			tp := tnames[r.Intn(len(tnames))]
			if tp == "NUMINGROUP" || tp == "SEQNUM" || tp == "BOOLEAN" || tp == "STRING" || tp == "INT" || tp == "LENGTH" {
				continue // used by the session pipelines' typed interfaces
			}
			casts := []string{"String", "Int", "Float", "Bool", "Raw", "Time"}
			nc := casts[r.Intn(len(casts))]
			if nc == types[tp] {
				continue
			}
			// leave alone if a pinned field uses the type
			used := false
			for _, f := range d.Fields {
				if f.Type == tp && pinned[f.Name] {
					used = true
				}
			}
			if used {
				continue
			}
			old := types[tp]
			types[tp] = nc
			return mutation{"change-type-cast", "type " + tp + " cast " + old + " -> " + nc}, false
		case 7: // remove a whole message (not one the session pipelines need)
			if len(d.Messages) < 9 {
				continue
			}
			i := r.Intn(len(d.Messages))
			switch d.Messages[i].Name {
			case "Logon", "Logout", "Heartbeat", "TestRequest", "ResendRequest", "Reject", "SequenceReset":
				continue
			}
			name := d.Messages[i].Name
			d.Messages = append(d.Messages[:i], d.Messages[i+1:]...)
			return mutation{"remove-message", "removed message " + name}, false
		case 8: // duplicate field number: must be rejected
			if len(d.Fields) < 2 {
				continue
			}
			a, b := d.Fields[r.Intn(len(d.Fields))], d.Fields[r.Intn(len(d.Fields))]
			if a == b || a.Number == b.Number {
				continue
			}
			b.Number = a.Number
			return mutation{"duplicate-field-number", "fields " + a.Name + " and " + b.Name + " share number " + a.Number}, true
		case 9: // duplicate msgtype: must be rejected
			if len(d.Messages) < 2 {
				continue
			}
			a, b := d.Messages[r.Intn(len(d.Messages))], d.Messages[r.Intn(len(d.Messages))]
			if a == b {
				continue
			}
			b.MsgType = a.MsgType
			return mutation{"duplicate-msgtype", "messages " + a.Name + " and " + b.Name + " share msgtype " + a.MsgType}, true
		}
	}
	return mutation{"none", "no applicable mutation found"}, false
}
