// C12 — generated code is a faithful, deterministic translation of the XML schema.
package main

import (
	"bytes"
	"encoding/json"
	"encoding/xml"
	"fmt"
	"os"
	"os/exec"
	"path/filepath"
	"regexp"
	"sort"
	"strconv"
	"strings"
	"sync"

	"verifharness/vk"
)

const repo = "/repo"

func goEnv() []string {
	return append(os.Environ(), "GOFLAGS=-mod=mod", "GOPROXY=off", "GOSUMDB=off", "GOTOOLCHAIN=local")
}

func run(dir string, name string, args ...string) (string, error) {
	cmd := exec.Command(name, args...)
	cmd.Dir = dir
	cmd.Env = goEnv()
	out, err := cmd.CombinedOutput()
	return string(out), err
}

type caseT struct {
	id        string
	doc       *xDoc
	types     map[string]string
	typeOrder []string
	muts      []mutation
	reject    bool
	outDir    string // as passed to -o (relative to the module dir, or absolute when prefixed with ABS:)
}

func readDir(dir string) (map[string]string, error) {
	out := map[string]string{}
	names, err := filepath.Glob(filepath.Join(dir, "*.go"))
	if err != nil {
		return nil, err
	}
	for _, n := range names {
		b, err := os.ReadFile(n)
		if err != nil {
			return nil, err
		}
		out[filepath.Base(n)] = string(b)
	}
	return out, nil
}

var reChecks = regexp.MustCompile(`DRIVER-CHECKS (\d+)`)

func prepareModule(mod string) error {
	if err := os.MkdirAll(mod, 0o755); err != nil {
		return err
	}
	gomod := "module scratch\n\ngo 1.18\n\nrequire (\n\tgithub.com/b2broker/simplefix-go v0.0.0\n\tgolang.org/x/sync v0.0.0-20210220032951-036812b2e83c // indirect\n)\n\nreplace github.com/b2broker/simplefix-go => " + repo + "\n"
	if err := os.WriteFile(filepath.Join(mod, "go.mod"), []byte(gomod), 0o644); err != nil {
		return err
	}
	sum, err := os.ReadFile(filepath.Join(repo, "go.sum"))
	if err != nil {
		return err
	}
	return os.WriteFile(filepath.Join(mod, "go.sum"), sum, 0o644)
}

func registrySource(e *expectation, importPath string) string {
	var sb strings.Builder
	sb.WriteString("package scratch\n\nimport gen \"" + importPath + "\"\n\nvar registry = map[string]interface{}{\n")
	seen := map[string]bool{}
	for _, c := range e.Containers {
		for _, n := range []string{c.Ctor, c.Plain} {
			if n != "" && !seen[n] {
				seen[n] = true
				fmt.Fprintf(&sb, "\t%q: gen.%s,\n", n, n)
			}
		}
	}
	sb.WriteString("}\n")
	return sb.String()
}

func judgeCase(c *vk.Ctx, fixgen string, work string, cs *caseT) {
	caseDir := filepath.Join(work, cs.id)
	mod := filepath.Join(caseDir, "mod")
	defer os.RemoveAll(caseDir)
	replay := map[string]interface{}{"case": cs.id, "mutations": cs.muts, "output_dir": cs.outDir, "seed": c.Seed}
	desc := cs.id
	for _, m := range cs.muts {
		desc += " [" + m.Kind + ": " + m.Desc + "]"
	}
	if err := prepareModule(mod); err != nil {
		c.Inconclusive("scratch module: " + err.Error())
		return
	}
	schema := filepath.Join(caseDir, "schema.xml")
	typesP := filepath.Join(caseDir, "types.xml")
	if err := writeDoc(cs.doc, schema); err != nil {
		c.Inconclusive("write schema: " + err.Error())
		return
	}
	writeTypes(cs.types, cs.typeOrder, typesP)
	// the harness's own expectation, from the files it just wrote (so that it reads what fixgen reads)
	d2, err := readDoc(schema)
	if err != nil {
		c.Inconclusive("re-read schema: " + err.Error())
		return
	}
	t2, _ := readTypes(typesP)
	exp, why := derive(d2, t2)
	mustReject := strings.HasPrefix(why, "duplicate")
	if why != "" && !mustReject {
		c.Count("schemas_skipped_unusable", 1)
		return
	}
	outArg := cs.outDir
	pkgDir := filepath.Join(mod, cs.outDir)
	if strings.HasPrefix(cs.outDir, "ABS:") {
		pkgDir = filepath.Join(mod, strings.TrimPrefix(cs.outDir, "ABS:"))
		outArg = pkgDir
	}
	out, ferr := run(mod, fixgen, "-o", outArg, "-t", typesP, "-s", schema)
	c.Count("programs", 1)
	c.SetAdd("output_dir_variants", dirKind(cs.outDir))
	for _, m := range cs.muts {
		c.SetAdd("mutation_kinds", m.Kind)
	}
	nontrivial := len(cs.muts) > 0
	c.Eval(vk.Hash64([]byte(desc)), nontrivial)
	if mustReject {
		c.Count("disagreements_checked", 1)
		c.Count("rejected_schemas", 1)
		if ferr == nil {
			c.Violate("C12/accepted-schema-with-"+strings.ReplaceAll(strings.Fields(why)[0]+"-"+strings.Fields(why)[1], " ", "-"), desc+": fixgen exited 0 for a schema with a "+why, replay)
		}
		return
	}
	c.Count("disagreements_checked", 1)
	if ferr != nil {
		cls := "other"
		if strings.Contains(out, "invalid package name") {
			cls = "invalid-package-name/" + dirKind(cs.outDir)
		}
		c.Violate("C12/generator-failed-on-valid-schema/"+cls, desc+": fixgen failed: "+vk.Trunc(out, 600), replay)
		return
	}
	// stage 1: the emitted package compiles
	rel, _ := filepath.Rel(mod, pkgDir)
	c.Count("disagreements_checked", 1)
	if bout, err := run(mod, "go", "build", "./"+rel); err != nil {
		c.Violate("C12/emitted-package-does-not-compile", desc+": go build of the emitted package failed:\n"+vk.Trunc(bout, 1500), replay)
		return
	}
	// stage 2: declarations against the XML
	idx, err := indexPackage(pkgDir)
	if err != nil {
		c.Violate("C12/emitted-file-unparsable", desc+": "+err.Error(), replay)
		return
	}
	c.Count("emitted_files", int64(idx.files))
	diffs, checked := staticCompare(idx, exp, filepath.Base(pkgDir))
	c.Count("disagreements_checked", int64(checked))
	for i, df := range diffs {
		if i >= 5 {
			break
		}
		c.Violate("C12/declaration-disagrees-with-schema/"+classOf(df), desc+": "+df, replay)
	}
	if len(diffs) > 0 {
		return
	}
	// stage 3: behavioural driver
	ej, _ := json.Marshal(exp)
	os.WriteFile(filepath.Join(mod, "expect.json"), ej, 0o644)
	os.WriteFile(filepath.Join(mod, "driver_test.go"), []byte(driverSource), 0o644)
	os.WriteFile(filepath.Join(mod, "registry_test.go"), []byte(registrySource(exp, "scratch/"+filepath.ToSlash(rel))), 0o644)
	os.WriteFile(filepath.Join(mod, "doc.go"), []byte("package scratch\n"), 0o644)
	tout, terr := run(mod, "go", "test", "-v", "-count=1", "-run", "TestDriver", ".")
	if m := reChecks.FindStringSubmatch(tout); m != nil {
		n, _ := strconv.Atoi(m[1])
		c.Count("disagreements_checked", int64(n))
		c.Count("behavioural_checks", int64(n))
	}
	if terr != nil {
		if strings.Contains(tout, "DISAGREEMENT:") {
			n := 0
			for _, line := range strings.Split(tout, "\n") {
				if i := strings.Index(line, "DISAGREEMENT:"); i >= 0 {
					n++
					if n <= 3 {
						c.Violate("C12/behaviour-disagrees-with-schema/"+classOf(line[i:]), desc+": "+strings.TrimSpace(line[i:]), replay)
					}
				}
			}
		} else if strings.Contains(tout, "[build failed]") || strings.Contains(tout, "cannot use") || strings.Contains(tout, "undefined:") {
			c.Inconclusive("driver does not compile against an emitted package that passed stages 1-2 (driver generator wrong?): " + vk.Trunc(tout, 800))
		} else if strings.Contains(tout, "panic:") {
			c.Violate("C12/behaviour-disagrees-with-schema/panic-in-generated-code", desc+": the driver panicked inside generated code:\n"+vk.Trunc(tout, 1500), replay)
		} else {
			c.Violate("C12/behaviour-disagrees-with-schema/driver-failed", desc+": "+vk.Trunc(tout, 1200), replay)
		}
	}
	if c.WantSample() {
		c.Sample(map[string]interface{}{"case": desc, "emitted_files": idx.files, "static_comparisons": checked})
	}
}

func classOf(s string) string {
	s = strings.ToLower(s)
	switch {
	case strings.Contains(s, "constant"):
		return "constant"
	case strings.Contains(s, "package clause"):
		return "package-name"
	case strings.Contains(s, "returns") || strings.Contains(s, "takes ("):
		return "accessor-type"
	case strings.Contains(s, "reads item") || strings.Contains(s, "writes item"):
		return "accessor-bound-to-wrong-member"
	case strings.Contains(s, "required members"):
		return "constructor-arguments"
	case strings.Contains(s, "member"):
		return "member-order-or-type"
	case strings.Contains(s, "wire tag order"):
		return "wire-order"
	case strings.Contains(s, "wire body") || strings.Contains(s, "wire has") || strings.Contains(s, "appears"):
		return "setter-wire"
	case strings.Contains(s, "()") && strings.Contains(s, "after set"):
		return "getter"
	case strings.Contains(s, "beginstring") || strings.Contains(s, "msgtype on the wire"):
		return "framing-constants"
	}
	return "other"
}

func dirKind(d string) string {
	switch {
	case strings.HasPrefix(d, "ABS:"):
		return "absolute"
	case strings.Contains(strings.Trim(d, "./"), "/"):
		return "nested"
	}
	return "relative"
}

func dedupSchema(d *xDoc) (removed []string) {
	seenNum := map[string]bool{}
	var fs []*xField
	for _, f := range d.Fields {
		if seenNum[f.Number] {
			removed = append(removed, "field "+f.Name+"("+f.Number+")")
			continue
		}
		seenNum[f.Number] = true
		fs = append(fs, f)
	}
	d.Fields = fs
	seenMT := map[string]bool{}
	var ms []*xContainer
	for _, m := range d.Messages {
		if seenMT[m.MsgType] {
			removed = append(removed, "message "+m.Name+"("+m.MsgType+")")
			continue
		}
		seenMT[m.MsgType] = true
		ms = append(ms, m)
	}
	d.Messages = ms
	return
}

func main() {
	c := vk.Init("C12")
	c.Rule("programs = schemas run through cmd/fixgen built from the working tree: the two shipped schemas (source/fix44.xml; generator/testdata/fix.4.4.xml with its deliberate duplicate removed) and schemas derived by a seeded mutator (remove/reorder/add/rename/renumber members and fields, remove messages, toggle required, change a type's cast, introduce duplicate field numbers or message types, add a repeating group at nesting depth 3; a message that uses the name of a repeating group as a plain counter field, placed before / after the group's message; six fixed cast changes that cover Raw and Time), each with a relative, nested or absolute output directory. Per accepted schema three stages: (1) go build of the emitted package; (2) every constant, constructor signature, accessor signature, accessor item index and member list read back with go/parser and compared with the harness's own XML reader; (3) a behavioural driver derived from the XML (not from the emitted code) executed against the compiled package: each setter puts exactly its own tag=value on the wire, getters return it, all-populated wire order = schema order, populating constructors carry exactly the required members, group AddEntry/Entries round-trip, BeginString/MsgType. Plus byte-identical regeneration (also into a directory that already holds the reference generation, with a schema that shortens files; also 24 generations of a schema in which two components declare a group of the same name with different members), identical output across output directories (also when the generator is used as a library: one parsed schema object generated from three times with a new Generator each, and one Generator object executed three times; and a duplicate message type / field number added to the parsed document in memory: rejected at both of two attempts on one Generator, and after the duplicate was removed again that Generator and a new one emit the package of the schema), rejection of duplicate numbers/msgtypes, and tests/fix44 vs fresh generation as declaration multisets. distinct = distinct schema texts; non-trivial = differs from a shipped schema by at least one mutation")
	c.Assume("translation validation by execution on sampled schemas; the harness's XML reader and type-mapping reader are the trusted base; mutations never touch the fields the session pipelines' typed interfaces depend on")
	work := c.WorkDir
	if work == "" {
		work, _ = os.MkdirTemp("", "c12")
		defer os.RemoveAll(work)
	}
	fixgen := filepath.Join(work, "fixgen")
	if out, err := run(repo, "go", "build", "-o", fixgen, "./cmd/fixgen"); err != nil {
		fmt.Println(out)
		c.Inconclusive("fixgen does not build")
		c.Finish()
		return
	}
	type baseT struct {
		name      string
		doc       *xDoc
		types     map[string]string
		typeOrder []string
	}
	var bases []baseT
	for _, b := range []struct{ name, schema, types string }{
		{"source-fix44", repo + "/source/fix44.xml", repo + "/source/types.xml"},
		{"testdata-fix.4.4", repo + "/generator/testdata/fix.4.4.xml", repo + "/generator/testdata/types.xml"},
	} {
		d, err := readDoc(b.schema)
		if err != nil {
			c.Inconclusive("cannot read " + b.schema + ": " + err.Error())
			continue
		}
		tm, err := readTypes(b.types)
		if err != nil {
			c.Inconclusive("cannot read " + b.types + ": " + err.Error())
			continue
		}
		if removed := dedupSchema(d); len(removed) > 0 {
			c.Set("deliberate_duplicates_removed_from_"+b.name, removed)
		}
		var order []string
		for n := range tm {
			order = append(order, n)
		}
		sort.Strings(order)
		bases = append(bases, baseT{b.name, d, tm, order})
	}
	if len(bases) == 0 {
		c.Finish()
		return
	}
	var cases []*caseT
	clone := func(b baseT) (*xDoc, map[string]string, []string) {
		tm := map[string]string{}
		for k, v := range b.types {
			tm[k] = v
		}
		return cloneDoc(b.doc), tm, append([]string(nil), b.typeOrder...)
	}
	// the shipped schemas, each with the three output-directory shapes
	for bi, b := range bases {
		for di, od := range []string{"./p" + strconv.Itoa(bi), "deep/er/p" + strconv.Itoa(bi), "ABS:abs/p" + strconv.Itoa(bi)} {
			if bi == 1 && di > 0 && !c.Thorough() {
				continue // the big schema is generated once in the quick tier
			}
			d, tm, to := clone(b)
			cases = append(cases, &caseT{id: fmt.Sprintf("%s-dir%d", b.name, di), doc: d, types: tm, typeOrder: to, outDir: od})
		}
	}
	// schemas the generator must reject: a duplicate field number in each combination of enumerated / plain fields
	// (first or second occurrence), and a duplicate message type — on every shipped schema
	for bi, b := range bases {
		isEnum := func(f *xField, tm map[string]string) bool { return len(f.Values) > 0 && tm[f.Type] != "Bool" }
		for _, combo := range [][2]bool{{false, false}, {false, true}, {true, false}, {true, true}} {
			d, tm, to := clone(b)
			var first, second *xField
			for _, f := range d.Fields {
				if first == nil && isEnum(f, tm) == combo[0] {
					first = f
					continue
				}
				if first != nil && second == nil && isEnum(f, tm) == combo[1] {
					second = f
				}
			}
			if first == nil || second == nil {
				continue
			}
			second.Number = first.Number
			kind := fmt.Sprintf("duplicate-field-number(enum=%v,then enum=%v)", combo[0], combo[1])
			cases = append(cases, &caseT{id: fmt.Sprintf("reject-%d-%v-%v", bi, combo[0], combo[1]), doc: d, types: tm, typeOrder: to, outDir: "./rej", reject: true,
				muts: []mutation{{kind, "fields " + first.Name + " and " + second.Name + " share number " + first.Number}}})
		}
		d, tm, to := clone(b)
		if len(d.Messages) >= 2 {
			d.Messages[len(d.Messages)-1].MsgType = d.Messages[0].MsgType
			cases = append(cases, &caseT{id: fmt.Sprintf("reject-%d-msgtype", bi), doc: d, types: tm, typeOrder: to, outDir: "./rej", reject: true,
				muts: []mutation{{"duplicate-msgtype", "last message shares the msgtype of the first"}}})
		}
	}
	// a message block that occurs twice — same name, same msgtype, the copy with one member fewer — adjacent to the
	// original or at the other end of the list: that is a duplicate message type too
	for bi, b := range bases {
		for k, far := range []bool{false, true} {
			d, tm, to := clone(b)
			if len(d.Messages) < 3 {
				continue
			}
			src := d.Messages[len(d.Messages)/2]
			cp := &xContainer{Name: src.Name, MsgCat: src.MsgCat, MsgType: src.MsgType, Kids: append([]*xMember(nil), src.Kids...)}
			if len(cp.Kids) > 1 {
				cp.Kids = cp.Kids[:len(cp.Kids)-1]
			}
			if far {
				d.Messages = append(d.Messages, cp)
			} else {
				at := len(d.Messages)/2 + 1
				d.Messages = append(d.Messages[:at], append([]*xContainer{cp}, d.Messages[at:]...)...)
			}
			cases = append(cases, &caseT{id: fmt.Sprintf("reject-%d-repeated-message-%d", bi, k), doc: d, types: tm, typeOrder: to, outDir: "./rej", reject: true,
				muts: []mutation{{"duplicate-msgtype(repeated message block)", fmt.Sprintf("message %s (msgtype %s) occurs twice, the second time without its last member (at the end of the list: %v)", src.Name, src.MsgType, far)}}})
		}
	}
	// a repeating group added at nesting depth 3 (inside a group that is itself inside a group): the shipped
	// reference schema only goes to depth 2
	for bi, b := range bases {
		d, tm, to := clone(b)
		var host *xMember
		var hostPath string
		var find func(ms []*xMember, depth int, path string)
		find = func(ms []*xMember, depth int, path string) {
			for _, m := range ms {
				if host != nil {
					return
				}
				nd := depth
				if m.XMLName.Local == "group" {
					nd = depth + 1
					if nd == 2 {
						host, hostPath = m, path+">"+m.Name
						return
					}
				}
				find(m.Kids, nd, path+">"+m.Name)
			}
		}
		for _, m := range d.Messages {
			if host == nil {
				find(m.Kids, 0, m.Name)
			}
		}
		if host == nil {
			continue
		}
		d.Fields = append(d.Fields, &xField{Number: "28001", Name: "NoDeepNotes", Type: "NUMINGROUP"}, &xField{Number: "28002", Name: "DeepNoteText", Type: "STRING"}, &xField{Number: "28003", Name: "DeepNoteQty", Type: "INT"})
		host.Kids = append(host.Kids, &xMember{XMLName: xml.Name{Local: "group"}, Name: "NoDeepNotes", Required: "N", Kids: []*xMember{
			{XMLName: xml.Name{Local: "field"}, Name: "DeepNoteText", Required: "Y"},
			{XMLName: xml.Name{Local: "field"}, Name: "DeepNoteQty", Required: "N"},
		}})
		cases = append(cases, &caseT{id: fmt.Sprintf("depth3-group-%d", bi), doc: d, types: tm, typeOrder: to, outDir: "./deep" + strconv.Itoa(bi),
			muts: []mutation{{"add-group-at-depth-3", "added group NoDeepNotes inside " + hostPath}}})
	}
	// one name used as a repeating group in one message and as a plain (counter) field in another, the plain use before
	// and after the group use in schema order (FIX 4.4 itself does this with NoRpts in ListStatus)
	for k, before := range []bool{false, true} {
		d, tm, to := clone(bases[0])
		var grp *xMember
		var owner *xContainer
		for _, m := range d.Messages {
			for _, kid := range m.Kids {
				if kid.XMLName.Local == "group" && grp == nil {
					grp, owner = kid, m
				}
			}
		}
		if grp == nil {
			continue
		}
		nm := &xContainer{Name: "CounterOnlyReport", MsgCat: "app", MsgType: "UCR", Kids: []*xMember{
			{XMLName: xml.Name{Local: "field"}, Name: grp.Name, Required: "Y"},
		}}
		for _, f := range d.Fields {
			if f.Name == "Text" && len(nm.Kids) < 2 {
				nm.Kids = append(nm.Kids, &xMember{XMLName: xml.Name{Local: "field"}, Name: f.Name, Required: "N"})
			}
		}
		if before {
			d.Messages = append([]*xContainer{nm}, d.Messages...)
		} else {
			d.Messages = append(d.Messages, nm)
		}
		cases = append(cases, &caseT{id: fmt.Sprintf("group-name-as-plain-field-%d", k), doc: d, types: tm, typeOrder: to, outDir: "./cnt" + strconv.Itoa(k),
			muts: []mutation{{"group-name-also-a-plain-field", fmt.Sprintf("message CounterOnlyReport (placed before the group's message: %v) has %s as a plain field; %s has it as a group", before, grp.Name, owner.Name)}}})
	}
	// a repeating group (and its counter field) renamed so that "No" stands somewhere else than at the start of the
	// name, or not at all
	for k, mk := range []func(string) string{
		func(old string) string { return "Routing" + old },                         // NoHops -> RoutingNoHops
		func(old string) string { return strings.TrimPrefix(old, "No") + "Notes" }, // NoHops -> HopsNotes
	} {
		d, tm, to := clone(bases[0])
		var oldName string
		for _, m := range d.Messages {
			for _, kid := range m.Kids {
				if kid.XMLName.Local == "group" && oldName == "" && strings.HasPrefix(kid.Name, "No") {
					oldName = kid.Name
				}
			}
		}
		if oldName == "" {
			continue
		}
		newName := mk(oldName)
		var ren func(ms []*xMember)
		ren = func(ms []*xMember) {
			for _, m := range ms {
				if m.Name == oldName {
					m.Name = newName
				}
				ren(m.Kids)
			}
		}
		for _, cont := range append(append([]*xContainer{d.Header, d.Trailer}, d.Messages...), d.Components...) {
			if cont != nil {
				ren(cont.Kids)
			}
		}
		for _, f := range d.Fields {
			if f.Name == oldName {
				f.Name = newName
			}
		}
		cases = append(cases, &caseT{id: fmt.Sprintf("group-renamed-%d", k), doc: d, types: tm, typeOrder: to, outDir: "./grn" + strconv.Itoa(k),
			muts: []mutation{{"rename-group", "group and counter field " + oldName + " renamed to " + newName}}})
	}
	// a framing field the generator leaves out of the header / trailer component (BeginString, BodyLength, MsgType,
	// CheckSum) standing somewhere else than at its usual place in the schema: the members behind it keep their slots
	for k, mv := range []struct {
		trailer     bool
		name, after string
	}{{false, "MsgType", "TargetCompID"}, {false, "BodyLength", "SenderCompID"}, {true, "CheckSum", ""}} {
		d, tm, to := clone(bases[0])
		cont := d.Header
		if mv.trailer {
			cont = d.Trailer
		}
		if cont == nil {
			continue
		}
		var moved *xMember
		var rest []*xMember
		for _, kid := range cont.Kids {
			if kid.Name == mv.name && moved == nil {
				moved = kid
			} else {
				rest = append(rest, kid)
			}
		}
		if moved == nil {
			continue
		}
		var kids []*xMember
		placed := false
		if mv.after == "" {
			kids = append(kids, moved) // to the front
			placed = true
		}
		for _, kid := range rest {
			kids = append(kids, kid)
			if !placed && kid.Name == mv.after {
				kids = append(kids, moved)
				placed = true
			}
		}
		if !placed {
			continue
		}
		cont.Kids = kids
		where := "behind " + mv.after
		if mv.after == "" {
			where = "to the front of the trailer"
		}
		cases = append(cases, &caseT{id: fmt.Sprintf("framing-field-moved-%d", k), doc: d, types: tm, typeOrder: to, outDir: "./frm" + strconv.Itoa(k),
			muts: []mutation{{"move-framing-field", "framing field " + mv.name + " moved " + where}}})
	}
	// every cast the generator knows, applied to a type no session pipeline depends on (the shipped mappings use
	// String, Bool, Int and Float only)
	for _, tc := range [][2]string{{"DATA", "Raw"}, {"UTCTIMEONLY", "Time"}, {"LOCALMKTDATE", "Time"}, {"CURRENCY", "Raw"}, {"DATA", "Int"}, {"PRICEOFFSET", "String"}} {
		d, tm, to := clone(bases[0])
		old, ok := tm[tc[0]]
		if !ok || old == tc[1] {
			continue
		}
		tm[tc[0]] = tc[1]
		cases = append(cases, &caseT{id: "cast-" + tc[0] + "-" + tc[1], doc: d, types: tm, typeOrder: to, outDir: "./cast" + strings.ToLower(tc[0]+tc[1]),
			muts: []mutation{{"change-type-cast", "type " + tc[0] + " cast " + old + " -> " + tc[1]}}})
	}
	nDerived := c.Pick(10, 150)
	for i := 0; i < nDerived; i++ {
		r := c.Rand("c12", int64(i))
		b := bases[0]
		if c.Thorough() && i%10 == 9 && len(bases) > 1 {
			b = bases[1]
		}
		d, tm, to := clone(b)
		cs := &caseT{id: fmt.Sprintf("derived-%s-%d", b.name, i), doc: d, types: tm, typeOrder: to}
		n := 1 + r.Intn(3)
		for k := 0; k < n; k++ {
			m, rej := mutate(r, d, tm, &to)
			cs.muts = append(cs.muts, m)
			if rej {
				cs.reject = true
				break
			}
		}
		cs.outDir = []string{"./gen" + strconv.Itoa(i), "nested/dir/gen" + strconv.Itoa(i), "ABS:a/gen" + strconv.Itoa(i)}[r.Intn(3)]
		cases = append(cases, cs)
	}
	var wg sync.WaitGroup
	sem := make(chan struct{}, 8)
	for _, cs := range cases {
		wg.Add(1)
		sem <- struct{}{}
		go func(cs *caseT) {
			defer wg.Done()
			defer func() { <-sem }()
			judgeCase(c, fixgen, work, cs)
		}(cs)
	}
	wg.Wait()

	// determinism and location independence on the reference schema
	det := filepath.Join(work, "determinism")
	os.MkdirAll(det, 0o755)
	schema, typesP := repo+"/source/fix44.xml", repo+"/source/types.xml"
	var sets []map[string]string
	var labels []string
	for _, od := range []string{"run1/fix44", "run2/fix44", "some/nested/place/fix44", "ABS"} {
		arg := od
		dir := filepath.Join(det, od)
		if od == "ABS" {
			dir = filepath.Join(det, "absolute", "fix44")
			arg = dir
		}
		out, err := run(det, fixgen, "-o", arg, "-t", typesP, "-s", schema)
		c.Count("disagreements_checked", 1)
		if err != nil {
			cls := "other"
			if strings.Contains(out, "invalid package name") {
				cls = "invalid-package-name/" + dirKind(strings.Replace(od, "ABS", "ABS:x", 1))
			}
			c.Violate("C12/generator-failed-on-valid-schema/"+cls, "reference schema into output directory "+arg+": "+vk.Trunc(out, 500), map[string]interface{}{"output_dir": arg})
			continue
		}
		fs, _ := readDir(dir)
		sets = append(sets, fs)
		labels = append(labels, od)
	}
	for i := 1; i < len(sets); i++ {
		c.Count("disagreements_checked", 1)
		if !sameFiles(sets[0], sets[i]) {
			c.Violate("C12/output-differs-between-runs-or-directories", fmt.Sprintf("generating the reference schema into %s and %s gives different files: %s", labels[0], labels[i], firstDiff(sets[0], sets[i])), map[string]interface{}{"dirs": []string{labels[0], labels[i]}})
		}
	}
	c.Count("regenerations_compared", int64(len(sets)))
	// determinism on a schema in which two components declare a repeating group of the same name with different
	// members (the generated group type is shared): 24 generations must give one and the same package
	if len(bases) > 0 {
		d, tm, to := clone(bases[0])
		var host *xContainer
		has := false
		for _, cc := range d.Components {
			if cc.Name == "InstrumentLeg" {
				host = cc
			}
			for _, k := range cc.Kids {
				if k.XMLName.Local == "group" && k.Name == "NoUnderlyingStips" {
					has = true
				}
			}
		}
		if host != nil && has {
			host.Kids = append(host.Kids, &xMember{XMLName: xml.Name{Local: "group"}, Name: "NoUnderlyingStips", Required: "N", Kids: []*xMember{
				{XMLName: xml.Name{Local: "field"}, Name: "UnderlyingStipType", Required: "N"},
			}})
			sdir := filepath.Join(det, "shared-group")
			os.MkdirAll(sdir, 0o755)
			sschema, stypes := filepath.Join(sdir, "schema.xml"), filepath.Join(sdir, "types.xml")
			if err := writeDoc(d, sschema); err == nil {
				writeTypes(tm, to, stypes)
				const runs = 24
				outs := make([]map[string]string, runs)
				errs := make([]string, runs)
				var swg sync.WaitGroup
				ssem := make(chan struct{}, 8)
				for k := 0; k < runs; k++ {
					swg.Add(1)
					ssem <- struct{}{}
					go func(k int) {
						defer swg.Done()
						defer func() { <-ssem }()
						od := filepath.Join(sdir, fmt.Sprintf("run%d", k), "fix44")
						if out, err := run(sdir, fixgen, "-o", od, "-t", stypes, "-s", sschema); err != nil {
							errs[k] = out
							return
						}
						outs[k], _ = readDir(od)
					}(k)
				}
				swg.Wait()
				c.Count("disagreements_checked", runs)
				c.Count("generations_of_a_schema_with_a_group_name_shared_by_two_components", runs)
				failed := 0
				for k := range outs {
					if errs[k] != "" {
						failed++
					}
				}
				switch {
				case failed == runs:
					c.Count("shared_group_schema_refused_by_the_generator(not judged)", 1)
				case failed > 0:
					c.Violate("C12/output-differs-between-runs-or-directories/shared-group-name", fmt.Sprintf("a schema in which InstrumentLeg and UnderlyingStipulations both declare group NoUnderlyingStips: %d of %d generations failed, the others succeeded", failed, runs), nil)
				default:
					for k := 1; k < runs; k++ {
						if !sameFiles(outs[0], outs[k]) {
							c.Violate("C12/output-differs-between-runs-or-directories/shared-group-name", fmt.Sprintf("a schema in which InstrumentLeg and UnderlyingStipulations both declare group NoUnderlyingStips (with different members): generation #0 and #%d differ: %s", k, firstDiff(outs[0], outs[k])), nil)
							break
						}
					}
				}
			}
		}
	}
	// regeneration into a directory that already holds an earlier generation: a schema that makes some files shorter
	// (one optional member removed from every message that has one) must give, file by file, what it gives in a
	// fresh directory. Files only the earlier generation produced are leftovers and not judged.
	if len(bases) > 0 {
		d, tm, to := clone(bases[0])
		removed := 0
		for _, msg := range d.Messages {
			for k := len(msg.Kids) - 1; k >= 0; k-- {
				if msg.Kids[k].XMLName.Local == "field" && msg.Kids[k].Required != "Y" && len(msg.Kids) > 2 {
					msg.Kids = append(msg.Kids[:k], msg.Kids[k+1:]...)
					removed++
					break
				}
			}
		}
		rdir := filepath.Join(det, "regen")
		os.MkdirAll(rdir, 0o755)
		rschema, rtypes := filepath.Join(rdir, "schema.xml"), filepath.Join(rdir, "types.xml")
		used, fresh := filepath.Join(rdir, "used", "fix44"), filepath.Join(rdir, "fresh", "fix44")
		if err := writeDoc(d, rschema); err == nil && removed > 0 {
			writeTypes(tm, to, rtypes)
			_, e1 := run(rdir, fixgen, "-o", used, "-t", typesP, "-s", schema) // the reference schema first
			o2, e2 := run(rdir, fixgen, "-o", used, "-t", rtypes, "-s", rschema)
			o3, e3 := run(rdir, fixgen, "-o", fresh, "-t", rtypes, "-s", rschema)
			c.Count("disagreements_checked", 1)
			c.Count("regenerations_into_a_used_directory", 1)
			if e1 != nil || e2 != nil || e3 != nil {
				c.Violate("C12/generator-failed-on-valid-schema/regeneration", "regenerating into a used directory failed: "+vk.Trunc(o2+o3, 600), nil)
			} else {
				fu, _ := readDir(used)
				ff, _ := readDir(fresh)
				for name, want := range ff {
					if fu[name] != want {
						c.Violate("C12/output-differs-between-runs-or-directories/used-directory", fmt.Sprintf("a schema with %d optional members removed, generated into a directory that held the reference generation, differs from its generation into a fresh directory: %s", removed, firstDiff(map[string]string{name: want}, map[string]string{name: fu[name]})), nil)
						break
					}
				}
			}
		}
	}
	// the generator used as a library: one parsed schema object, three generations from it
	if len(sets) > 0 {
		lmod := filepath.Join(det, "libmod")
		if err := prepareModule(lmod); err == nil {
			os.MkdirAll(filepath.Join(lmod, "libgen"), 0o755)
			os.WriteFile(filepath.Join(lmod, "libgen", "main.go"), []byte(libgenSource), 0o644)
			d1, d2, d3 := filepath.Join(det, "lib1", "fix44"), filepath.Join(det, "lib2", "nested", "fix44"), filepath.Join(det, "lib3", "fix44")
			d4, d5, d6 := filepath.Join(det, "lib4", "fix44"), filepath.Join(det, "lib5", "nested", "fix44"), filepath.Join(det, "lib6", "fix44")
			out, err := run(lmod, "go", "run", "./libgen", schema, typesP, d1, d2, d3, d4, d5, d6)
			c.Count("disagreements_checked", 1)
			c.Count("library_api_generations_from_one_parsed_schema", 6)
			c.Count("library_api_executions_of_one_generator_object", 3)
			if err != nil {
				c.Violate("C12/library-api/generation-from-an-already-used-schema-object-failed", "parsing the reference schema once and generating from that object three times: "+vk.Trunc(out, 600), map[string]interface{}{"output": vk.Trunc(out, 1500)})
			} else {
				for k, d := range []string{d1, d2, d3, d4, d5, d6} {
					fs, _ := readDir(d)
					c.Count("disagreements_checked", 1)
					if !sameFiles(sets[0], fs) {
						c.Violate("C12/library-api/output-differs-from-the-command-line-generation", fmt.Sprintf("generation #%d from one parsed schema object differs from what cmd/fixgen emits for the same schema: %s", k+1, firstDiff(sets[0], fs)), map[string]interface{}{"generation": k + 1})
						break
					}
				}
			}
			// a duplicate added to the parsed document in memory: rejected at every attempt; after the application took it
			// out again, the same Generator and a new one produce the package of the schema
			os.MkdirAll(filepath.Join(lmod, "libreject"), 0o755)
			os.WriteFile(filepath.Join(lmod, "libreject", "main.go"), []byte(librejectSource), 0o644)
			for _, mode := range []string{"msgtype", "field"} {
				var outs []string
				for k := 0; k < 4; k++ {
					outs = append(outs, filepath.Join(det, "librej-"+mode+strconv.Itoa(k), "fix44"))
				}
				out, err := run(lmod, "go", append([]string{"run", "./libreject", mode, schema, typesP}, outs...)...)
				c.Count("disagreements_checked", 4)
				c.Count("library_api_rejection_and_repair_sequences", 1)
				replay := map[string]interface{}{"mode": mode, "output": vk.Trunc(out, 1500)}
				if err != nil {
					c.Violate("C12/library-api/rejection-and-repair-sequence-failed", "duplicate "+mode+" added in memory: "+vk.Trunc(out, 600), replay)
					continue
				}
				for _, att := range []string{"ATTEMPT1", "ATTEMPT2"} {
					if !strings.Contains(out, att+": rejected") {
						c.Violate("C12/duplicate-accepted/library-api/"+mode, fmt.Sprintf("a schema object with a duplicate %s was not rejected at %s on one Generator: %s", mode, att, vk.Trunc(out, 400)), replay)
					}
				}
				for k, tag := range []string{"REPAIRED-SAME-GENERATOR", "REPAIRED-NEW-GENERATOR"} {
					if !strings.Contains(out, tag+": generated") {
						c.Violate("C12/generator-failed-on-valid-schema/after-a-rejected-attempt", fmt.Sprintf("after the duplicate %s was taken out of the document again: %s", mode, vk.Trunc(out, 400)), replay)
						continue
					}
					fs, _ := readDir(outs[2+k])
					if !sameFiles(sets[0], fs) {
						c.Violate("C12/library-api/output-after-a-rejected-attempt-differs", fmt.Sprintf("%s (duplicate %s rejected twice, then removed from the document): the package differs from what cmd/fixgen emits for the schema: %s", tag, mode, firstDiff(sets[0], fs)), replay)
					}
				}
			}
		} else {
			c.Inconclusive("scratch module for the library-API stage: " + err.Error())
		}
	}
	// the shipped reference package corresponds to fresh generation, declaration for declaration
	if len(sets) > 0 {
		fresh, err1 := declMultiset(filepath.Join(det, labels[0]))
		shipped, err2 := declMultiset(repo + "/tests/fix44")
		if err1 != nil || err2 != nil {
			c.Inconclusive(fmt.Sprintf("cannot parse packages for the reference comparison: %v %v", err1, err2))
		} else {
			var only []string
			for d, n := range fresh {
				if shipped[d] != n {
					only = append(only, "generated but not shipped: "+vk.Trunc(d, 160))
				}
			}
			for d, n := range shipped {
				if fresh[d] != n {
					only = append(only, "shipped but not generated: "+vk.Trunc(d, 160))
				}
			}
			sort.Strings(only)
			c.Count("disagreements_checked", int64(len(fresh)))
			c.Count("reference_declarations_compared", int64(len(fresh)))
			if len(only) > 0 {
				c.Violate("C12/reference-package-differs-from-generation", fmt.Sprintf("tests/fix44 vs fresh generation from source/fix44.xml: %d declarations differ, e.g. %s", len(only), strings.Join(only[:min(3, len(only))], " | ")), map[string]interface{}{"differences": only})
			}
		}
	}
	os.RemoveAll(det)
	c.Finish()
}

func min(a, b int) int {
	if a < b {
		return a
	}
	return b
}

func sameFiles(a, b map[string]string) bool {
	if len(a) != len(b) {
		return false
	}
	for k, v := range a {
		if b[k] != v {
			return false
		}
	}
	return true
}

func firstDiff(a, b map[string]string) string {
	for k, v := range a {
		w, ok := b[k]
		if !ok {
			return "file " + k + " missing"
		}
		if v != w {
			al, bl := strings.Split(v, "\n"), strings.Split(w, "\n")
			for i := 0; i < len(al) && i < len(bl); i++ {
				if al[i] != bl[i] {
					return fmt.Sprintf("%s line %d: %q vs %q", k, i+1, al[i], bl[i])
				}
			}
			return k + " differs in length"
		}
	}
	for k := range b {
		if _, ok := a[k]; !ok {
			return "extra file " + k
		}
	}
	return ""
}

var _ = bytes.Equal
