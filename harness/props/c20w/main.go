// c20w is the -race workload for C20: full-stack sessions on the direction-independent
// scripted transport, driven by timed scripts that are causally independent of what the
// library writes. It prints a JSON summary; race reports go to GORACE log_path.
package main

import (
	"encoding/json"
	"errors"
	"flag"
	"fmt"
	"math/rand"
	"os"
	"sync"
	"time"

	simplefixgo "github.com/b2broker/simplefix-go"
	"github.com/b2broker/simplefix-go/session"
	fixgen "github.com/b2broker/simplefix-go/tests/fix44"
	"github.com/b2broker/simplefix-go/utils"

	"verifharness/fixref"
	"verifharness/rig"
	"verifharness/wire"
)

type interval struct {
	Kind     string
	From, To int64
}

type summary struct {
	Sessions       int            `json:"sessions"`
	Frames         map[string]int `json:"frames_by_type"`
	TimerHB        int            `json:"unsolicited_heartbeats"`
	TimerTR        int            `json:"test_requests"`
	OverlapPairs   []string       `json:"overlapping_activity_pairs"`
	LoggedSessions int            `json:"sessions_that_logged_on"`
	Descs          []string       `json:"scenarios"`
}

func main() {
	seed := flag.Int64("seed", 1, "")
	n := flag.Int("n", 16, "sessions")
	flag.Parse()
	var mu sync.Mutex
	var all []interval
	sum := summary{Frames: map[string]int{}}
	var wg sync.WaitGroup
	for i := 0; i < *n; i++ {
		wg.Add(1)
		go func(i int) {
			defer wg.Done()
			ivs, frames, logged, desc := session1(*seed, i)
			mu.Lock()
			all = append(all, ivs...)
			for _, f := range frames {
				sum.Frames[f.Type]++
				if f.Type == "1" {
					sum.TimerTR++
				}
				if f.Type == "0" {
					has := false
					for _, fl := range f.Fields {
						if fl.Tag == "112" {
							has = true
						}
					}
					if !has {
						sum.TimerHB++
					}
				}
			}
			if logged {
				sum.LoggedSessions++
			}
			sum.Descs = append(sum.Descs, desc)
			mu.Unlock()
		}(i)
	}
	wg.Wait()
	sum.Sessions = *n
	// overlapping kinds (per session intervals were tagged with the session index in Kind prefix)
	pairs := map[string]bool{}
	bySess := map[string][]interval{}
	for _, iv := range all {
		var s, k string
		fmt.Sscanf(iv.Kind, "%s", &s)
		for j := 0; j < len(iv.Kind); j++ {
			if iv.Kind[j] == '|' {
				s, k = iv.Kind[:j], iv.Kind[j+1:]
				break
			}
		}
		bySess[s] = append(bySess[s], interval{k, iv.From, iv.To})
	}
	for _, ivs := range bySess {
		for a := 0; a < len(ivs); a++ {
			for b := a + 1; b < len(ivs); b++ {
				if ivs[a].Kind != ivs[b].Kind && ivs[a].From < ivs[b].To && ivs[b].From < ivs[a].To {
					x, y := ivs[a].Kind, ivs[b].Kind
					if y < x {
						x, y = y, x
					}
					pairs[x+"&"+y] = true
				}
			}
		}
	}
	for p := range pairs {
		sum.OverlapPairs = append(sum.OverlapPairs, p)
	}
	b, _ := json.Marshal(sum)
	fmt.Println("SUMMARY " + string(b))
	os.Exit(0)
}

func session1(seed int64, i int) (ivs []interval, frames []rig.Frame, logged bool, desc string) {
	r := rand.New(rand.NewSource(seed*1000 + int64(i)))
	role := rig.Role(i % 2)
	buf := []int{0, 1, 10}[r.Intn(3)]
	nSenders := 4 + r.Intn(5)
	sweep := time.Duration(i%16) * 20 * time.Millisecond // inbound times are swept in 20 ms steps across the timer expiries
	variant := []string{"resend+silence", "relogon", "register+query", "stop", "relogon-storm", "stalled-writer", "peer-closes-while-sending"}[(i/2)%7]
	desc = fmt.Sprintf("%s buf=%d senders=%d sweep=%v variant=%s", role, buf, nSenders, sweep, variant)
	tag := fmt.Sprintf("s%d|", i)
	var imu sync.Mutex
	rec := func(kind string, from, to time.Time) {
		imu.Lock()
		ivs = append(ivs, interval{tag + kind, from.UnixNano(), to.UnixNano()})
		imu.Unlock()
	}
	if variant == "stalled-writer" && buf > 1 {
		buf = 1
	}
	// every second accepting scenario: a second client is connected to the same acceptor, and both sessions are
	// made from ONE session.Opts object (as in the library's examples); the second client logs on, exchanges
	// traffic, logs out and on again while the first one does what its variant says
	twoClients := role == rig.Acceptor && (i/4)%2 == 0
	fcfg := rig.FullCfg{Role: role, HeartBtInt: 1, BufSize: buf, Notify: false, Label: fmt.Sprintf("c20-%d", i), CloseTimeout: 200 * time.Millisecond, WriteTimeout: 10 * time.Second}
	if twoClients {
		fcfg.SharedOpts = rig.Opts()
		desc += " second-client-sharing-the-session-options"
	}
	f, err := rig.StartFull(fcfg)
	if err != nil {
		return
	}
	var l, l2 *rig.Link
	if role == rig.Acceptor {
		if l, err = f.Connect(fmt.Sprintf("c20-%d", i)); err != nil {
			return
		}
		if twoClients {
			if l2, err = f.Connect(fmt.Sprintf("c20-%d-second", i)); err != nil {
				return
			}
		}
	} else {
		l = f.Links[0]
	}
	if variant == "stop" && i%4 >= 2 {
		// an application logout callback that is slower than the close timeout (200 ms): the timeout ends the Stop while
		// the logout event is still being delivered to the callbacks
		l.S.OnChangeState(utils.EventLogout, func() bool { time.Sleep(400 * time.Millisecond); return true })
		l.S.OnChangeState(utils.EventLogout, func() bool { return true })
		desc += " slow-logout-callback"
	}
	// the session is published to the other goroutines through a channel
	sessCh := make(chan *session.Session, 16)
	for k := 0; k < 16; k++ {
		sessCh <- l.S
	}
	start := time.Now()
	at := func(d time.Duration) { time.Sleep(time.Until(start.Add(d))) }
	var wg sync.WaitGroup
	// inbound script (timed, blind)
	wg.Add(1)
	go func() {
		defer wg.Done()
		p := l.Peer
		at(50 * time.Millisecond)
		l.Conn.Feed(p.Logon(1, "0"))
		switch variant {
		case "stalled-writer":
			// the peer stops reading for 1.5 s (and is silent): a sender blocks on the full outgoing queue while it holds
			// the send lock, both timer goroutines queue up behind it and go off back to back when the peer reads again
			at(1500*time.Millisecond + sweep/4)
			l.Conn.SetWriteMode(wire.WriteStall)
			at(3000*time.Millisecond + sweep/4)
			l.Conn.SetWriteMode(wire.WriteAccept)
		case "peer-closes-while-sending":
			// the peer goes away (end of stream, or a reset) in the middle of the traffic: the senders, the timers and the
			// teardown of the connection all run at once, and the senders keep calling Send on the dead session
			at(400 * time.Millisecond)
			l.Conn.Feed(p.TestRequest("a"))
			at(1200*time.Millisecond + sweep)
			t0 := time.Now()
			if i%4 < 2 {
				l.Conn.FeedEOF()
			} else {
				l.Conn.FeedErr(errors.New("scripted: connection reset by peer"))
			}
			rec("connection-lost", t0, time.Now().Add(50*time.Millisecond))
		case "resend+silence":
			// traffic, then a heartbeat + resend request placed around the test-request expiry (2 s after the last inbound)
			at(400 * time.Millisecond)
			l.Conn.Feed(p.TestRequest("a"))
			at(700 * time.Millisecond)
			l.Conn.Feed(p.App("x"))
			at(700*time.Millisecond + 1850*time.Millisecond + sweep) // 2 s silence +- sweep
			t0 := time.Now()
			l.Conn.Feed(p.Heartbeat())
			l.Conn.Feed(p.Resend(1, 0))
			l.Conn.Feed(p.Resend(2, 4))
			rec("inbound-resend", t0, time.Now().Add(30*time.Millisecond))
			at(5200 * time.Millisecond)
			l.Conn.Feed(p.Resend(1, 3))
			l.Conn.Feed(p.Resend(70000, 70005))
			l.Conn.Feed(rig.BadChecksum(p.Heartbeat()))
		case "relogon":
			at(300 * time.Millisecond)
			l.Conn.Feed(p.TestRequest("a"))
			at(900*time.Millisecond + sweep)
			t0 := time.Now()
			l.Conn.Feed(p.Logout())
			time.Sleep(time.Duration(r.Intn(3000)) * time.Microsecond)
			l.Conn.Feed(p.Logon(1, "0", fixref.F("141", "Y")))
			rec("inbound-logout-logon", t0, time.Now().Add(30*time.Millisecond))
			at(2 * time.Second)
			l.Conn.Feed(p.Heartbeat())
			at(3*time.Second + sweep)
			l.Conn.Feed(p.Logout())
			l.Conn.Feed(p.Logon(1, "0", fixref.F("141", "Y")))
			at(4 * time.Second)
			l.Conn.Feed(p.TestRequest("b"))
		case "relogon-storm":
			// the peer logs out and on again every 75 ms while senders keep sending
			for k := 0; k < 40; k++ {
				at(time.Duration(400+k*75)*time.Millisecond + sweep/8)
				t0 := time.Now()
				l.Conn.Feed(p.Logout())
				time.Sleep(time.Duration(r.Intn(2000)) * time.Microsecond)
				if k%3 != 0 || i%4 >= 2 {
					l.Conn.Feed(p.Logon(1, "0", fixref.F("141", "Y"))) // the peer asks for a sequence reset
				} else {
					l.Conn.Feed(p.Logon(1, "0"))
				}
				rec("inbound-logout-logon", t0, time.Now().Add(10*time.Millisecond))
			}
		default:
			for k := 0; k < 10; k++ {
				at(time.Duration(300+k*450)*time.Millisecond + sweep/4)
				t0 := time.Now()
				switch k % 4 {
				case 0:
					l.Conn.Feed(p.TestRequest(fmt.Sprint(k)))
				case 1:
					l.Conn.Feed(p.App("x"))
				case 2:
					l.Conn.Feed(p.Resend(1, 0))
					// and requests that cannot be served: beyond the last number sent, begin above end
					l.Conn.Feed(p.Resend(90000+k, 90010+k))
					l.Conn.Feed(p.Resend(5, 2))
				default:
					l.Conn.Feed(rig.BadChecksum(p.Heartbeat()))
				}
				rec("inbound-dispatch", t0, time.Now().Add(10*time.Millisecond))
			}
		}
	}()
	if l2 != nil {
		wg.Add(2)
		go func() {
			defer wg.Done()
			p := l2.Peer
			r2 := rand.New(rand.NewSource(seed*104729 + int64(i)))
			at(50 * time.Millisecond)
			l2.Conn.Feed(p.Logon(1, "0"))
			at(350 * time.Millisecond)
			l2.Conn.Feed(p.TestRequest("second"))
			l2.Conn.Feed(rig.BadChecksum(p.Heartbeat()))
			// the same instants as the first client's Logout / Logon in the relogon variants
			at(900*time.Millisecond + sweep)
			t0 := time.Now()
			l2.Conn.Feed(p.Logout())
			time.Sleep(time.Duration(r2.Intn(3000)) * time.Microsecond)
			l2.Conn.Feed(p.Logon(1, "0"))
			rec("second-client-logout-logon", t0, time.Now().Add(30*time.Millisecond))
			for k := 0; k < 8; k++ {
				at(time.Duration(1300+k*450)*time.Millisecond + sweep/4)
				switch k % 4 {
				case 0:
					l2.Conn.Feed(p.Heartbeat())
				case 1:
					l2.Conn.Feed(p.Resend(1, 0))
				case 2:
					l2.Conn.Feed(p.Logout())
					l2.Conn.Feed(p.Logon(1, "0"))
				default:
					l2.Conn.Feed(p.TestRequest(fmt.Sprint(k)))
				}
			}
		}()
		go func() {
			defer wg.Done()
			at(200 * time.Millisecond)
			for k := 0; k < 40; k++ {
				_ = l2.S.Send(fixgen.CreateMarketDataRequestReject(fmt.Sprintf("second-%d", k)))
				time.Sleep(100 * time.Millisecond)
			}
		}()
	}
	// senders
	for g := 0; g < nSenders; g++ {
		wg.Add(1)
		go func(g int) {
			defer wg.Done()
			s := <-sessCh
			rr := rand.New(rand.NewSource(seed*7919 + int64(i*100+g)))
			at(time.Duration(150+rr.Intn(300)) * time.Millisecond)
			// every second sender builds one message object and sends that object again and again (with a field changed
			// in between): the earlier transmissions may still be queued or being written
			own := fixgen.CreateMarketDataRequestReject(fmt.Sprintf("g%d-own", g))
			for k := 0; k < 600; k++ {
				t0 := time.Now()
				if g%2 == 1 {
					own.SetText(fmt.Sprintf("resent-%d", k))
					_ = s.Send(own)
				} else {
					_ = s.Send(fixgen.CreateMarketDataRequestReject(fmt.Sprintf("g%d-%d", g, k)))
				}
				rec("send", t0, time.Now())
				if k%6 == 5 {
					if (variant == "relogon" || variant == "relogon-storm" || variant == "peer-closes-while-sending") && g < 3 {
						// keep sending densely so that sends fall between the peer's Logout and its new Logon
						time.Sleep(time.Duration(5+rr.Intn(40)) * time.Millisecond)
					} else {
						time.Sleep(time.Duration(200+rr.Intn(900)) * time.Millisecond)
					}
				}
				if time.Since(start) > 5500*time.Millisecond {
					return
				}
			}
		}(g)
	}
	// registrations and state queries, in their own phases
	wg.Add(1)
	go func() {
		defer wg.Done()
		s := <-sessCh
		if variant != "register+query" {
			at(1500 * time.Millisecond)
			t0 := time.Now()
			_ = s.IsLogged()
			_ = s.Context().Err()
			rec("query", t0, time.Now())
			return
		}
		at(600*time.Millisecond + sweep)
		t0 := time.Now()
		for k := 0; k < 5; k++ {
			s.OnChangeState(utils.EventLogout, func() bool { return true })
			l.H.HandleIncoming("V", func([]byte) bool { return true })
			l.H.HandleOutgoing("Y", func(simplefixgo.SendingMessage) bool { return true })
			time.Sleep(3 * time.Millisecond)
		}
		rec("registration", t0, time.Now())
		at(2500 * time.Millisecond)
		t0 = time.Now()
		for k := 0; k < 20; k++ {
			_ = s.IsLogged()
			_ = s.Context().Err()
			time.Sleep(time.Millisecond)
		}
		rec("query", t0, time.Now())
	}()
	wg.Wait()
	at(5800 * time.Millisecond)
	logged = l.S.IsLogged()
	if variant == "stop" || variant == "relogon" {
		// the peer answers the Logout that Stop sends as soon as it sees it (so that the answer is dispatched while
		// Stop may still be running)
		fr0, _ := l.Frames()
		n0 := 0
		for _, x := range fr0 {
			if x.Type == "5" {
				n0++
			}
		}
		answered := make(chan struct{})
		go func() {
			defer close(answered)
			deadline := time.Now().Add(300 * time.Millisecond)
			for time.Now().Before(deadline) {
				fr, _ := l.Frames()
				n := 0
				for _, x := range fr {
					if x.Type == "5" {
						n++
					}
				}
				if n > n0 {
					l.Conn.Feed(l.Peer.Logout())
					return
				}
				time.Sleep(100 * time.Microsecond)
			}
		}()
		t0 := time.Now()
		_ = l.S.Stop()
		rec("stop", t0, time.Now())
		<-answered
		time.Sleep(400 * time.Millisecond)
	}
	f.Shutdown()
	time.Sleep(300 * time.Millisecond)
	frames, _ = l.Frames()
	// timer expiries as intervals (from the wire, after quiescence)
	for _, fr := range frames {
		if fr.Type == "1" {
			rec("in-timer-expiry", fr.T.Add(-20*time.Millisecond), fr.T.Add(20*time.Millisecond))
		}
		if fr.Type == "0" {
			solicited := false
			for _, fl := range fr.Fields {
				if fl.Tag == "112" {
					solicited = true
				}
			}
			if !solicited {
				rec("out-timer-expiry", fr.T.Add(-20*time.Millisecond), fr.T.Add(20*time.Millisecond))
			}
		}
	}
	return
}
