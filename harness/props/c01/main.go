// C01 — serialized messages carry a correct BodyLength and CheckSum.
package main

import (
	"bytes"
	"fmt"
	"runtime"
	"strconv"
	"strings"

	"github.com/b2broker/simplefix-go/fix"

	"verifharness/fixref"
	"verifharness/gen"
	"verifharness/vk"
)

var lengthTargets = []int{9, 10, 11, 98, 99, 100, 101, 998, 999, 1000, 1001, 9999, 10000, 10001}

func main() {
	c := vk.Init("C01")
	c.Rule("case i: PRNG(seed,i) draws template+population+values as in C17 (arbitrary or 8/9/35/10 framing tags, header/body/trailer empty or not); one String field is then padded so that BodyLength lands on a drawn target among {9,10,11,98..101,998..1001,9999..10001} and one byte nudged so that the checksum hits a drawn residue; plus every tests/fix44 type; every message object is then updated in place through its setters / AddEntry and serialized again (twice), and the slices handed out by the earlier ToBytes calls are re-read afterwards: they must not have been written to; every third message then gets an entry with nothing populated added to its first group and is serialized once more. Oracle: fixref.CheckFrame on the emitted bytes alone. distinct = hash(shape, wire bytes); non-trivial = at least one populated non-framing field")
	c.Assume("fixref.CheckFrame (written from the FIX definition of BodyLength/CheckSum) is the trusted base")
	n := c.Pick(20000, 1000000)
	nf44 := c.Pick(200, 2000)
	o := gen.DefaultOpts()

	judge := func(kind string, idx int, ft fixref.FramingTags, shape string, wire []byte, err error, pan string, desc string, nontrivial bool, emptiness string) bool {
		replay := map[string]interface{}{"generator": kind, "index": idx, "seed": c.Seed, "population": vk.Trunc(desc, 1500), "wire": vk.Trunc(fixref.Pretty(wire), 1500)}
		if pan != "" {
			c.Violate("C01/serialize-panic", "ToBytes panicked: "+pan, replay)
			return false
		}
		if err != nil {
			c.Violate("C01/serialize-error", "ToBytes error: "+err.Error(), replay)
			return false
		}
		c.Eval(vk.Hash64([]byte(shape), wire), nontrivial)
		if ferr := fixref.CheckFrame(ft, wire); ferr != nil {
			cls := "frame"
			s := ferr.Error()
			switch {
			case strings.HasPrefix(s, "body length declared"):
				cls = "body-length-wrong"
			case strings.HasPrefix(s, "checksum declared"):
				cls = "checksum-wrong"
			case strings.HasPrefix(s, "checksum value"):
				cls = "checksum-not-three-digits"
			case strings.HasPrefix(s, "leading fields"):
				cls = "leading-fields"
			case strings.HasPrefix(s, "last field"):
				cls = "last-field-not-checksum"
			}
			c.Violate("C01/"+cls, s, replay)
			return false
		}
		// coverage bookkeeping from the bytes themselves
		fs, _ := fixref.TokenizeLoose(wire)
		if len(fs) >= 4 {
			bl := string(fs[1].Val)
			c.SetAdd("bodylength_digit_classes", strconv.Itoa(len(bl)))
			if v, e := strconv.Atoi(bl); e == nil {
				for _, t := range lengthTargets {
					if v == t {
						c.SetAdd("bodylength_boundary_values_hit", bl)
					}
				}
			}
			c.SetAdd("checksum_residues_hit", string(fs[len(fs)-1].Val))
		}
		c.SetAdd("emptiness_header_body_trailer", emptiness)
		return true
	}

	vk.Parallel(n, runtime.NumCPU(), func(i int) {
		r := c.Rand("c01", int64(i))
		oo := o
		if i%7 == 0 { // tiny templates so that the smallest length classes are reachable
			oo.MaxWidth = 1
			oo.Trailer = false
			oo.StdFraming = true
		}
		oo.TrailerNested = i%4 == 1
		t := gen.RandTemplate(r, oo)
		if i%7 == 0 {
			t.MsgType = "A"
		}
		if i%5 == 2 && oo.Trailer {
			// the trailer template declares a member for the CheckSum tag itself (as generated trailers do), at any position,
			// next to at least one other member
			if len(t.Trailer) == 0 {
				t.Trailer = append(t.Trailer, &gen.Node{NK: gen.NField, Tag: t.FreshTag(r), VK: gen.KString})
			}
			at := r.Intn(len(t.Trailer) + 1)
			sum := &gen.Node{NK: gen.NField, Tag: t.FT.Sum, VK: []gen.Kind{gen.KString, gen.KInt, gen.KRaw}[r.Intn(3)]}
			t.Trailer = append(t.Trailer[:at], append([]*gen.Node{sum}, t.Trailer[at:]...)...)
			c.SetAdd("checksum_member_position_in_trailer", fmt.Sprintf("%d-of-%d", at, len(t.Trailer)))
		}
		if i%6 == 3 {
			// the header template declares members for the framing tags themselves (a header built from the complete
			// dictionary, or a parsed message relayed): whatever is populated there is serialized and counted like any field
			var which []string
			for k, tag := range []string{t.FT.Begin, t.FT.Len, t.FT.Type} {
				if r.Intn(2) == 0 {
					continue
				}
				kind := gen.KString
				if k == 1 {
					kind = []gen.Kind{gen.KInt, gen.KString}[r.Intn(2)]
				}
				at := r.Intn(len(t.Header) + 1)
				t.Header = append(t.Header[:at], append([]*gen.Node{{NK: gen.NField, Tag: tag, VK: kind}}, t.Header[at:]...)...)
				which = append(which, []string{"BeginString", "BodyLength", "MsgType"}[k])
			}
			c.SetAdd("framing_tags_declared_as_header_members", strings.Join(which, "+"))
		}
		// steering field: a String in the body
		steerTag := "7"
		for used := map[string]bool{}; ; {
			for _, x := range t.AllFieldTags() {
				used[x] = true
			}
			for _, x := range []string{t.FT.Begin, t.FT.Len, t.FT.Type, t.FT.Sum} {
				used[x] = true
			}
			if i%7 != 0 {
				steerTag = strconv.Itoa(1 + r.Intn(9999))
			}
			for used[steerTag] {
				steerTag = strconv.Itoa(1 + r.Intn(9999))
			}
			break
		}
		if i%11 == 5 { // no steering field: header and/or body may be completely empty
			mp := gen.RandPop(r, t, oo)
			m, _ := mp.Build()
			wire, err, pan := gen.Serialize(m)
			judge("template", i, t.FT, t.Shape(), wire, err, pan, mp.Describe(), mp.CountPopulated() > 0, emptiness(mp))
			return
		}
		steerNode := &gen.Node{NK: gen.NField, Tag: steerTag, VK: gen.KString}
		t.Body = append(t.Body, steerNode)
		mp := gen.RandPop(r, t, oo)
		sp := mp.Body[len(mp.Body)-1]
		sp.Val = &gen.Value{K: gen.KString, S: "x"}
		sp.How = gen.HowNew
		c.Max("max_depth", int64(t.MaxDepth()))

		m, _ := mp.Build()
		wire, err, pan := gen.Serialize(m)
		emp := emptiness(mp)
		if !judge("template", i, t.FT, t.Shape(), wire, err, pan, mp.Describe(), true, emp) {
			return
		}
		// steer the length: measured independently from the frame
		cur := measuredLen(t.FT, wire)
		target := lengthTargets[r.Intn(len(lengthTargets))]
		if d := target - cur; cur > 0 && 1+d >= 1 && 1+d <= 12000 {
			sp.Val.S = strings.Repeat("x", 1+d)
		}
		// steer the checksum residue
		m, _ = mp.Build()
		wire, err, pan = gen.Serialize(m)
		if err == nil && pan == "" && len(sp.Val.S) >= 2 {
			fs, _ := fixref.TokenizeLoose(wire)
			if len(fs) >= 4 {
				curSum, _ := strconv.Atoi(string(fs[len(fs)-1].Val))
				want := r.Intn(256)
				if r.Intn(3) == 0 {
					want = r.Intn(10) // residues below 10 and below 100 matter most
				} else if r.Intn(3) == 0 {
					want = r.Intn(100)
				}
				d := (want - curSum + 512) % 256
				b := []byte(sp.Val.S)
				// spread d over two bytes so that neither becomes SOH
				d1 := d / 2
				d2 := d - d1
				b0 := byte((int(b[0]) + d1) % 256)
				b1 := byte((int(b[1]) + d2) % 256)
				if b0 == 1 {
					b0, b1 = 2, byte((int(b1)+255)%256)
				}
				if b1 == 1 {
					b1, b0 = 2, byte((int(b0)+255)%256)
				}
				if b0 != 1 && b1 != 1 {
					b[0], b[1] = b0, b1
					sp.Val.S = string(b)
				}
			}
		}
		m, _ = mp.Build()
		var handed [][2][]byte // slices handed out by earlier ToBytes calls on this object, with a copy taken at that time
		var h0 []byte
		h0, wire, err, pan = gen.SerializeKeep(m)
		handed = append(handed, [2][]byte{h0, wire})
		judge("template+steered", i, t.FT, t.Shape(), wire, err, pan, mp.Describe(), true, emp)
		// the same message object, updated in place (setters on its existing values, new group entries) and serialized again
		for round := 0; round < 2; round++ {
			exp2, _ := gen.PopulateLib(r, m, oo, true)
			h0, wire, err, pan = gen.SerializeKeep(m)
			// what an earlier ToBytes handed out (it may still be queued for sending) must not be written to by a later one
			for k, hc := range handed {
				c.Count("earlier_outputs_rechecked_after_a_later_serialization", 1)
				if !bytes.Equal(hc[0], hc[1]) {
					c.Violate("C01/earlier-output-overwritten-by-later-serialization", fmt.Sprintf("the bytes returned by ToBytes call #%d of one message object were changed by ToBytes call #%d on the same object (after in-place updates): they now read %s (framing oracle on them: %v)", k, len(handed), vk.Trunc(fixref.Pretty(hc[0]), 300), fixref.CheckFrame(t.FT, hc[0])), map[string]interface{}{"generator": "template+updated-in-place", "index": i, "seed": c.Seed, "was": vk.Trunc(fixref.Pretty(hc[1]), 600)})
					break
				}
			}
			handed = append(handed, [2][]byte{h0, wire})
			var d2 []string
			for _, e := range exp2 {
				d2 = append(d2, e.Path+":"+e.String())
			}
			judge("template+updated-in-place", i, t.FT, t.Shape(), wire, err, pan, "after in-place updates: "+strings.Join(d2, " | "), true, "reserialized")
			c.Count("reserializations_after_in_place_update", 1)
		}
		// an entry in which nothing is populated, added to the first repeating group of the message (header or body)
		if g := firstGroup(m); g != nil && i%3 == 0 {
			g.AddEntry(g.AsTemplate())
			wire, err, pan = gen.Serialize(m)
			judge("template+entry-without-populated-fields", i, t.FT, t.Shape(), wire, err, pan, "after adding an entry with nothing populated to group "+g.NoTag(), true, "reserialized")
			c.Count("serializations_with_an_entry_that_has_nothing_populated", 1)
		}
		if c.WantSample() && i%1000 == 3 {
			c.Sample(map[string]interface{}{"index": i, "population": vk.Trunc(mp.Describe(), 300), "wire": vk.Trunc(fixref.Pretty(wire), 300)})
		}
	})

	vk.Parallel(nf44*len(gen.F44Types), runtime.NumCPU(), func(i int) {
		ty := gen.F44Types[i%len(gen.F44Types)]
		r := c.Rand("c01-fix44", int64(i))
		m := ty.New()
		exp, _ := gen.PopulateLib(r, m, o, true)
		wire, err, pan := gen.Serialize(m)
		var d []string
		for _, e := range exp {
			d = append(d, e.Path+":"+e.String())
		}
		judge("fix44/"+ty.Name, i, fixref.Std, "fix44/"+ty.Name, wire, err, pan, strings.Join(d, " | "), len(exp) > 0, "fix44")
		// update the same object in place and serialize it again (e.g. a reused message whose MsgSeqNum grows from 9 to 10)
		exp2, _ := gen.PopulateLib(r, m, o, true)
		wire, err, pan = gen.Serialize(m)
		d = d[:0]
		for _, e := range exp2 {
			d = append(d, e.Path+":"+e.String())
		}
		judge("fix44/"+ty.Name+"+updated-in-place", i, fixref.Std, "fix44/"+ty.Name, wire, err, pan, "after in-place updates: "+strings.Join(d, " | "), len(exp2) > 0, "fix44")
		c.Count("reserializations_after_in_place_update", 1)
		c.SetAdd("fix44_types", ty.Name)
	})

	// exhaustive small sweep: every body length 5..1100 for a fixed minimal shape, every residue by construction
	for L := 0; L <= 1200; L++ {
		m := fix.NewMessage("8", "9", "10", "35", "FIX.4.4", "A").SetHeader(fix.NewComponent()).SetTrailer(fix.NewComponent())
		if L > 0 {
			m.SetBody(fix.NewKeyValue("58", fix.NewString(strings.Repeat("y", L))))
		}
		wire, err, pan := gen.Serialize(m)
		judge("length-sweep", L, fixref.Std, "sweep", wire, err, pan, fmt.Sprintf("58=y*%d", L), L > 0, "sweep")
	}
	c.Finish()
}

// firstGroup finds the first repeating group of a message (header first, then body; through components and entries).
func firstGroup(m *fix.Message) *fix.Group {
	var walk func(items fix.Items) *fix.Group
	walk = func(items fix.Items) *fix.Group {
		for _, it := range items {
			switch el := it.(type) {
			case *fix.Group:
				if el != nil {
					return el
				}
			case *fix.Component:
				if el != nil {
					if g := walk(el.Items()); g != nil {
						return g
					}
				}
			}
		}
		return nil
	}
	if h := m.Header(); h != nil {
		if g := walk(h.Items()); g != nil {
			return g
		}
	}
	return walk(m.Body())
}

func measuredLen(ft fixref.FramingTags, wire []byte) int {
	fs, err := fixref.TokenizeLoose(wire)
	if err != nil || len(fs) < 4 {
		return -1
	}
	n := 0
	for _, f := range fs[2 : len(fs)-1] {
		n += len(f.Tag) + 1 + len(f.Val) + 1
	}
	return n
}

func emptiness(mp *gen.MsgPop) string {
	var parts []gen.Exp
	s := ""
	for _, p := range [][]*gen.Pop{mp.Header, mp.Body, mp.Trailer} {
		parts = parts[:0]
		tmp := &gen.MsgPop{T: mp.T, Body: p}
		if len(tmp.Expected(false)) > 0 {
			s += "1"
		} else {
			s += "0"
		}
	}
	return s
}
