package main

import (
	"context"
	"errors"
	"fmt"
	"net"
	"runtime/pprof"
	"sort"
	"strings"
	"sync"
	"sync/atomic"
	"time"

	simplefixgo "github.com/b2broker/simplefix-go"

	"verifharness/fixref"
	"verifharness/rig"
	"verifharness/vk"
	"verifharness/wire"
)

// Bare cells: a connection served for a handler WITHOUT a session on top of it. A session's own silent-peer detection
// stops its handler a few seconds after any loss of traffic and so bounds how long a forgotten handler can keep a
// serving call alive; without a session nothing does, and every way of ending the connection has to end everything
// by itself.
type bareCell struct {
	role  rig.Role
	cause string
	phase string // idle | inbound-backlog | close-before-serve
	buf   int
}

func (b bareCell) String() string {
	return fmt.Sprintf("bare-handler %s cause=%s phase=%s buf=%d", b.role, b.cause, b.phase, b.buf)
}

type bareOutcome struct {
	ce           bareCell
	label        string
	conn         *wire.Conn
	served       chan struct{}
	notified     int32
	sendBlocked  bool
	applicable   bool
	tFault       time.Time
	stop         func()
	setupProblem string
}

func runBare(ce bareCell, idx int) *bareOutcome {
	o := &bareOutcome{ce: ce, label: fmt.Sprintf("c13-bare-%d", idx), served: make(chan struct{}), applicable: true}
	conn := wire.NewConn(o.label, true)
	o.conn = conn
	labels := pprof.Labels("scn", o.label)
	release := make(chan struct{})
	slow := func([]byte) bool {
		select {
		case <-release:
		case <-time.After(2 * time.Millisecond):
		}
		return true
	}
	var send func([]byte) error
	var stopHandler func()
	var closeOwner func()
	if ce.role == rig.Initiator {
		h := simplefixgo.NewInitiatorHandler(context.Background(), "35", ce.buf)
		h.HandleIncoming(simplefixgo.AllMsgTypes, slow)
		h.OnDisconnect(func() bool { atomic.AddInt32(&o.notified, 1); return true })
		h.OnStopped(func() bool { atomic.AddInt32(&o.notified, 1); return true })
		ini := simplefixgo.NewInitiator(conn, h, ce.buf, 400*time.Millisecond)
		send, stopHandler, closeOwner = h.SendRaw, h.Stop, ini.Close
		if ce.phase == "close-before-serve" {
			ini.Close()
		}
		go pprof.Do(context.Background(), labels, func(context.Context) { _ = ini.Serve(); close(o.served) })
	} else {
		lst := wire.NewListener()
		ready := make(chan simplefixgo.AcceptorHandler, 1)
		acc := simplefixgo.NewAcceptor(lst, simplefixgo.NewAcceptorHandlerFactory("35", ce.buf), 400*time.Millisecond, func(h simplefixgo.AcceptorHandler) {
			h.HandleIncoming(simplefixgo.AllMsgTypes, slow)
			h.OnDisconnect(func() bool { atomic.AddInt32(&o.notified, 1); return true })
			h.OnStopped(func() bool { atomic.AddInt32(&o.notified, 1); return true })
			ready <- h
		})
		go pprof.Do(context.Background(), labels, func(context.Context) { _ = acc.ListenAndServe(); close(o.served) })
		lst.Connect(conn)
		select {
		case h := <-ready:
			send, stopHandler = h.SendRaw, h.Stop
		case <-time.After(5 * time.Second):
			o.setupProblem = "acceptor created no handler"
			return o
		}
		closeOwner = acc.Close
	}
	o.stop = func() { close(release); closeOwner(); conn.Close() }
	time.Sleep(10 * time.Millisecond)
	if ce.phase == "inbound-backlog" {
		var burst []byte
		for k := 0; k < 40; k++ {
			burst = append(burst, fixref.Encode(fixref.Std, "FIX.4.4", "D", []fixref.Field{fixref.F("58", fmt.Sprintf("backlog-%d", k))})...)
		}
		conn.Feed(burst)
		time.Sleep(8 * time.Millisecond)
	}
	o.tFault = time.Now()
	switch ce.cause {
	case "peer-eof":
		conn.FeedEOF()
	case "read-error":
		conn.FeedErr(errors.New("scripted: connection reset by peer"))
	case "write-error":
		conn.FailNextWrite()
		go func() { _ = send(fixref.Encode(fixref.Std, "FIX.4.4", "D", []fixref.Field{fixref.F("58", "trigger")})) }()
	case "owner-close":
		if ce.phase != "close-before-serve" {
			closeOwner()
		}
	case "handler-stop":
		stopHandler()
	}
	time.Sleep(time.Second)
	done := make(chan struct{})
	go func() {
		_ = send(fixref.Encode(fixref.Std, "FIX.4.4", "D", []fixref.Field{fixref.F("58", "after-termination")}))
		close(done)
	}()
	select {
	case <-done:
	case <-time.After(3 * time.Second):
		o.sendBlocked = true
	}
	time.Sleep(time.Until(o.tFault.Add(4500 * time.Millisecond)))
	return o
}

func judgeBare(c *vk.Ctx, o *bareOutcome, p1, p2 []rig.GStack) {
	ce := o.ce
	desc := ce.String()
	replay := map[string]interface{}{"cell": desc, "label": o.label, "seed": c.Seed}
	if o.setupProblem != "" {
		c.Inconclusive("setup (" + o.setupProblem + "): " + desc)
		return
	}
	c.Eval(vk.Hash64([]byte(desc)), true)
	c.SetAdd("bare_handler_cells", fmt.Sprintf("%s/%s/%s", ce.role, ce.cause, ce.phase))
	key := fmt.Sprintf("bare-handler/%s/%s/%s", ce.role, ce.cause, ce.phase)
	if closed, _ := o.conn.Closed(); !closed {
		c.Violate("C13/socket-not-closed/"+key, desc+": net.Conn.Close was not called within the settling time", replay)
	}
	servedRet := false
	select {
	case <-o.served:
		servedRet = true
	default:
	}
	if ce.role == rig.Initiator && !servedRet {
		c.Violate("C13/serve-did-not-return/"+key, desc+": Initiator.Serve has not returned within the settling time", replay)
	}
	if ce.role == rig.Acceptor && ce.cause == "owner-close" && !servedRet {
		c.Violate("C13/serve-did-not-return/"+key, desc+": Acceptor.ListenAndServe has not returned after Acceptor.Close", replay)
	}
	if (ce.cause == "peer-eof" || ce.cause == "read-error" || ce.cause == "write-error") && atomic.LoadInt32(&o.notified) == 0 {
		c.Violate("C13/no-disconnect-or-stopped-notification/"+key, desc+": the application got neither OnDisconnect nor OnStopped", replay)
	}
	if o.sendBlocked {
		c.Violate("C13/send-blocks-after-termination/"+key, desc+": a SendRaw issued 1 s after the termination had not returned 3 s later", replay)
	}
	in2 := map[string]bool{}
	for _, g := range p2 {
		if g.Label == o.label && g.StartedByLibrary() {
			in2[g.Sig()] = true
		}
	}
	var leaks []string
	frames := map[string]bool{}
	for _, g := range p1 {
		if g.Label != o.label || !g.StartedByLibrary() || !in2[g.Sig()] {
			continue
		}
		if ce.cause != "owner-close" && ce.role == rig.Acceptor && g.Has("(*Acceptor).ListenAndServe") {
			continue
		}
		frames[g.TopLibFrame()] = true
		leaks = append(leaks, fmt.Sprintf("%d x %s", g.Count, strings.Join(g.Frames, " < ")))
	}
	if len(leaks) > 0 {
		var fl []string
		for fr := range frames {
			fl = append(fl, fr)
		}
		sort.Strings(fl)
		c.Violate("C13/goroutine-leak/"+key+"/"+strings.Join(fl, "+"), fmt.Sprintf("%s: library goroutines still present 4.5 s and 5.5 s after the termination:\n  %s", desc, strings.Join(leaks, "\n  ")), replay)
	}
}

func bareMatrix(c *vk.Ctx) {
	var cells []bareCell
	k := int(c.Seed)
	for _, role := range []rig.Role{rig.Acceptor, rig.Initiator} {
		for _, cause := range []string{"peer-eof", "read-error", "write-error", "owner-close", "handler-stop"} {
			for _, phase := range []string{"idle", "inbound-backlog"} {
				bufs := []int{[]int{0, 1, 10}[k%3]}
				if c.Thorough() || phase == "inbound-backlog" {
					bufs = []int{0, 1, 10}
				}
				for _, b := range bufs {
					cells = append(cells, bareCell{role, cause, phase, b})
				}
				k++
			}
		}
	}
	cells = append(cells, bareCell{rig.Initiator, "owner-close", "close-before-serve", 0}, bareCell{rig.Initiator, "owner-close", "close-before-serve", 10})
	if c.Shard != 0 {
		return
	}
	outs := make([]*bareOutcome, len(cells))
	var wg sync.WaitGroup
	for i := range cells {
		wg.Add(1)
		go func(i int) {
			defer wg.Done()
			outs[i] = runBare(cells[i], i)
		}(i)
	}
	wg.Wait()
	p1 := rig.GoroutineProfile()
	time.Sleep(time.Second)
	p2 := rig.GoroutineProfile()
	for _, o := range outs {
		judgeBare(c, o, p1, p2)
	}
	for _, o := range outs {
		if o.stop != nil {
			o.stop()
		}
	}
	c.Count("bare_handler_cells_run", int64(len(cells)))
}

// lateListener hands out connections through Accept even after Close was called on it (a connection that the accept
// loop had already taken from the operating system when the acceptor was closed); once it is empty and closed, Accept fails.
type lateListener struct {
	ch     chan *wire.Conn
	closed chan struct{}
	once   sync.Once
}

func (l *lateListener) Accept() (net.Conn, error) {
	select {
	case c := <-l.ch:
		return c, nil
	default:
	}
	select {
	case c := <-l.ch:
		return c, nil
	case <-l.closed:
		// one more chance for a connection that arrives together with the close
		select {
		case c := <-l.ch:
			return c, nil
		case <-time.After(300 * time.Millisecond):
			return nil, errors.New("scripted listener closed")
		}
	}
}
func (l *lateListener) Close() error   { l.once.Do(func() { close(l.closed) }); return nil }
func (l *lateListener) Addr() net.Addr { return lateAddr{} }

type lateAddr struct{}

func (lateAddr) Network() string { return "scripted" }
func (lateAddr) String() string  { return "late-listener" }

// acceptedWhileClosing: the local side closes the acceptor at the moment a connection comes out of Accept. That
// connection is never served for long — but its socket is closed, so that the peer sees the end.
func acceptedWhileClosing(c *vk.Ctx) {
	n := c.Pick(6, 40)
	var wg sync.WaitGroup
	for i := 0; i < n; i++ {
		wg.Add(1)
		go func(i int) {
			defer wg.Done()
			l := &lateListener{ch: make(chan *wire.Conn, 1), closed: make(chan struct{})}
			var clients int32
			acc := simplefixgo.NewAcceptor(l, simplefixgo.NewAcceptorHandlerFactory("35", []int{0, 1, 10}[i%3]), 2*time.Second, func(h simplefixgo.AcceptorHandler) {
				atomic.AddInt32(&clients, 1)
			})
			served := make(chan struct{})
			go func() { _ = acc.ListenAndServe(); close(served) }()
			time.Sleep(time.Duration(5+i) * time.Millisecond)
			conn := wire.NewConn(fmt.Sprintf("late-%d", i), false)
			desc := "Acceptor.Close while a connection is coming out of Accept"
			if i%2 == 0 {
				acc.Close()
				<-served
				l.ch <- conn // the accept loop gets it after the acceptor was closed
				desc += " (the connection is returned by Accept after Close)"
			} else {
				l.ch <- conn
				acc.Close() // no time to serve it properly
				desc += " (Close right after Accept returned the connection)"
			}
			closed := false
			for w := 0; w < 1500 && !closed; w++ {
				closed, _ = conn.Closed()
				if !closed {
					time.Sleep(2 * time.Millisecond)
				}
			}
			c.Eval(vk.Hash64([]byte(desc), []byte{byte(i)}), true)
			c.Count("connections_accepted_while_the_acceptor_closes", 1)
			c.SetAdd("matrix_cells_reached", "acceptor/acceptor-close/connection-coming-out-of-accept")
			if !closed {
				c.Violate("C13/socket-not-closed/acceptor/acceptor-close/connection-coming-out-of-accept", fmt.Sprintf("%s: 3 s later net.Conn.Close has not been called on the accepted connection (the application was told about %d clients)", desc, atomic.LoadInt32(&clients)), map[string]interface{}{"case": desc, "index": i})
			}
			select {
			case <-served:
			case <-time.After(3 * time.Second):
				c.Violate("C13/serve-did-not-return/acceptor/acceptor-close/connection-coming-out-of-accept", desc+": ListenAndServe has not returned 3 s after Acceptor.Close", map[string]interface{}{"case": desc, "index": i})
			}
			conn.Close()
		}(i)
	}
	wg.Wait()
}
