// C13 — every way a connection can end leaves nothing blocked forever.
package main

import (
	"errors"
	"fmt"
	"runtime"
	"sort"
	"strings"
	"sync"
	"sync/atomic"
	"time"

	simplefixgo "github.com/b2broker/simplefix-go"
	"github.com/b2broker/simplefix-go/session"
	fixgen "github.com/b2broker/simplefix-go/tests/fix44"

	"verifharness/fixref"
	"verifharness/rig"
	"verifharness/vk"
	"verifharness/wire"
)

type cell struct {
	role   rig.Role
	cause  string
	phase  string
	buf    int
	cut    string
	offset int
}

func (c cell) String() string {
	return fmt.Sprintf("%s cause=%s phase=%s buf=%d cut=%s offset=%dms", c.role, c.cause, c.phase, c.buf, c.cut, c.offset)
}
func (c cell) key() string { return fmt.Sprintf("%s/%s/%s", c.role, c.cause, c.phase) }

var causes = []string{"peer-eof", "read-error", "write-error", "peer-stops-reading", "client-close", "acceptor-close", "handler-stop", "unroutable-inbound-frame", "silent-peer-given-up"}
var phases = []string{"before-logon", "mid-handshake", "established-idle", "inbound-burst", "inbound-stream", "inbound-requests", "resend-batch-in-flight", "outbound-burst", "during-logout", "after-logout-exchange", "established-after-sequence-gap-at-logon"}

func peerCaused(cause string) bool {
	return cause == "peer-eof" || cause == "read-error" || cause == "write-error" || cause == "peer-stops-reading"
}

type outcome struct {
	causeDidNotHappen bool
	ce                cell
	label             string
	f                 *rig.Full
	l                 *rig.Link
	tFault            time.Time
	setupFailed       string
	sendBlocked       bool
	sendersStuck      int32
	pendingAtFault    int
	blockedSenders    int
}

const N = 1 // heartbeat interval used everywhere here
const settle = 3*time.Second + 2200*time.Millisecond

func cutMessage(m []byte, cut string) []byte {
	switch cut {
	case "mid-field":
		return m[:len(m)/2]
	case "inside-checksum":
		return m[:len(m)-4]
	}
	return nil // message boundary: nothing partial
}

func runCell(c *vk.Ctx, ce cell, idx int) *outcome {
	o := &outcome{ce: ce, label: fmt.Sprintf("c13-%d-%d", c.Shard, idx)}
	var served int32
	cfg := rig.FullCfg{Role: ce.role, HeartBtInt: N, BufSize: ce.buf, WriteTimeout: 400 * time.Millisecond, CloseTimeout: 300 * time.Millisecond, Notify: true, Label: o.label}
	if ce.phase == "inbound-burst" {
		cfg.OnSession = func(h *simplefixgo.DefaultHandler, s *session.Session) {
			h.HandleIncoming("V", func([]byte) bool {
				atomic.AddInt32(&served, 1)
				time.Sleep(2 * time.Millisecond) // a slow application handler: hand-offs queue up behind it
				return true
			})
		}
	}
	if idx%2 == 1 {
		// every second cell: the application reacts to the first error the session reports (OnError) by sending a
		// notice through the session — during a teardown such errors are the session's own sends that fail
		prev := cfg.OnSession
		cfg.OnSession = func(h *simplefixgo.DefaultHandler, s *session.Session) {
			if prev != nil {
				prev(h, s)
			}
			var reacted int32
			s.OnError(func(error) {
				if atomic.CompareAndSwapInt32(&reacted, 0, 1) {
					_ = s.Send(fixgen.CreateMarketDataRequestReject("error-notice"))
				}
			})
		}
	}
	f, err := rig.StartFull(cfg)
	if err != nil {
		o.setupFailed = "rig: " + err.Error()
		return o
	}
	o.f = f
	var l *rig.Link
	if ce.role == rig.Acceptor {
		if l, err = f.Connect(o.label); err != nil {
			o.setupFailed = "connect: " + err.Error()
			return o
		}
	} else {
		l = f.Links[0]
	}
	o.l = l
	logon := func() bool {
		if !l.Logon(ce.role, N, 5*time.Second) {
			o.setupFailed = "logon did not complete"
			return false
		}
		return true
	}
	stopSenders := make(chan struct{})
	var sendersWG sync.WaitGroup
	switch ce.phase {
	case "before-logon":
		if ce.role == rig.Initiator {
			l.WaitFrames(3*time.Second, func(fr []rig.Frame) bool { return len(fr) >= 1 })
		}
	case "mid-handshake":
		if ce.role == rig.Initiator {
			l.WaitFrames(3*time.Second, func(fr []rig.Frame) bool { return len(fr) >= 1 })
		}
		lg := l.Peer.Logon(N, "0")
		part := cutMessage(lg, ce.cut)
		if part == nil {
			part = lg[:len(lg)-9]
		}
		l.Conn.Feed(part)
	case "established-idle":
		if !logon() {
			return o
		}
	case "established-after-sequence-gap-at-logon":
		// the peer resumes with its counter ahead of what this side expects: the handshake completes and this side asks
		// for the missing messages (which the peer never supplies)
		l.Peer.Seq = 4
		if !logon() {
			return o
		}
	case "inbound-burst":
		if !logon() {
			return o
		}
		var burst []byte
		for k := 0; k < 40; k++ {
			burst = append(burst, l.Peer.App(fmt.Sprintf("b%d", k))...)
		}
		if ce.cut == "message-boundary" {
			l.Conn.Feed(burst)
		} else {
			for len(burst) > 0 {
				n := 97
				if n > len(burst) {
					n = len(burst)
				}
				l.Conn.Feed(burst[:n])
				burst = burst[n:]
			}
		}
	case "inbound-requests":
		// a burst of TestRequests: every one draws a reply, so the handler's loop is itself
		// handing messages to the outgoing channel when the connection fails
		if !logon() {
			return o
		}
		var burst []byte
		for k := 0; k < 40; k++ {
			burst = append(burst, l.Peer.TestRequest(fmt.Sprintf("r%d", k))...)
		}
		l.Conn.Feed(burst)
	case "resend-batch-in-flight":
		// the session is replaying stored messages as one batch (answer to a ResendRequest) to a slowly reading peer
		// when the connection ends
		if !logon() {
			return o
		}
		for k := 0; k < 40; k++ {
			_ = l.S.Send(fixgen.CreateMarketDataRequestReject(fmt.Sprintf("stored-%d", k)))
		}
		l.WaitFrames(3*time.Second, func(fr []rig.Frame) bool { return len(fr) >= 40 })
		l.Conn.SetWriteDelay(time.Millisecond)
		l.Conn.Feed(l.Peer.Resend(1, 0))
	case "inbound-stream":
		// a steady stream at a moderate rate: the handler keeps up, so when its loop ends
		// the next message is still on its way through the hand-offs
		if !logon() {
			return o
		}
		go func() {
			end := time.Now().Add(1500 * time.Millisecond)
			for k := 0; time.Now().Before(end); k++ {
				select {
				case <-l.Conn.ClosedCh():
					return
				default:
				}
				l.Conn.Feed(l.Peer.App(fmt.Sprintf("s%d", k)))
				for y := 0; y < 1+ce.offset%5; y++ {
					runtime.Gosched()
				}
			}
		}()
		time.Sleep(20 * time.Millisecond)
	case "outbound-burst":
		if !logon() {
			return o
		}
		for g := 0; g < 4; g++ {
			sendersWG.Add(1)
			go func(g int) {
				defer sendersWG.Done()
				atomic.AddInt32(&o.sendersStuck, 1)
				defer atomic.AddInt32(&o.sendersStuck, -1)
				for k := 0; k < 400; k++ {
					select {
					case <-stopSenders:
						return
					default:
					}
					if err := l.S.Send(fixgen.CreateMarketDataRequestReject(fmt.Sprintf("o%d-%d", g, k))); err != nil {
						return
					}
				}
			}(g)
		}
	case "during-logout":
		if !logon() {
			return o
		}
		_ = l.S.Logout()
	case "after-logout-exchange":
		// the peer logged out and the session answered: connected, not logged on, timers of the ended logon still around
		if !logon() {
			return o
		}
		fr0, _ := l.Frames()
		l.Conn.Feed(l.Peer.Logout())
		l.WaitFrames(2*time.Second, func(fr []rig.Frame) bool { return len(fr) > len(fr0) })
	}
	if ce.phase == "inbound-requests" {
		if ce.offset > 0 {
			time.Sleep(time.Duration(ce.offset*40) * time.Microsecond)
		}
	} else {
		time.Sleep(time.Duration(5+ce.offset) * time.Millisecond)
	}
	if ce.phase == "inbound-burst" {
		o.pendingAtFault = 40 - int(atomic.LoadInt32(&served))
	}
	if ce.phase == "outbound-burst" {
		o.blockedSenders = int(atomic.LoadInt32(&o.sendersStuck))
	}
	// the cause
	o.tFault = time.Now()
	switch ce.cause {
	case "peer-eof", "read-error":
		if ce.phase != "mid-handshake" {
			if part := cutMessage(l.Peer.Heartbeat(), ce.cut); part != nil {
				l.Conn.Feed(part)
			}
		}
		if ce.cause == "peer-eof" {
			l.Conn.FeedEOF()
		} else {
			l.Conn.FeedErr(errors.New("scripted: connection reset by peer"))
		}
	case "write-error":
		l.Conn.FailNextWrite()
		// something must be written for the error to surface: the session's own heartbeat (N=1) or a send
		if l.S != nil && (ce.phase == "established-idle" || ce.phase == "established-after-sequence-gap-at-logon" || ce.phase == "inbound-burst") {
			go func() { _ = l.S.Send(fixgen.CreateMarketDataRequestReject("trigger")) }()
		}
	case "peer-stops-reading":
		l.Conn.SetWriteMode(wire.WriteStall)
		if l.S != nil && (ce.phase == "established-idle" || ce.phase == "inbound-burst") {
			go func() { _ = l.S.Send(fixgen.CreateMarketDataRequestReject("trigger")) }()
		}
	case "client-close":
		f.Ini.Close()
	case "acceptor-close":
		f.Acc.Close()
	case "handler-stop":
		l.H.Stop()
	case "silent-peer-given-up":
		// nothing is done to the connection: the peer simply says nothing any more; the session probes it after N+1 s
		// and, another N+1 s later, ends the connection itself (N=1). The settling time counts from that moment.
		gaveUp := false
		for w := 0; w < 3500 && !gaveUp; w++ {
			gaveUp, _ = l.Conn.Closed()
			if !gaveUp {
				time.Sleep(2 * time.Millisecond)
			}
		}
		if !gaveUp {
			o.causeDidNotHappen = true // whether a silent peer is given up is C09's business
		}
		o.tFault = time.Now()
	case "unroutable-inbound-frame":
		// a complete frame (correct BodyLength and CheckSum) without a MsgType field: the handler's loop cannot
		// route it and ends with an error, which ends the connection from the local side
		fr := fixref.EncodeRaw(fixref.Std, "FIX.4.4", []byte("49="+rig.PeerID+"\x0156="+rig.LibID+"\x0134=9999\x0158=no MsgType\x01"))
		l.Conn.Feed(fr)
		if ce.offset%2 == 1 {
			l.Conn.FeedEOF() // and the peer goes away right after it
		}
	}
	// later send calls return instead of blocking
	if l.S != nil {
		time.Sleep(time.Second)
		done := make(chan struct{})
		go func() {
			_ = l.S.Send(fixgen.CreateMarketDataRequestReject("after-termination"))
			close(done)
		}()
		select {
		case <-done:
		case <-time.After(3 * time.Second):
			o.sendBlocked = true
		}
	}
	close(stopSenders)
	sw := make(chan struct{})
	go func() { sendersWG.Wait(); close(sw) }()
	select {
	case <-sw:
	case <-time.After(time.Until(o.tFault.Add(settle))):
	}
	time.Sleep(time.Until(o.tFault.Add(settle)))
	return o
}

func judge(c *vk.Ctx, o *outcome, p1, p2 []rig.GStack) {
	ce := o.ce
	desc := ce.String()
	replay := map[string]interface{}{"cell": desc, "label": o.label, "seed": c.Seed}
	if o.setupFailed != "" {
		c.Inconclusive("setup failed (" + o.setupFailed + "): " + desc)
		return
	}
	l, f := o.l, o.f
	// does the cause apply? (a write error needs a write; before logon an acceptor writes nothing)
	applicable := true
	if (ce.cause == "write-error" || ce.cause == "peer-stops-reading") && len(l.Conn.Writes()) == 0 && ce.role == rig.Acceptor && (ce.phase == "before-logon" || ce.phase == "mid-handshake") {
		applicable = false
	}
	nontrivial := ce.phase == "inbound-stream" || ce.phase == "inbound-requests" || ce.phase == "resend-batch-in-flight" || ce.phase == "established-idle" || ce.phase == "during-logout" || ce.phase == "after-logout-exchange" || ce.phase == "before-logon" || ce.phase == "mid-handshake" || o.pendingAtFault > 0 || o.blockedSenders > 0
	c.Eval(vk.Hash64([]byte(desc)), nontrivial)
	c.SetAdd("matrix_cells_reached", ce.key())
	if o.pendingAtFault > 0 {
		c.Count("scenarios_with_inbound_handoffs_pending", 1)
	}
	if o.blockedSenders > 0 {
		c.Count("scenarios_with_senders_in_flight", 1)
	}
	if o.causeDidNotHappen {
		applicable = false
	}
	if !applicable {
		c.Count("cells_where_the_cause_cannot_manifest", 1)
		return
	}
	closed, _ := l.Conn.Closed()
	if !closed {
		c.Violate("C13/socket-not-closed/"+ce.key(), desc+": net.Conn.Close was not called within the settling time", replay)
	}
	if ce.role == rig.Initiator && !f.Served() {
		c.Violate("C13/serve-did-not-return/"+ce.key(), desc+": Initiator.Serve has not returned within the settling time", replay)
	}
	if ce.cause == "acceptor-close" && !f.Served() {
		c.Violate("C13/serve-did-not-return/"+ce.key(), desc+": Acceptor.ListenAndServe has not returned after Acceptor.Close", replay)
	}
	if peerCaused(ce.cause) {
		if atomic.LoadInt64(&l.Disconnected) == 0 && atomic.LoadInt64(&l.Stopped) == 0 && atomic.LoadInt64(&l.EvDisconnect) == 0 {
			c.Violate("C13/no-disconnect-or-stopped-notification/"+ce.key(), desc+": the application got neither OnDisconnect nor OnStopped nor EventDisconnect", replay)
		}
	}
	if o.sendBlocked {
		c.Violate("C13/send-blocks-after-termination/"+ce.key(), desc+": a Session.Send issued 1 s after the termination had not returned 3 s later", replay)
	}
	if n := atomic.LoadInt32(&o.sendersStuck); n > 0 {
		c.Violate("C13/senders-blocked-forever/"+ce.key(), fmt.Sprintf("%s: %d sender goroutines that were inside Send at the moment of the termination are still blocked", desc, n), replay)
	}
	// leak monitor: library-started goroutines carrying this scenario's label in both samples
	in2 := map[string]bool{}
	for _, g := range p2 {
		if g.Label == o.label && g.StartedByLibrary() {
			in2[g.Sig()] = true
		}
	}
	var leaks []string
	frames := map[string]bool{}
	for _, g := range p1 {
		if g.Label != o.label || !g.StartedByLibrary() || !in2[g.Sig()] {
			continue
		}
		if ce.cause != "acceptor-close" && g.Has("(*Acceptor).ListenAndServe") {
			continue // the listener's accept loop lives until Acceptor.Close
		}
		c.Count("leaked_goroutines_seen", int64(g.Count))
		frames[g.TopLibFrame()] = true
		leaks = append(leaks, fmt.Sprintf("%d x %s", g.Count, strings.Join(g.Frames, " < ")))
	}
	if len(leaks) > 0 {
		var fl []string
		for fr := range frames {
			fl = append(fl, fr)
		}
		sort.Strings(fl)
		c.Violate("C13/goroutine-leak/"+ce.key()+"/"+strings.Join(fl, "+"), fmt.Sprintf("%s: library goroutines still present %.1f s and %.1f s after the termination:\n  %s", desc, settle.Seconds(), settle.Seconds()+1, strings.Join(leaks, "\n  ")), replay)
	}
	c.Count("goroutine_profiles_inspected", 2)
	if c.WantSample() {
		c.Sample(map[string]interface{}{"cell": desc, "inbound_handoffs_pending_at_fault": o.pendingAtFault, "senders_in_flight_at_fault": o.blockedSenders, "socket_closed": closed, "serve_returned": f.Served(), "on_disconnect": atomic.LoadInt64(&l.Disconnected) != 0, "on_stopped": atomic.LoadInt64(&l.Stopped) != 0})
	}
}

func main() {
	c := vk.Init("C13")
	c.Rule("fault matrix: role {acceptor, initiator} x cause {peer EOF, read error, write error, peer stops reading (writes stall to the write deadline), Initiator.Close, Acceptor.Close, handler.Stop, a complete inbound frame without MsgType (the handler loop ends with an error), optionally followed by EOF, the peer falling silent until the session itself gives it up (logged-on phases only)} x phase {before logon, mid-handshake (cut inside the Logon bytes), established idle, inbound burst of 40 messages behind a slow application handler, steady inbound stream at a moderate rate, burst of 40 TestRequests (the handler loop itself is sending replies), a batch of 40 stored messages being retransmitted to a slowly reading peer, outbound burst from 4 sender goroutines, during logout, after a completed Logout exchange (connected, not logged on), established by a Logon whose sequence number is 4 ahead (a ResendRequest of this side is outstanding)} x handler/conn buffer {0,1,10} x cut position {message boundary, mid-field, inside the CheckSum field} x 3 timing offsets; quick: every (role,cause,phase) once, thorough: the full matrix. Plus a matrix of connections served for a bare handler without a session (nothing but the library's own teardown ends them): role x {peer EOF, read error, write error, owner Close, handler Stop} x {idle, inbound backlog behind a slow handler} x buffer sizes, and Initiator.Close before Serve; plus Acceptor.Close at the moment a connection comes out of Accept (returned by Accept just after / just before Close): its socket is closed and ListenAndServe returns. Oracle after the settling bound 3 s + 1.1 (N+1) with N=1: net.Conn.Close called; Serve returned; OnDisconnect/OnStopped/EventDisconnect for peer-caused ends; a Session.Send issued 1 s after the end returns within 3 s; senders that were inside Send are released; goroutine profile (debug=1, pprof label per scenario) shows no library-started goroutine in two samples 1 s apart. distinct = matrix cell; non-trivial = hand-offs were pending / senders in flight at fault time (measured) or a non-traffic phase")
	c.Assume("settling bound 5.2 s with N=1: the library's timer goroutines notice cancellation only at their next expiry, which is bounded and therefore allowed; the listener's accept loop is exempt until Acceptor.Close")
	var cells []cell
	for _, role := range []rig.Role{rig.Acceptor, rig.Initiator} {
		for ci, cause := range causes {
			if (cause == "client-close" && role == rig.Acceptor) || (cause == "acceptor-close" && role == rig.Initiator) {
				continue
			}
			for pi, phase := range phases {
				if cause == "unroutable-inbound-frame" && phase == "mid-handshake" {
					continue // the frame would be glued to the cut Logon in front of it and be routed as that Logon
				}
				if cause == "silent-peer-given-up" && phase != "established-idle" && phase != "established-after-sequence-gap-at-logon" && phase != "inbound-burst" && phase != "inbound-requests" && phase != "outbound-burst" {
					continue // the session gives up a peer only while it is logged on
				}
				if c.Thorough() {
					for _, buf := range []int{0, 1, 10} {
						for _, cut := range []string{"message-boundary", "mid-field", "inside-checksum"} {
							for _, off := range []int{0, 7, 23} {
								cells = append(cells, cell{role, cause, phase, buf, cut, off})
							}
						}
					}
				} else {
					k := ci*7 + pi*3 + int(role) + int(c.Seed)
					cells = append(cells, cell{role, cause, phase, []int{0, 1, 10}[k%3], []string{"message-boundary", "mid-field", "inside-checksum"}[(k/3)%3], []int{0, 7, 23}[(k/9)%3]})
					if cause == "unroutable-inbound-frame" {
						// which goroutine notices the end of the handler loop first is a matter of scheduling: several
						// buffer sizes and offsets per cell
						for extra := 1; extra <= 5; extra++ {
							cells = append(cells, cell{role, cause, phase, []int{0, 1, 10}[(k+extra)%3], "message-boundary", []int{0, 1, 7, 8, 23, 24}[extra]})
						}
					}
				}
			}
		}
	}
	// shard the cells
	var mine []cell
	for i, ce := range cells {
		if i%c.NShards == c.Shard {
			mine = append(mine, ce)
		}
	}
	can := rig.StartCanary()
	defer can.Stop()
	batch := 120
	for start := 0; start < len(mine); start += batch {
		end := start + batch
		if end > len(mine) {
			end = len(mine)
		}
		outs := make([]*outcome, end-start)
		var wg sync.WaitGroup
		for i := start; i < end; i++ {
			wg.Add(1)
			go func(i int) {
				defer wg.Done()
				outs[i-start] = runCell(c, mine[i], i)
			}(i)
		}
		wg.Wait()
		if can.Max() > 500*time.Millisecond {
			c.Inconclusive(fmt.Sprintf("scheduler oversleep %v in batch starting at %d", can.Max(), start))
		}
		p1 := rig.GoroutineProfile()
		time.Sleep(time.Second)
		p2 := rig.GoroutineProfile()
		for _, o := range outs {
			judge(c, o, p1, p2)
		}
		// release everything, then make sure Acceptor.Close cleans up what is left
		for _, o := range outs {
			if o.f != nil {
				o.f.Shutdown()
			}
		}
		c.Flush(false)
	}
	bareMatrix(c)
	if c.Shard == 0 {
		acceptedWhileClosing(c)
	}
	c.Set("max_scheduler_oversleep_ms", float64(can.Max())/1e6)
	c.Set("settling_bound_s", settle.Seconds())
	c.Finish()
}
