// C20 — concurrent use of a session is free of data races (Go race detector over the
// full-stack workload c20w; reports filtered to library frames and de-duplicated).
package main

import (
	"encoding/json"
	"fmt"
	"os"
	"os/exec"
	"path/filepath"
	"regexp"
	"sort"
	"strings"

	"verifharness/vk"
)

const lib = "github.com/b2broker/simplefix-go"

type report struct {
	text   string
	stacks [][]string // function names per access stack (first two sections)
}

var reFunc = regexp.MustCompile(`^\s+([^\s(][^\s]*)\(`)

func parseReports(log string) []report {
	var out []report
	parts := strings.Split(log, "WARNING: DATA RACE")
	for _, p := range parts[1:] {
		if i := strings.Index(p, "=================="); i >= 0 {
			p = p[:i]
		}
		r := report{text: "WARNING: DATA RACE" + p}
		// sections are separated by blank lines; the first two are the conflicting accesses
		secs := strings.Split(strings.TrimSpace(p), "\n\n")
		for _, s := range secs {
			head := strings.TrimSpace(strings.SplitN(s, "\n", 2)[0])
			if !(strings.HasPrefix(head, "Read at") || strings.HasPrefix(head, "Write at") || strings.HasPrefix(head, "Previous read at") || strings.HasPrefix(head, "Previous write at") || strings.HasPrefix(head, "Atomic") || strings.HasPrefix(head, "Previous atomic")) {
				continue
			}
			var fns []string
			for _, line := range strings.Split(s, "\n")[1:] {
				line = strings.TrimSpace(line)
				if line == "" || strings.HasPrefix(line, "/") {
					continue
				}
				if i := strings.LastIndex(line, "("); i > 0 {
					fns = append(fns, line[:i])
				}
			}
			r.stacks = append(r.stacks, fns)
		}
		out = append(out, r)
	}
	return out
}

func isLib(fn string) bool {
	return strings.HasPrefix(fn, lib) && !strings.HasPrefix(fn, lib+"/tests")
}

func innermostLib(st []string) string {
	for _, f := range st {
		if isLib(f) {
			return strings.TrimPrefix(f, lib)
		}
	}
	return ""
}

func main() {
	c := vk.Init("C20")
	c.Rule("-race build of the full-stack rig on the direction-independent scripted net.Conn (no observer synchronisation; the session is handed to the other goroutines through a channel): per process 16 sessions of both roles, each with 4..8 sender goroutines, a timed inbound script (TestRequests, application messages, damaged messages, ResendRequests, peer Logout followed by a new Logon while senders run) whose send times are swept in 20 ms steps across the heartbeat (1 s) and test-request (2 s) expiries, silences so that both timers really expire, IsLogged/Context queries and OnChangeState/HandleIncoming/HandleOutgoing registration during traffic (in their own phases), Session.Stop; repeated with different seeds (3 quick / 20 thorough). Oracle: WARNING: DATA RACE blocks in GORACE log_path whose two access stacks both contain a library frame, de-duplicated by the pair of innermost library functions; blocks with harness-only stacks are a harness defect (inconclusive). distinct = (seed, session index) scenarios; non-trivial = sessions that logged on (with timers armed)")
	c.Assume("the detector judges only executed, unordered access pairs within its history window: a clean log means no race on these executions")
	root := os.Getenv("VERIF_ROOT")
	if root == "" {
		root = "/verif"
	}
	work := c.WorkDir
	if work == "" {
		work = os.TempDir()
	}
	bin := filepath.Join(work, "c20w.race")
	build := exec.Command("go", "build", "-race", "-tags", "verif", "-o", bin, "./props/c20w")
	build.Dir = filepath.Join(root, "harness")
	build.Env = append(os.Environ(), "GOFLAGS=-mod=mod", "GOPROXY=off", "GOSUMDB=off", "GOTOOLCHAIN=local")
	if out, err := build.CombinedOutput(); err != nil {
		fmt.Println(string(out))
		c.Inconclusive("race build failed")
		c.Finish()
		return
	}
	reps := c.Pick(3, 20)
	raw, filtered := 0, 0
	uniq := map[string]report{}
	uniqCount := map[string]int{}
	pairs := map[string]bool{}
	for rep := 0; rep < reps; rep++ {
		logBase := filepath.Join(work, fmt.Sprintf("race-%d", rep))
		cmd := exec.Command(bin, "-seed", fmt.Sprint(c.Seed*100+int64(rep)), "-n", "16")
		cmd.Env = append(os.Environ(), "GORACE=halt_on_error=0 history_size=5 log_path="+logBase)
		out, err := cmd.CombinedOutput()
		if err != nil && !strings.Contains(string(out), "SUMMARY ") {
			// the workload did not finish (a crash inside the library, for instance); what the race detector had reported
			// up to then is in its log files and is read below all the same
			c.Inconclusive(fmt.Sprintf("race workload run %d failed: %v: %s", rep, err, vk.Trunc(string(out), 800)))
		}
		for _, line := range strings.Split(string(out), "\n") {
			if strings.HasPrefix(line, "SUMMARY ") {
				var s struct {
					Sessions int            `json:"sessions"`
					Frames   map[string]int `json:"frames_by_type"`
					HB       int            `json:"unsolicited_heartbeats"`
					TR       int            `json:"test_requests"`
					Pairs    []string       `json:"overlapping_activity_pairs"`
					Logged   int            `json:"sessions_that_logged_on"`
					Descs    []string       `json:"scenarios"`
				}
				if json.Unmarshal([]byte(line[8:]), &s) == nil {
					for i, d := range s.Descs {
						c.Eval(vk.Hash64([]byte(fmt.Sprint(c.Seed, rep, i, d))), true)
					}
					c.Count("sessions", int64(s.Sessions))
					c.Count("sessions_logged_on_at_end", int64(s.Logged))
					c.Count("heartbeat_timer_expiries", int64(s.HB))
					c.Count("testrequest_timer_expiries", int64(s.TR))
					for t, n := range s.Frames {
						c.Count("frames_type_"+t, int64(n))
					}
					for _, p := range s.Pairs {
						pairs[p] = true
						c.SetAdd("overlapping_activity_kind_pairs", p)
					}
					if c.WantSample() && len(s.Descs) > 0 {
						c.Sample(map[string]interface{}{"run": rep, "scenario": s.Descs[0], "frames_by_type": s.Frames})
					}
				}
			}
		}
		files, _ := filepath.Glob(logBase + ".*")
		for _, f := range files {
			b, _ := os.ReadFile(f)
			for _, r := range parseReports(string(b)) {
				raw++
				if len(r.stacks) < 2 {
					c.Inconclusive("unparsable race report: " + vk.Trunc(r.text, 400))
					continue
				}
				a, b2 := innermostLib(r.stacks[0]), innermostLib(r.stacks[1])
				if a == "" && b2 == "" {
					c.Inconclusive("race report with harness-only stacks (harness defect): " + vk.Trunc(r.text, 1200))
					continue
				}
				if a == "" || b2 == "" {
					c.Inconclusive("race report with one harness-only stack (harness misuse?): " + vk.Trunc(r.text, 1200))
					continue
				}
				filtered++
				k := []string{a, b2}
				sort.Strings(k)
				key := k[0] + "~" + k[1]
				uniqCount[key]++
				if _, ok := uniq[key]; !ok {
					uniq[key] = r
				}
			}
		}
	}
	for key, r := range uniq {
		c.Violate("C20/race/"+key, fmt.Sprintf("data race reported %d times between %s:\n%s", uniqCount[key], key, vk.Trunc(r.text, 3000)), map[string]interface{}{"pair": key, "seed": c.Seed, "report": r.text})
	}
	c.Set("race_reports_raw", raw)
	c.Set("race_reports_library", filtered)
	c.Set("race_reports_unique_pairs", len(uniq))
	c.Set("repetitions", reps)
	c.Finish()
}
