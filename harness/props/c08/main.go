// C08 — a logged-on session never stays silent longer than the heartbeat interval.
package main

import (
	"bytes"
	"errors"
	"fmt"
	"os"
	"strconv"
	"strings"
	"sync"
	"sync/atomic"
	"time"

	simplefixgo "github.com/b2broker/simplefix-go"
	"github.com/b2broker/simplefix-go/fix"
	"github.com/b2broker/simplefix-go/session"
	"github.com/b2broker/simplefix-go/storages/memory"
	fixgen "github.com/b2broker/simplefix-go/tests/fix44"

	"verifharness/fixref"
	"verifharness/rig"
	"verifharness/vk"
)

type scen struct {
	role    rig.Role
	n       int
	pattern string
	periods int
	earlier int // interval of an earlier logon on the same connection (ended by a Logout exchange), 0 = none
}

func (s scen) String() string {
	d := fmt.Sprintf("%s N=%d pattern=%s periods=%d", s.role, s.n, s.pattern, s.periods)
	if s.earlier != 0 {
		d += fmt.Sprintf(" second-logon-on-the-connection(first interval %d)", s.earlier)
	}
	return d
}

func run(c *vk.Ctx, can *rig.Canary, sc scen, idx int) {
	desc := sc.String()
	pat := sc.pattern
	if sc.earlier != 0 {
		pat += fmt.Sprintf("@second-logon(first-interval-%d)", sc.earlier)
	}
	replay := map[string]interface{}{"scenario": desc, "index": idx, "seed": c.Seed}
	N := time.Duration(sc.n) * time.Second
	cfg := rig.FullCfg{Role: sc.role, HeartBtInt: sc.n, BufSize: 10, Notify: true, Label: fmt.Sprintf("c08-%d", idx)}
	refuse := func(h *simplefixgo.DefaultHandler, s *session.Session) {
		// an application filter that refuses the messages marked for it: such a send transmits nothing
		h.HandleOutgoing(simplefixgo.AllMsgTypes, func(m simplefixgo.SendingMessage) bool {
			b, _ := m.ToBytes()
			return !bytes.Contains(b, []byte("262=refuse-me"))
		})
	}
	var flaky *flakyCounter
	if sc.pattern == "counter-store-fault-on-one-send" {
		flaky = &flakyCounter{Storage: memory.NewStorage()}
		cfg.Counter, cfg.Messages = flaky, flaky
	}
	var obsIDs [2]int64
	switch sc.pattern {
	case "observers-removed-after-logon":
		// the application registers two observers of its own before the logon and takes them out again afterwards
		cfg.OnSession = func(h *simplefixgo.DefaultHandler, s *session.Session) {
			obsIDs[0] = h.HandleOutgoing(simplefixgo.AcceptedMsgTypes, func(simplefixgo.SendingMessage) bool { return true })
			obsIDs[1] = h.HandleOutgoing(simplefixgo.AllMsgTypes, func(simplefixgo.SendingMessage) bool { return true })
		}
	case "resend-batch-refused-midway":
		// an application handler for its message type lets the message marked "once" pass the first time and refuses it
		// from then on: a retransmission batch that contains it is cut short there
		cfg.AfterRun = func(h *simplefixgo.DefaultHandler, s *session.Session) {
			var seen int32
			h.HandleOutgoing("Y", func(m simplefixgo.SendingMessage) bool {
				b, _ := m.ToBytes()
				if bytes.Contains(b, []byte("262=once")) {
					return atomic.AddInt32(&seen, 1) == 1
				}
				return true
			})
		}
	case "slow-refused-send-across-the-deadline":
		// an application handler that takes 0.2 N to decide and then refuses the message marked for it (it holds the send
		// path from 0.85 N to 1.05 N: the Heartbeat due at N can still go out within N + N/10)
		cfg.AfterRun = func(h *simplefixgo.DefaultHandler, s *session.Session) {
			h.HandleOutgoing("Y", func(m simplefixgo.SendingMessage) bool {
				b, _ := m.ToBytes()
				if bytes.Contains(b, []byte("262=slow-refuse")) {
					time.Sleep(N / 5)
					return false
				}
				return true
			})
		}
	case "accepted-stage-observer-returns-false":
		// an application observer of transmitted messages, registered before the logon; what it returns is documented as ignored
		cfg.OnSession = func(h *simplefixgo.DefaultHandler, s *session.Session) {
			h.HandleOutgoing(simplefixgo.AcceptedMsgTypes, func(simplefixgo.SendingMessage) bool { return false })
		}
	case "refused-sends-filter-registered-before-logon":
		cfg.OnSession = refuse
	case "refused-sends-filter-registered-after-logon":
		cfg.AfterRun = nil
	}
	f, err := rig.StartFull(cfg)
	if err != nil {
		c.Inconclusive("rig: " + err.Error())
		return
	}
	defer f.Shutdown()
	var l *rig.Link
	if sc.role == rig.Acceptor {
		if l, err = f.Connect("c08"); err != nil {
			c.Inconclusive("connect: " + err.Error())
			return
		}
	} else {
		l = f.Links[0]
	}
	first := sc.n
	if sc.earlier != 0 && sc.role == rig.Acceptor {
		first = sc.earlier // an initiator offers its configured interval at every logon
	}
	if !l.Logon(sc.role, first, 5*time.Second) {
		c.Inconclusive("no logon: " + desc)
		return
	}
	tLogged := time.Now()
	if sc.earlier != 0 {
		// the peer logs out and logs on again on the same connection; the observation starts at the second logon
		time.Sleep(200 * time.Millisecond)
		at, ok := l.Relogon(sc.role, sc.n, 5*time.Second)
		if !ok {
			c.Inconclusive("second logon did not complete: " + desc)
			return
		}
		tLogged = at
		c.Count("second_logons", 1)
	}
	// keep-alive: the peer sends a Heartbeat every 0.8 N so that the session is never disconnected
	stop := make(chan struct{})
	var wg sync.WaitGroup
	wg.Add(1)
	go func() {
		defer wg.Done()
		if sc.pattern == "peer-answers-testrequests-late" {
			// no keep-alive traffic: the session has to probe the peer, and every probe is answered only after 3/4 of
			// the probe period — the session's own heartbeat falls due while its TestRequest is still unanswered
			T := N + time.Second
			if N/20 > time.Second {
				T = N + N/20
			}
			answered := 0
			for {
				select {
				case <-stop:
					return
				case <-time.After(10 * time.Millisecond):
				}
				fr, _ := l.Frames()
				var trs []rig.Frame
				for _, f := range fr {
					if f.Type == "1" && !f.T.Before(tLogged) {
						trs = append(trs, f)
					}
				}
				if len(trs) > answered {
					tr := trs[answered]
					answered++
					select {
					case <-stop:
						return
					case <-time.After(time.Until(tr.T.Add(T * 3 / 4))):
					}
					id, _ := fixref.Get(tr.Fields, rig.TTestReqID)
					l.Conn.Feed(l.Peer.Msg("0", fixref.Field{Tag: rig.TTestReqID, Val: id}))
					c.Count("late_answers_to_the_sessions_testrequests", 1)
				}
			}
		}
		tk := time.NewTicker(N * 8 / 10)
		defer tk.Stop()
		for {
			select {
			case <-stop:
				return
			case <-tk.C:
				l.Conn.Feed(l.Peer.Heartbeat())
			}
		}
	}()
	total := time.Duration(sc.periods) * N
	end := tLogged.Add(total)
	lastOut := func() time.Time {
		fr, _ := l.Frames()
		if len(fr) == 0 || fr[len(fr)-1].T.Before(tLogged) {
			return tLogged
		}
		return fr[len(fr)-1].T
	}
	sendAt := func(offset time.Duration) {
		// send one application message `offset` after the previous outbound message
		for time.Now().Before(end) {
			target := lastOut().Add(offset)
			if d := time.Until(target); d > 0 {
				time.Sleep(d)
			}
			if lo := lastOut(); !lo.Add(offset).After(time.Now().Add(2 * time.Millisecond)) {
				_ = l.S.Send(fixgen.CreateMarketDataRequestReject("c08"))
				c.Count("app_sends", 1)
				// wait until the message shows up on the wire, so that the next round measures from it
				for w := 0; w < 100 && !lastOut().After(lo); w++ {
					time.Sleep(2 * time.Millisecond)
				}
				return
			}
		}
	}
	switch sc.pattern {
	case "idle", "peer-answers-testrequests-late":
		time.Sleep(total)
	case "send-just-before":
		for time.Now().Before(end) {
			sendAt(N - 150*time.Millisecond)
		}
	case "send-inside-last-polling-step":
		// The timer polls every N/10, counted from the moment it was (re)started: at logon and after every Heartbeat
		// it fired. A first send a little less than 5 steps after that moment puts the next deadline a little less
		// than a whole step after a poll; the second send, one step minus 40 ms before that deadline, then falls
		// between the last poll and the deadline. The Heartbeat is due N after the SECOND send.
		step := N / 10
		for time.Now().Before(end) {
			t0 := lastOut()
			if d := time.Until(t0.Add(5*step - 20*time.Millisecond)); d > 0 {
				time.Sleep(d)
			}
			if !lastOut().Equal(t0) {
				continue
			}
			_ = l.S.Send(fixgen.CreateMarketDataRequestReject("c08-a"))
			c.Count("app_sends", 1)
			for w := 0; w < 100 && !lastOut().After(t0); w++ {
				time.Sleep(2 * time.Millisecond)
			}
			sendAt(N - step + 40*time.Millisecond)
			time.Sleep(N + step)
		}
	case "counter-store-fault-on-one-send":
		// the application's counter store fails once to hand out the next number: that send returns an error and
		// transmits nothing; the store works again at once, the session stays logged on — and goes on emitting Heartbeats
		time.Sleep(N * 3 / 10)
		atomic.StoreInt32(&flaky.armed, 1)
		if err := l.S.Send(fixgen.CreateMarketDataRequestReject("c08-fault")); err == nil {
			c.Inconclusive("the scripted counter-store fault did not reach the send: " + desc)
			return
		}
		c.Count("sends_failed_by_a_counter_store_fault", 1)
		time.Sleep(N * 2 / 10)
		_ = l.S.Send(fixgen.CreateMarketDataRequestReject("c08-after-fault"))
		c.Count("app_sends", 1)
		time.Sleep(time.Until(end))
	case "send-at-deadline":
		for time.Now().Before(end) {
			sendAt(N)
		}
	case "send-just-after":
		for time.Now().Before(end) {
			sendAt(N + 150*time.Millisecond)
		}
	case "bursts-then-idle":
		for time.Now().Before(end) {
			for k := 0; k < 20; k++ {
				_ = l.S.Send(fixgen.CreateMarketDataRequestReject("burst"))
				c.Count("app_sends", 1)
			}
			time.Sleep(N*2 + N/3)
		}
	case "refused-sends-filter-registered-before-logon", "refused-sends-filter-registered-after-logon":
		// the application keeps trying to send something its own filter refuses, every 0.3 N: nothing of it is
		// transmitted, so the heartbeats must go on as if the application were idle
		if sc.pattern != "refused-sends-filter-registered-before-logon" {
			refuse(l.H, l.S)
		}
		for time.Now().Before(end) {
			err := l.S.Send(fixgen.CreateMarketDataRequestReject("refuse-me"))
			if err == nil {
				c.Inconclusive("the filter did not refuse: " + desc)
				return
			}
			c.Count("refused_send_attempts", 1)
			time.Sleep(N * 3 / 10)
		}
	case "observers-removed-after-logon":
		time.Sleep(150 * time.Millisecond)
		_ = l.H.RemoveOutgoingHandler(simplefixgo.AcceptedMsgTypes, obsIDs[0])
		_ = l.H.RemoveOutgoingHandler(simplefixgo.AllMsgTypes, obsIDs[1])
		c.Count("handler_removals", 2)
		for time.Now().Before(end) {
			sendAt(N * 3 / 10)
		}
	case "half-period-sends", "accepted-stage-observer-returns-false":
		for time.Now().Before(end) {
			sendAt(N / 2)
		}
	case "pair-just-under-a-tenth-apart":
		// two sends a little less than N/10 (the timer's polling step) apart, then idleness: the Heartbeat is due N after the SECOND
		// The phase is controlled (see send-inside-last-polling-step): the first send goes out 15 ms before a poll of
		// the timer, the second one behind that poll.
		for time.Now().Before(end) {
			t0 := lastOut()
			if d := time.Until(t0.Add(N/2 - 15*time.Millisecond)); d > 0 {
				time.Sleep(d)
			}
			if !lastOut().Equal(t0) {
				continue
			}
			_ = l.S.Send(fixgen.CreateMarketDataRequestReject("pair-1"))
			time.Sleep(N * 9 / 100)
			_ = l.S.Send(fixgen.CreateMarketDataRequestReject("pair-2"))
			c.Count("app_sends", 2)
			time.Sleep(N + N*3/10)
		}
	case "resend-batch-refused-midway":
		// two application messages; later the peer asks for both again, 0.7 N after the previous outbound message: the
		// first is retransmitted (that is outbound traffic), the second is refused by the application's handler. The
		// Heartbeat is due N after the last message that was really transmitted.
		time.Sleep(N / 20)
		_ = l.S.Send(fixgen.CreateMarketDataRequestReject("keep"))
		_ = l.S.Send(fixgen.CreateMarketDataRequestReject("once"))
		c.Count("app_sends", 2)
		first := 0
		for w := 0; w < 500 && first == 0; w++ {
			fr, _ := l.Frames()
			if n := len(fr); n >= 2 && fr[n-1].Type == "Y" && fr[n-2].Type == "Y" {
				first, _ = strconv.Atoi(fr[n-2].Seq)
			} else {
				time.Sleep(2 * time.Millisecond)
			}
		}
		if first == 0 {
			c.Inconclusive("the two application messages did not reach the wire within 1 s: " + desc)
			return
		}
		for time.Now().Before(end) {
			target := lastOut().Add(N * 7 / 10)
			if d := time.Until(target); d > 0 {
				time.Sleep(d)
			}
			l.Conn.Feed(l.Peer.Resend(first, first+1))
			c.Count("resend_requests", 1)
			time.Sleep(N / 2)
		}
	case "slow-refused-send-across-the-deadline":
		// the application starts a send 0.85 N after the previous outbound message; its own handler thinks about it
		// until 1.05 N and refuses it: nothing was transmitted, the Heartbeat that fell due meanwhile is still owed
		for time.Now().Before(end) {
			target := lastOut().Add(N * 85 / 100)
			if d := time.Until(target); d > 0 {
				time.Sleep(d)
			}
			_ = l.S.Send(fixgen.CreateMarketDataRequestReject("slow-refuse"))
			c.Count("refused_send_attempts", 1)
			time.Sleep(N / 10)
		}
	case "peer-testrequest-mid-period":
		// the peer sends a TestRequest 0.6 N after the previous outbound message: the Heartbeat that answers it is an
		// outbound message like any other, the next unsolicited one is due N after it
		for k := 0; time.Now().Before(end); k++ {
			target := lastOut().Add(N * 6 / 10)
			if d := time.Until(target); d > 0 {
				time.Sleep(d)
			}
			l.Conn.Feed(l.Peer.TestRequest("mid-" + strconv.Itoa(k)))
			c.Count("peer_testrequests", 1)
			time.Sleep(N / 5)
		}
	case "resend-replay-mid-period":
		// the peer asks for a retransmission N/2 after the previous outbound message: the replay is an outbound message too
		for time.Now().Before(end) {
			target := lastOut().Add(N / 2)
			if d := time.Until(target); d > 0 {
				time.Sleep(d)
			}
			l.Conn.Feed(l.Peer.Resend(1, 1))
			c.Count("resend_requests", 1)
			time.Sleep(N/2 + N/4)
		}
	case "handler-send-mid-period":
		// the application sends through the handler with its own header (as the Session.Send documentation suggests for custom fields)
		for k := 0; time.Now().Before(end); k++ {
			target := lastOut().Add(N / 2)
			if d := time.Until(target); d > 0 {
				time.Sleep(d)
			}
			m := fixgen.CreateMarketDataRequestReject("own-header")
			m.HeaderBuilder().SetFieldMsgSeqNum(9000 + k).SetFieldSenderCompID(rig.LibID).SetFieldTargetCompID(rig.PeerID).SetFieldSendingTime("20240101-00:00:00.000")
			_ = l.H.Send(m)
			c.Count("app_sends", 1)
			time.Sleep(N/2 + N/4)
		}
	}
	tEnd := time.Now()
	if tEnd.Sub(tLogged) < total*8/10 {
		// a pattern that gave up early has observed next to nothing (a defect of the harness, not of the library)
		c.Inconclusive(fmt.Sprintf("the pattern ended after %v of the planned %v: %s", tEnd.Sub(tLogged).Round(time.Millisecond), total, desc))
		close(stop)
		wg.Wait()
		return
	}
	close(stop)
	wg.Wait()
	frames, _ := l.Frames()
	if sc.earlier != 0 {
		frames = rig.Since(frames, tLogged)
	}
	if os.Getenv("C08_DEBUG") != "" && sc.pattern == "resend-batch-refused-midway" {
		fmt.Fprintf(os.Stderr, "DEBUG %s: %s\n", desc, trace(frames, len(frames)-1))
		for k, f := range frames {
			fmt.Fprintf(os.Stderr, "  #%d +%v 35=%s 34=%s\n", k, f.T.Sub(tLogged).Round(time.Millisecond), f.Type, f.Seq)
		}
	}
	jit := can.Max()
	if jit > 250*time.Millisecond {
		c.Inconclusive(fmt.Sprintf("scheduler oversleep %v during %s", jit, desc))
		return
	}
	slack := 100*time.Millisecond + 3*jit
	bound := N + N/10 + slack
	hb := 0
	var maxGap, minHbGap time.Duration
	minHbGap = time.Hour
	prev := time.Time{}
	if sc.earlier != 0 && sc.role == rig.Initiator {
		prev = tLogged // an initiator sends nothing at its second logon: the period starts when the peer's Logon arrives
	}
	var lastGap time.Duration
	for i, fr := range frames {
		if fr.Type == "A" || prev.IsZero() {
			prev = fr.T
			continue
		}
		gap := fr.T.Sub(prev)
		prevGap := lastGap
		lastGap = gap
		if gap > maxGap {
			maxGap = gap
		}
		if gap > bound {
			c.Violate(silentKey(sc, pat), fmt.Sprintf("%s: %v passed between outbound message #%d and #%d (35=%s); bound N+N/10+slack = %v (measured scheduler oversleep %v)", desc, gap.Round(time.Millisecond), i-1, i, fr.Type, bound, jit), replay)
		}
		if fr.Type == "0" {
			if _, solicited := fixref.Get(fr.Fields, rig.TTestReqID); !solicited {
				hb++
				if gap < minHbGap {
					minHbGap = gap
				}
				// A Heartbeat whose timer expired (N after the message before the previous one) while an
				// application send was in flight is concurrent with that send: either wire order is legitimate.
				// walk back over the messages written within the concurrency window before this Heartbeat: its timer
				// decision may predate all of them; the first message outside the window must be at least N old
				// the scheduler's oversleep that matters for this judgement is the one measured between the message before
				// the previous one (whose timer may have expired) and this Heartbeat — not a hiccup elsewhere in the run
				from := prev.Add(-N - 200*time.Millisecond)
				jit := can.MaxBetween(from, fr.T.Add(200*time.Millisecond))
				window := 100*time.Millisecond + 5*jit
				concurrentWithSend := false
				if gap <= window {
					j := i - 1
					for j >= 0 && fr.T.Sub(frames[j].T) <= window {
						j--
					}
					concurrentWithSend = j < 0 || fr.T.Sub(frames[j].T) >= N-20*time.Millisecond-3*jit
				}
				_ = prevGap
				if concurrentWithSend {
					c.Count("heartbeats_concurrent_with_a_send(not judged)", 1)
				}
				if gap < N-20*time.Millisecond-3*jit && !concurrentWithSend {
					c.Violate(fmt.Sprintf("C08/heartbeat-too-early/%s/N=%d/%s", sc.role, sc.n, pat), fmt.Sprintf("%s: unsolicited Heartbeat (#%d, 34=%s) only %v after the previous outbound message; N = %v; trace: %s", desc, i, fr.Seq, gap.Round(time.Millisecond), N, trace(frames, i)), replay)
				}
			}
		}
		prev = fr.T
	}
	if !prev.IsZero() {
		if gap := tEnd.Sub(prev); gap > bound {
			c.Violate(silentKey(sc, pat), fmt.Sprintf("%s: nothing was transmitted during the last %v of the observation; bound %v", desc, gap.Round(time.Millisecond), bound), replay)
		}
	}
	c.Eval(vk.Hash64([]byte(desc)), hb > 0)
	c.Count("heartbeats_seen", int64(hb))
	c.Count("outbound_messages", int64(len(frames)))
	c.Max("max_gap_ms_N="+strconv.Itoa(sc.n), maxGap.Milliseconds())
	if hb > 0 {
		c.Max("max_neg_min_heartbeat_gap_ms_N="+strconv.Itoa(sc.n), -minHbGap.Milliseconds())
	}
	if c.WantSample() {
		c.Sample(map[string]interface{}{"scenario": desc, "outbound": len(frames), "unsolicited_heartbeats": hb, "max_gap_ms": maxGap.Milliseconds(), "min_heartbeat_gap_ms": minHbGap.Milliseconds()})
	}
}

func main() {
	c := vk.Init("C08")
	c.Rule("full-stack sessions, both roles, negotiated N in {1,2,3} (quick) + {5,20} (thorough); the peer keeps the session alive with a Heartbeat every 0.8 N; application send patterns relative to the previous outbound message: none (idle for many periods), one send N-0.15 s / N / N+0.15 s / N/2 after it, bursts of 20 followed by 2.3 N of idleness, two sends 0.09 N apart followed by 1.6 N of idleness, a retransmission requested by the peer N/2 after it, an application send through the handler (own header) N/2 after it; application sends every 0.3 N after the application has removed two outgoing observers it had registered before the logon (RemoveOutgoingHandler with the identifiers it was given); send attempts every 0.3 N that an application filter refuses (filter registered before logon: judged like any other pattern; registered after logon: a recorded finding with its own key); a peer that sends nothing on its own and answers each of the session's TestRequests only after 3/4 of the probe period (the session's heartbeat falls due while its own TestRequest is pending); plus sessions that log on a second time on the same connection after a Logout exchange (acceptor: first interval 3 then 1, 1 then 2, 2 then 2; initiator: same interval), observed from the second logon with the patterns idle / N+0.15 s / N/2. Oracle on write timestamps at the peer end: every gap between consecutive outbound messages (and up to the end of the observation) <= N + N/10 + slack, slack = 100 ms + 3 x measured scheduler oversleep; every Heartbeat without TestReqID follows the previous outbound message by >= N - 20 ms. distinct = (role, N, pattern); non-trivial = at least one unsolicited Heartbeat observed")
	c.Assume("a run whose canary measured more than 250 ms oversleep is inconclusive")
	can := rig.StartCanary()
	defer can.Stop()
	ns := []int{1, 2, 3}
	periods := map[int]int{1: 10, 2: 5, 3: 4, 5: 4, 20: 3}
	if c.Thorough() {
		ns = []int{1, 2, 3, 5, 20}
		periods = map[int]int{1: 30, 2: 15, 3: 10, 5: 8, 20: 4}
	}
	var scs []scen
	for _, role := range []rig.Role{rig.Acceptor, rig.Initiator} {
		for _, n := range ns {
			for _, p := range []string{"idle", "send-just-before", "send-inside-last-polling-step", "counter-store-fault-on-one-send", "accepted-stage-observer-returns-false", "resend-batch-refused-midway", "peer-testrequest-mid-period", "slow-refused-send-across-the-deadline", "send-at-deadline", "send-just-after", "bursts-then-idle", "half-period-sends", "pair-just-under-a-tenth-apart", "resend-replay-mid-period", "handler-send-mid-period", "peer-answers-testrequests-late", "observers-removed-after-logon", "refused-sends-filter-registered-before-logon", "refused-sends-filter-registered-after-logon"} {
				scs = append(scs, scen{role, n, p, periods[n], 0})
			}
		}
	}
	// a second logon on the same connection after a Logout exchange: the session is then logged on with the NEW interval
	for _, role := range []rig.Role{rig.Acceptor, rig.Initiator} {
		for _, pair := range [][2]int{{3, 1}, {1, 2}, {2, 2}} {
			if role == rig.Initiator && pair[0] != pair[1] {
				continue
			}
			for _, p := range []string{"idle", "send-just-after", "half-period-sends"} {
				scs = append(scs, scen{role, pair[1], p, periods[pair[1]], pair[0]})
			}
		}
	}
	var wg sync.WaitGroup
	for i, sc := range scs {
		wg.Add(1)
		go func(i int, sc scen) {
			defer wg.Done()
			run(c, can, sc, i)
		}(i, sc)
	}
	wg.Wait()
	c.Set("max_scheduler_oversleep_ms", float64(can.Max())/1e6)
	c.Finish()
}

// silentKey classifies a too-long silence. One history has a key of its own (it is a recorded finding, see
// KNOWN_FINDINGS.txt): send attempts refused by an outgoing handler that runs AFTER the session's timer hook.
func silentKey(sc scen, pat string) string {
	if sc.pattern == "refused-sends-filter-registered-after-logon" {
		return "C08/silent-while-refused-send-attempts-restart-the-heartbeat-timer/refusing-handler-registered-after-logon"
	}
	return fmt.Sprintf("C08/silent-too-long/%s/N=%d/%s", sc.role, sc.n, pat)
}

func trace(frames []rig.Frame, i int) string {
	var sb strings.Builder
	from := i - 4
	if from < 0 {
		from = 0
	}
	for k := from; k <= i && k < len(frames); k++ {
		d := time.Duration(0)
		if k > 0 {
			d = frames[k].T.Sub(frames[k-1].T)
		}
		fmt.Fprintf(&sb, "[#%d 35=%s 34=%s +%v] ", k, frames[k].Type, frames[k].Seq, d.Round(100*time.Microsecond))
	}
	return sb.String()
}

// flakyCounter is the bundled store whose next GetNextSeqNum for the outgoing side fails once when armed.
type flakyCounter struct {
	*memory.Storage
	armed int32
}

func (f *flakyCounter) GetNextSeqNum(id fix.StorageID) (int, error) {
	if id.Side == fix.Outgoing && atomic.CompareAndSwapInt32(&f.armed, 1, 0) {
		return 0, errors.New("scripted: counter store unavailable")
	}
	return f.Storage.GetNextSeqNum(id)
}
