// C11 — no byte string can crash or hang the decoder.
package main

import (
	"bytes"
	"encoding/hex"
	"errors"
	"fmt"
	fixgen "github.com/b2broker/simplefix-go/tests/fix44"
	"math/rand"
	"os"
	"os/exec"
	"path/filepath"
	"regexp"
	"runtime"
	"runtime/debug"
	"strconv"
	"strings"
	"sync/atomic"
	"time"

	"github.com/b2broker/simplefix-go/fix"
	"github.com/b2broker/simplefix-go/fix/encoding"

	"verifharness/fixref"
	"verifharness/gen"
	"verifharness/rig"
	"verifharness/vk"

	"github.com/b2broker/simplefix-go/session"
)

type target struct {
	name   string
	ft     fixref.FramingTags
	empty  func() *fix.Message
	fields []string
	groups []gen.GroupInfo
}

func targets(c *vk.Ctx) []*target {
	var out []*target
	for _, ty := range gen.F44Types {
		tyy := ty
		m := ty.New()
		f, g := gen.LibTags(m.Items())
		out = append(out, &target{name: "fix44/" + ty.Name, ft: fixref.Std, empty: func() *fix.Message { return tyy.New() }, fields: f, groups: g})
	}
	o := gen.DefaultOpts()
	for i := 0; len(out) < len(gen.F44Types)+8 && i < 400; i++ {
		r := rand.New(rand.NewSource(int64(1000 + i))) // fixed: the template set does not depend on the seed
		t := gen.RandTemplate(r, o)
		m := t.Empty()
		f, g := gen.LibTags(m.Items())
		deep := false
		for _, gi := range g {
			if gi.Depth >= 2 {
				deep = true
			}
		}
		if !deep {
			continue
		}
		tt := t
		out = append(out, &target{name: fmt.Sprintf("gen-template#%d", i), ft: t.FT, empty: func() *fix.Message { return tt.Empty() }, fields: f, groups: g})
	}
	return out
}

var digits = regexp.MustCompile(`[0-9]+`)

func panicClass(p string, stack string) string {
	fn := "?"
	for _, line := range strings.Split(stack, "\n") {
		line = strings.TrimSpace(line)
		if strings.HasPrefix(line, "github.com/b2broker/simplefix-go") {
			fn = line
			if i := strings.LastIndex(fn, "("); i > 0 {
				fn = fn[:i]
			}
			fn = strings.TrimPrefix(fn, "github.com/b2broker/simplefix-go/")
			break
		}
	}
	p = digits.ReplaceAllString(p, "N")
	p = strings.Map(func(r rune) rune {
		if r == ' ' {
			return '-'
		}
		if r < 33 || r > 126 {
			return -1
		}
		return r
	}, p)
	if len(p) > 60 {
		p = p[:60]
	}
	return fn + "/" + p
}

type callResult struct {
	err   error
	pan   string
	stack string
}

func callUnmarshal(tg *target, strict bool, data []byte) (res callResult) {
	defer func() {
		if p := recover(); p != nil {
			res.pan = fmt.Sprint(p)
			res.stack = string(debug.Stack())
		}
	}()
	into := tg.empty()
	if strict {
		res.err = encoding.Unmarshal(into, data)
	} else {
		res.err = encoding.NewDefaultUnmarshaller(false).Unmarshal(into, data)
	}
	if res.err == nil {
		// a successfully parsed message must also be usable
		_, _ = into.ToBytes()
		_ = into.String()
	}
	return
}

func callLookup(data []byte, tag string) (v []byte, res callResult) {
	defer func() {
		if p := recover(); p != nil {
			res.pan = fmt.Sprint(p)
			res.stack = string(debug.Stack())
		}
	}()
	v, res.err = fix.ValueByTag(data, tag)
	return
}

// exact returns a copy of b whose capacity equals its length.
func exact(b []byte) []byte {
	out := make([]byte, len(b))
	copy(out, b)
	return out[:len(b):len(b)]
}

// embedded returns b as a sub-slice of a larger buffer whose tail is adversarial.
func embedded(b []byte, tail []byte) []byte {
	buf := make([]byte, 0, len(b)+len(tail)+64)
	buf = append(buf, b...)
	buf = append(buf, tail...)
	return buf[:len(b)]
}

type worker struct {
	cur     atomic.Value // string: description of the call in flight
	started int64        // unix nano, 0 when idle
	file    *os.File
}

func (w *worker) begin(desc string, data []byte) {
	if w.file != nil {
		hdr := fmt.Sprintf("%-200s\n%08d\n", vk.Trunc(desc, 190), len(data))
		w.file.WriteAt(append([]byte(hdr), data...), 0)
	}
	w.cur.Store(desc + " input=" + hex.EncodeToString(data))
	atomic.StoreInt64(&w.started, time.Now().UnixNano())
}
func (w *worker) end() { atomic.StoreInt64(&w.started, 0) }

func soup(r *rand.Rand, tg *target) []byte {
	var mid bytes.Buffer
	// MsgType first most of the time
	if r.Intn(8) > 0 {
		mid.WriteString(tg.ft.Type + "=" + []string{"A", "0", "1", "2", "3", "5", "V", "W", "X", "Y", "4", ""}[r.Intn(12)])
		mid.WriteByte(1)
	}
	n := r.Intn(14)
	anyTag := func() string {
		switch r.Intn(6) {
		case 0:
			return strconv.Itoa(r.Intn(1200))
		case 1:
			return []string{tg.ft.Begin, tg.ft.Len, tg.ft.Sum, tg.ft.Type, "", "=", "x"}[r.Intn(7)]
		}
		if len(tg.groups) > 0 && r.Intn(2) == 0 {
			g := tg.groups[r.Intn(len(tg.groups))]
			switch r.Intn(3) {
			case 0:
				return g.Count
			case 1:
				return g.First
			default:
				if len(g.Members) > 0 {
					return g.Members[r.Intn(len(g.Members))]
				}
				return g.Count
			}
		}
		if len(tg.fields) > 0 {
			return tg.fields[r.Intn(len(tg.fields))]
		}
		return "1"
	}
	anyVal := func() string {
		switch r.Intn(9) {
		case 0:
			return ""
		case 1:
			return strconv.Itoa(r.Intn(5))
		case 2:
			return "-1"
		case 3:
			return "99999999999999999999"
		case 4:
			return "Y"
		case 5:
			return "20240101-00:00:00.000"
		case 6:
			return anyTag() + "="
		default:
			return gen.RandString(r, 6, nil)
		}
	}
	for i := 0; i < n; i++ {
		switch r.Intn(12) {
		case 0:
			mid.WriteByte(1) // repeated SOH: empty field
		case 1:
			mid.WriteString(anyTag()) // no '='
			mid.WriteByte(1)
		case 2:
			mid.WriteString("=" + anyVal())
			mid.WriteByte(1)
		case 3, 4:
			// a group: count then some entries, possibly inconsistent
			if len(tg.groups) > 0 {
				g := tg.groups[r.Intn(len(tg.groups))]
				cnt := r.Intn(4)
				real := cnt
				if r.Intn(3) == 0 {
					real = r.Intn(4)
				}
				mid.WriteString(g.Count + "=" + strconv.Itoa(cnt))
				if r.Intn(6) > 0 {
					mid.WriteByte(1)
				}
				for e := 0; e < real; e++ {
					first := g.First
					if r.Intn(6) == 0 {
						first = anyTag()
					}
					mid.WriteString(first + "=" + anyVal())
					mid.WriteByte(1)
					for k := 0; k < r.Intn(3); k++ {
						mid.WriteString(anyTag() + "=" + anyVal())
						mid.WriteByte(1)
					}
					// a nested group's count field inside the entry, followed by junk
					if r.Intn(3) == 0 {
						var inner []string
						for _, g2 := range tg.groups {
							if g2.Depth == g.Depth+1 {
								for _, mtag := range g.Members {
									if mtag == g2.Count {
										inner = append(inner, g2.Count)
									}
								}
							}
						}
						if len(inner) > 0 {
							mid.WriteString(inner[r.Intn(len(inner))] + "=" + strconv.Itoa(r.Intn(3)))
							switch r.Intn(5) {
							case 0:
								mid.WriteString("\x01zzz\x01")
							case 1:
								mid.WriteString("\x01\x01")
							case 2:
								mid.WriteString("\x01")
							case 3:
								mid.WriteString("\x01" + anyTag() + "\x01")
							default:
							}
						}
					}
				}
				continue
			}
			fallthrough
		default:
			mid.WriteString(anyTag() + "=" + anyVal())
			if r.Intn(15) > 0 {
				mid.WriteByte(1)
			}
		}
	}
	m := mid.Bytes()
	if len(m) > 0 && m[len(m)-1] != 1 && r.Intn(4) > 0 {
		m = append(m, 1)
	}
	begin := []string{"FIX.4.4", "F", "", "FIX.4.4" + tg.ft.Len + "=3"}[r.Intn(4)]
	return fixref.EncodeRaw(tg.ft, begin, m)
}

func main() {
	c := vk.Init("C11")
	c.Rule("inputs: (a) every string of length 0..3 over {8,9,=,SOH,1,0,x} (exhaustive, 400 strings); (b) field soups built from the target template's own tags (missing '=', empty fields, repeated SOH, group counts without followers / with wrong counts / wrong first tags, CheckSum tag in the middle) and then frame-fixed by the reference encoder so that they pass the integrity check and reach field and group parsing; (c) byte-level mutations of valid library output; (d) coverage-guided inputs from go test -fuzz (iteration-bounded). Each input is parsed strict and non-strict into every tests/fix44 type and generated templates with nested groups, as an exact-capacity slice and again embedded in a larger buffer with an adversarial tail (results must agree), and looked up with ValueByTag; a sample of the soups (also re-typed as administrative messages) is fed to running sessions of both roles through ServeIncoming, where a panic in the handler loop is recorded. distinct = hash(input, target); non-trivial = the input passes the integrity check (CheckFrame) or is shorter than a framing tag; (f) every all-digit field of valid generated messages given each of 26 hostile values (negative, signed, padded, empty, beyond 32/63/64 bits, exponent/hex/non-ASCII digits), with the frame left as it is and with BodyLength/CheckSum recomputed around the value; (g) the same 26 values in the numeric fields of well-formed ResendRequest / TestRequest / Heartbeat / SequenceReset / Logon messages fed to logged-on sessions with stored messages; (i) random histories (2..8 steps) over the alphabet of good / refused / damaged Logons, Logout, Heartbeat, TestRequest, ResendRequests, application and unknown types through sessions of both roles (panic oracle only); (h) byte streams through real connections (scripted net.Conn -> the library's stream reader -> handler -> session) of both roles, before and after logon, in one piece and cut into random segments: every string of length 0..3 over the alphabet of (a) placed at the start of the stream, inside the framing fields, just before the checksum digits and after a complete message, and field soups raw / frame-fixed / re-typed as administrative messages / with deleted, doubled and replaced bytes, each followed by a valid message; a panic in a goroutine of the library ends the workload process, which is the violation")
	c.Assume("a panic is caught by recover in the calling goroutine; fatal errors kill the child, which the orchestrator reports as a violation with the input last logged to disk")
	tgs := targets(c)
	nSoup := c.Pick(24000, 700000) // per run, spread over targets
	nMut := c.Pick(12000, 300000)
	fuzzExecs := c.Pick(150000, 12000000)

	nw := runtime.NumCPU()
	workers := make([]*worker, nw)
	for i := range workers {
		workers[i] = &worker{}
		if c.WorkDir != "" {
			f, err := os.Create(filepath.Join(c.WorkDir, fmt.Sprintf("current-%d.bin", i)))
			if err == nil {
				workers[i].file = f
			}
		}
	}
	// hang watchdog with starvation canary
	var maxCanary int64
	stop := make(chan struct{})
	go func() {
		for {
			t0 := time.Now()
			select {
			case <-stop:
				return
			case <-time.After(5 * time.Millisecond):
			}
			if d := int64(time.Since(t0) - 5*time.Millisecond); d > atomic.LoadInt64(&maxCanary) {
				atomic.StoreInt64(&maxCanary, d)
			}
		}
	}()
	go func() {
		for {
			select {
			case <-stop:
				return
			case <-time.After(time.Second):
			}
			now := time.Now().UnixNano()
			for _, w := range workers {
				st := atomic.LoadInt64(&w.started)
				if st != 0 && now-st > int64(10*time.Second) && atomic.LoadInt64(&maxCanary) < int64(2*time.Second) {
					desc, _ := w.cur.Load().(string)
					c.Violate("C11/hang", "a decoder call has not returned after 10 s on an unstarved process: "+vk.Trunc(desc, 1500), map[string]interface{}{"call": desc})
					buf := make([]byte, 1<<20)
					n := runtime.Stack(buf, true)
					os.Stderr.Write(buf[:n])
					c.Finish()
					os.Exit(0)
				}
			}
		}
	}()

	getWorker := func(slot int) *worker { return workers[slot%nw] }

	tail := bytes.Repeat([]byte("\x0110=000\x018=FIX\x019=5\x0135=A\x01268=3\x01269=0\x01"), 4)

	judgeParse := func(w *worker, tg *target, data []byte, genName string, idx int) {
		valid := fixref.CheckFrame(tg.ft, data) == nil
		nontrivial := valid || len(data) <= 3
		c.Eval(vk.Hash64([]byte(tg.name), data), nontrivial)
		c.Count("inputs_by_generator/"+genName, 1)
		if valid {
			c.Count("inputs_passing_integrity_check", 1)
		}
		for _, strict := range []bool{true, false} {
			mode := "strict"
			if !strict {
				mode = "non-strict"
			}
			desc := fmt.Sprintf("Unmarshal(%s,%s) gen=%s idx=%d", tg.name, mode, genName, idx)
			w.begin(desc, data)
			r1 := callUnmarshal(tg, strict, exact(data))
			r2 := callUnmarshal(tg, strict, embedded(data, tail))
			w.end()
			replay := map[string]interface{}{"target": tg.name, "mode": mode, "generator": genName, "index": idx, "seed": c.Seed, "input_hex": hex.EncodeToString(data), "input": vk.Trunc(fixref.Pretty(data), 800)}
			if r1.pan != "" {
				c.Violate("C11/panic/"+panicClass(r1.pan, r1.stack), fmt.Sprintf("%s panicked on an exact-capacity input: %s\n%s", desc, r1.pan, vk.Trunc(r1.stack, 1800)), replay)
			} else if r2.pan != "" {
				c.Violate("C11/panic/"+panicClass(r2.pan, r2.stack), fmt.Sprintf("%s panicked on an embedded input: %s\n%s", desc, r2.pan, vk.Trunc(r2.stack, 1800)), replay)
			} else if (r1.err == nil) != (r2.err == nil) {
				c.Violate("C11/reads-beyond-input-length", fmt.Sprintf("%s: result depends on bytes beyond the end of the input (exact-capacity copy: err=%v; same bytes inside a larger buffer: err=%v)", desc, r1.err, r2.err), replay)
			}
			if r1.pan == "" && r1.err == nil {
				c.Count("inputs_accepted_by_parser", 1)
			}
			if r1.pan == "" && r1.err != nil && strings.Contains(r1.err.Error(), "group") {
				c.Count("inputs_reaching_group_parsing(error)", 1)
			}
		}
	}
	judgeLookup := func(w *worker, data []byte, tag string, genName string) {
		desc := fmt.Sprintf("ValueByTag(tag=%q) gen=%s", tag, genName)
		w.begin(desc, data)
		v1, r1 := callLookup(exact(data), tag)
		v2, r2 := callLookup(embedded(data, tail), tag)
		w.end()
		c.Count("lookups", 1)
		replay := map[string]interface{}{"tag": tag, "generator": genName, "seed": c.Seed, "input_hex": hex.EncodeToString(data)}
		if r1.pan != "" || r2.pan != "" {
			p, st := r1.pan, r1.stack
			if p == "" {
				p, st = r2.pan, r2.stack
			}
			c.Violate("C11/panic/"+panicClass(p, st), desc+" panicked: "+p+"\n"+vk.Trunc(st, 1500), replay)
		} else if (r1.err == nil) != (r2.err == nil) || !bytes.Equal(v1, v2) {
			c.Violate("C11/reads-beyond-input-length", fmt.Sprintf("%s: result depends on bytes beyond the end of the input (%q/%v vs %q/%v)", desc, v1, r1.err, v2, r2.err), replay)
		}
	}
	lookupTags := []string{"", "8", "9", "10", "35", "34", "112", "99999999999999999999", "=", "\x01"}

	// (a) exhaustive short strings
	alpha := []byte{'8', '9', '=', 1, '1', '0', 'x'}
	var shorts [][]byte
	shorts = append(shorts, []byte{})
	for l := 1; l <= 3; l++ {
		idx := make([]int, l)
		for {
			b := make([]byte, l)
			for k := range idx {
				b[k] = alpha[idx[k]]
			}
			shorts = append(shorts, b)
			k := l - 1
			for k >= 0 {
				idx[k]++
				if idx[k] < len(alpha) {
					break
				}
				idx[k] = 0
				k--
			}
			if k < 0 {
				break
			}
		}
	}
	shorts = append(shorts, nil)
	vk.Parallel(len(shorts), nw, func(i int) {
		w := getWorker(i)
		for _, tg := range tgs {
			judgeParse(w, tg, shorts[i], "short-exhaustive", i)
		}
		for _, tag := range lookupTags {
			judgeLookup(w, shorts[i], tag, "short-exhaustive")
		}
	})
	c.Set("short_strings_exhaustive", len(shorts))

	// (b) frame-fixed soups
	vk.Parallel(nSoup, nw, func(i int) {
		w := getWorker(i)
		r := c.Rand("c11-soup", int64(i))
		tg := tgs[i%len(tgs)]
		data := soup(r, tg)
		judgeParse(w, tg, data, "frame-fixed-soup", i)
		if i%4 == 0 {
			// also against a different template than the one whose tags were used
			judgeParse(w, tgs[r.Intn(len(tgs))], data, "frame-fixed-soup(cross-template)", i)
		}
		judgeLookup(w, data, lookupTags[r.Intn(len(lookupTags))], "frame-fixed-soup")
		if c.WantSample() && i%3001 == 7 {
			c.Sample(map[string]interface{}{"generator": "frame-fixed-soup", "target": tg.name, "input": vk.Trunc(fixref.Pretty(data), 300)})
		}
	})

	// (c) mutations of valid output
	o := gen.DefaultOpts()
	vk.Parallel(nMut, nw, func(i int) {
		w := getWorker(i)
		r := c.Rand("c11-mut", int64(i))
		ty := gen.F44Types[i%len(gen.F44Types)]
		m := ty.New()
		gen.PopulateLib(r, m, o, true)
		wire, err, pan := gen.Serialize(m)
		if err != nil || pan != "" {
			return
		}
		data := append([]byte(nil), wire...)
		for k := 0; k < 1+r.Intn(4) && len(data) > 0; k++ {
			p := r.Intn(len(data))
			switch r.Intn(5) {
			case 0:
				data[p] = byte(r.Intn(256))
			case 1:
				data = append(data[:p], data[p+1:]...)
			case 2:
				data = append(data[:p], append([]byte{byte(r.Intn(256))}, data[p:]...)...)
			case 3:
				data = data[:p]
			case 4:
				data[p] = 1
			}
		}
		if r.Intn(2) == 0 && len(data) > 8 {
			// re-frame: keep the damage, fix length and checksum
			if fs, e := fixref.TokenizeLoose(append(append([]byte(nil), data...), 1)); e == nil && len(fs) > 3 {
				var mid bytes.Buffer
				for _, f := range fs[2:] {
					if f.Tag == "10" {
						continue
					}
					mid.WriteString(f.Tag + "=")
					mid.Write(f.Val)
					mid.WriteByte(1)
				}
				data = fixref.EncodeRaw(fixref.Std, "FIX.4.4", mid.Bytes())
			}
		}
		tg := tgs[i%len(gen.F44Types)]
		judgeParse(w, tg, data, "mutated-valid", i)
		judgeLookup(w, data, lookupTags[r.Intn(len(lookupTags))], "mutated-valid")
	})
	// (f) hostile VALUES of numeric fields in otherwise valid messages: every field whose value is all digits (BodyLength,
	// CheckSum, sequence numbers, group counts, lengths, quantities) is given each value of a fixed list, once with the
	// frame left as it is and once with BodyLength/CheckSum recomputed around it
	hostile := []string{"-1", "-16", "-17", "-100", "-2147483649", "-9223372036854775808", "-9223372036854775809", "0", "00", "-0", "+5", " 5", "5 ", "",
		"4294967296", "9223372036854775807", "9223372036854775808", "18446744073709551615", "18446744073709551616", "18446744073709551646",
		"99999999999999999999999999", "1e3", "0x10", "1.0", "٣", "１２"}
	nHostile := c.Pick(len(gen.F44Types)*2, len(gen.F44Types)*40)
	vk.Parallel(nHostile, nw, func(i int) {
		w := getWorker(i)
		r := c.Rand("c11-hostile-numbers", int64(i))
		ty := gen.F44Types[i%len(gen.F44Types)]
		m := ty.New()
		oo := o
		oo.PopulateProb = 0.5
		gen.PopulateLib(r, m, oo, true)
		wire, err, pan := gen.Serialize(m)
		if err != nil || pan != "" {
			return
		}
		fs, e := fixref.TokenizeLoose(wire)
		if e != nil || len(fs) < 4 {
			return
		}
		tg := tgs[i%len(gen.F44Types)]
		for fi, f := range fs {
			numeric := len(f.Val) > 0
			for _, ch := range f.Val {
				if ch < '0' || ch > '9' {
					numeric = false
				}
			}
			if !numeric {
				continue
			}
			for _, hv := range hostile {
				// (1) the value replaced, nothing else touched
				var raw bytes.Buffer
				for k, g := range fs {
					raw.WriteString(g.Tag + "=")
					if k == fi {
						raw.WriteString(hv)
					} else {
						raw.Write(g.Val)
					}
					raw.WriteByte(1)
				}
				judgeParse(w, tg, raw.Bytes(), "hostile-number", i)
				// (2) re-framed around the replaced value (not possible for the framing fields themselves)
				if fi >= 3 && fi < len(fs)-1 {
					var mid bytes.Buffer
					for k, g := range fs[2 : len(fs)-1] {
						mid.WriteString(g.Tag + "=")
						if k+2 == fi {
							mid.WriteString(hv)
						} else {
							mid.Write(g.Val)
						}
						mid.WriteByte(1)
					}
					judgeParse(w, tg, fixref.EncodeRaw(fixref.Std, "FIX.4.4", mid.Bytes()), "hostile-number(re-framed)", i)
				}
				c.Count("hostile_number_substitutions", 1)
			}
		}
	})
	// (e) the same hostile bytes through the session's inbound path: no message a peer can send makes it panic
	nSess := c.Pick(60, 1500)
	vk.Parallel(nSess, nw, func(i int) {
		r := c.Rand("c11-session", int64(i))
		role := rig.Role(i % 2)
		rg, err := rig.NewStepRig(rig.StepCfg{Role: role, HeartBtInt: 30, Limits: &session.IntLimits{Min: 5, Max: 60}, SentinelBarrier: true})
		if err != nil {
			return
		}
		defer rg.Close()
		p := rig.NewPeer()
		if i%3 != 0 {
			rg.Inbound(p.Logon(30, "0"))
		}
		for k := 0; k < 40; k++ {
			tg := tgs[r.Intn(len(gen.F44Types))]
			data := soup(r, tg)
			if r.Intn(3) == 0 {
				// admin message types with hostile content
				data = fixref.EncodeRaw(fixref.Std, "FIX.4.4", append([]byte("35="+[]string{"A", "0", "1", "2", "3", "4", "5"}[r.Intn(7)]+"\x01"), data[bytes.IndexByte(data, 1)+1:]...))
			}
			if _, err := fix.ValueByTag(data, "35"); err != nil {
				continue // a message without MsgType ends the handler loop by design; not a crash
			}
			res := rg.Inbound(data)
			c.Count("session_inbound_hostile_messages", 1)
			c.Eval(vk.Hash64([]byte("session"), data), fixref.CheckFrame(fixref.Std, data) == nil)
			if res.Panic != "" {
				c.Violate("C11/panic-in-session-inbound-path/"+panicClass(strings.SplitN(res.Panic, "\n", 2)[0], res.Panic), fmt.Sprintf("%s session: the inbound path panicked on %s:\n%s", role, vk.Trunc(fixref.Pretty(data), 300), vk.Trunc(res.Panic, 1500)), map[string]interface{}{"input_hex": hex.EncodeToString(data), "role": role.String()})
				return
			}
			if res.RunEnded || res.TimedOut {
				return
			}
		}
	})
	// (g) hostile numbers through a logged-on session: well-formed admin messages (correct BodyLength and CheckSum)
	// whose numeric fields carry the hostile values — the session hands them to its stores and timers
	vk.Parallel(len(hostile)*2, nw, func(i int) {
		hv := hostile[i%len(hostile)]
		role := rig.Role(i / len(hostile))
		rg, err := rig.NewStepRig(rig.StepCfg{Role: role, HeartBtInt: 30, Limits: &session.IntLimits{Min: 5, Max: 60}, SentinelBarrier: true})
		if err != nil {
			return
		}
		defer rg.Close()
		p := rig.NewPeer()
		if res := rg.Inbound(p.Logon(30, "0")); !res.Logged {
			return
		}
		for k := 0; k < 3; k++ {
			rg.Do(func() error { return rg.S.Send(fixgen.CreateMarketDataRequestReject("stored")) })
		}
		msgs := [][]byte{
			p.Msg("2", fixref.F(rig.TBeginSeq, hv), fixref.F(rig.TEndSeq, "0")),
			p.Msg("2", fixref.F(rig.TBeginSeq, "1"), fixref.F(rig.TEndSeq, hv)),
			p.Msg("2", fixref.F(rig.TBeginSeq, hv), fixref.F(rig.TEndSeq, hv)),
			p.Msg("1", fixref.F(rig.TTestReqID, hv)),
			rig.Reframe(p.Heartbeat(), map[string]string{rig.TSeq: hv}, nil),
			p.Msg("4", fixref.F("36", hv), fixref.F("123", "Y")),
			p.Msg("A", fixref.F(rig.TEncrypt, "0"), fixref.F(rig.THeartBt, hv)),
		}
		for _, data := range msgs {
			res := rg.Inbound(data)
			c.Count("session_inbound_hostile_numbers", 1)
			c.Eval(vk.Hash64([]byte("session-numbers"), data), true)
			if res.Panic != "" {
				c.Violate("C11/panic-in-session-inbound-path/"+panicClass(strings.SplitN(res.Panic, "\n", 2)[0], res.Panic), fmt.Sprintf("%s session: the inbound path panicked on %s:\n%s", role, vk.Trunc(fixref.Pretty(data), 300), vk.Trunc(res.Panic, 1500)), map[string]interface{}{"input_hex": hex.EncodeToString(data), "role": role.String()})
				return
			}
			if res.RunEnded || res.TimedOut {
				return
			}
		}
	})
	// (i) histories of well-formed and damaged administrative messages (the alphabet of the logon checks: good, refused
	// and damaged Logons, Logout, Heartbeat, TestRequest, ResendRequests, application and unknown types) through
	// sessions of both roles: whatever the order, the inbound path does not panic
	symbols := rig.Alphabet()
	var inbound []rig.Sym
	for _, sy := range symbols {
		if !sy.Local {
			inbound = append(inbound, sy)
		}
	}
	nHist := c.Pick(1200, 40000)
	vk.Parallel(nHist, nw, func(i int) {
		r := c.Rand("c11-histories", int64(i))
		role := rig.Role(i % 2)
		lim := [2]int{5, 60}
		rg, err := rig.NewStepRig(rig.StepCfg{Role: role, HeartBtInt: 30, Limits: &session.IntLimits{Min: lim[0], Max: lim[1]}, SentinelBarrier: true,
			OnLogon: func(ls *session.LogonSettings) error {
				if !rig.Approve(ls.Username, ls.Password) {
					return errors.New("refused")
				}
				return nil
			}})
		if err != nil {
			return
		}
		defer rg.Close()
		p := rig.NewPeer()
		n := 2 + r.Intn(7)
		var names []string
		for k := 0; k < n; k++ {
			sy := inbound[r.Intn(len(inbound))]
			if r.Intn(3) == 0 {
				sy = inbound[r.Intn(4)] // acceptable Logons more often: logged-on phases, re-logons
			} else if r.Intn(4) == 0 {
				for _, x := range inbound {
					if x.Name == "Logout" {
						sy = x
					}
				}
			}
			names = append(names, sy.Name)
			data := sy.Build(p, lim)
			res := rg.Inbound(data)
			c.Count("session_inbound_history_steps", 1)
			if res.Panic != "" {
				c.Violate("C11/panic-in-session-inbound-path/"+panicClass(strings.SplitN(res.Panic, "\n", 2)[0], res.Panic), fmt.Sprintf("%s session: the inbound path panicked at the last step of the history [%s]:\n%s", role, strings.Join(names, " "), vk.Trunc(res.Panic, 1500)), map[string]interface{}{"history": names, "role": role.String(), "last_input_hex": hex.EncodeToString(data)})
				return
			}
			if res.RunEnded || res.TimedOut {
				break
			}
		}
		c.Eval(vk.Hash64([]byte("history"), []byte(role.String()), []byte(strings.Join(names, " "))), true)
	})
	// (h) hostile byte streams through real connections of both roles
	connStreams(c, tgs, nw)
	close(stop)
	c.Set("max_scheduler_oversleep_ms", atomic.LoadInt64(&maxCanary)/1e6)

	// (d) native fuzzing, iteration bounded
	for _, fz := range []string{"FuzzUnmarshal", "FuzzValueByTag"} {
		runFuzz(c, fz, fuzzExecs)
	}
	c.Finish()
}

var reExecs = regexp.MustCompile(`execs: ([0-9]+)`)
var reNew = regexp.MustCompile(`new interesting: ([0-9]+)`)

func runFuzz(c *vk.Ctx, name string, execs int) {
	root := os.Getenv("VERIF_ROOT")
	if root == "" {
		root = "/verif"
	}
	pkgDir := filepath.Join(root, "harness", "props", "c11fuzz")
	crashDir := filepath.Join(pkgDir, "testdata", "fuzz", name)
	os.RemoveAll(crashDir)
	cmd := exec.Command("go", "test", "-tags", "verif", "-run", "^$", "-fuzz", "^"+name+"$", "-fuzztime", fmt.Sprintf("%dx", execs), "-parallel", strconv.Itoa(runtime.NumCPU()), ".")
	cmd.Dir = pkgDir
	cmd.Env = append(os.Environ(), "GOFLAGS=-mod=mod", "GOPROXY=off", "GOSUMDB=off", "GOTOOLCHAIN=local", fmt.Sprintf("VERIF_SEED=%d", c.Seed))
	out, err := cmd.CombinedOutput()
	s := string(out)
	lastExecs, lastNew := 0, 0
	for _, m := range reExecs.FindAllStringSubmatch(s, -1) {
		lastExecs, _ = strconv.Atoi(m[1])
	}
	for _, m := range reNew.FindAllStringSubmatch(s, -1) {
		lastNew, _ = strconv.Atoi(m[1])
	}
	c.Count("fuzz_execs/"+name, int64(lastExecs))
	c.Count("fuzz_new_interesting/"+name, int64(lastNew))
	c.EvalN(int64(lastExecs))
	if err != nil {
		// a crasher was found (or the fuzz build failed)
		files, _ := filepath.Glob(filepath.Join(crashDir, "*"))
		if len(files) == 0 && !strings.Contains(s, "--- FAIL") {
			c.Inconclusive("go test -fuzz " + name + " failed without a crasher: " + vk.Trunc(s, 600))
			return
		}
		var crash string
		for _, f := range files {
			b, _ := os.ReadFile(f)
			crash += filepath.Base(f) + ":\n" + string(b) + "\n"
		}
		cls := "fuzz-failure"
		if i := strings.Index(s, "panic: "); i >= 0 {
			line := s[i:]
			if j := strings.Index(line, "\n"); j > 0 {
				line = line[:j]
			}
			fn := ""
			for _, l := range strings.Split(s[i:], "\n") {
				l = strings.TrimSpace(l)
				if strings.HasPrefix(l, "github.com/b2broker/simplefix-go") {
					fn = l
					if k := strings.LastIndex(fn, "("); k > 0 {
						fn = fn[:k]
					}
					fn = strings.TrimPrefix(fn, "github.com/b2broker/simplefix-go/")
					break
				}
			}
			cls = panicClass(strings.TrimPrefix(line, "panic: "), "")
			cls = fn + strings.TrimPrefix(cls, "?")
		}
		c.Violate("C11/panic/"+cls, "go test -fuzz "+name+" found a crasher:\n"+vk.Trunc(s, 2500), map[string]interface{}{"fuzz_target": name, "crasher_files": crash, "seed": c.Seed})
		os.RemoveAll(filepath.Join(pkgDir, "testdata"))
	}
}
