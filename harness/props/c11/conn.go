package main

import (
	"bytes"
	"encoding/hex"
	"fmt"
	"os"
	"sync/atomic"
	"time"

	"verifharness/fixref"
	"verifharness/gen"
	"verifharness/rig"
	"verifharness/vk"
)

// (h) hostile byte streams through a real connection. Everything above calls the decoder or hands complete
// "messages" to the handler; here the bytes arrive the way a peer delivers them: through net.Conn.Read into the
// library's stream reader, which cuts messages and passes them on to the handler and the session. The reader, the
// writer and the handler loops run in goroutines of the library: a panic there cannot be recovered by the harness
// and ends this process, which the orchestrator reports as a violation (CrashIsFinding) together with the tail of
// this log — so every stream is logged (hex) before it is fed.
func connStreams(c *vk.Ctx, tgs []*target, nw int) {
	alphabet := []byte{'8', '9', '=', 1, '1', '0', 'x'}
	var shorts [][]byte
	shorts = append(shorts, []byte{})
	for l := 1; l <= 3; l++ {
		idx := make([]int, l)
		for {
			b := make([]byte, l)
			for k, v := range idx {
				b[k] = alphabet[v]
			}
			shorts = append(shorts, b)
			k := l - 1
			for k >= 0 {
				idx[k]++
				if idx[k] < len(alphabet) {
					break
				}
				idx[k] = 0
				k--
			}
			if k < 0 {
				break
			}
		}
	}
	p0 := rig.NewPeer()
	valid := p0.Heartbeat()
	prefixes := [][]byte{
		nil,
		[]byte("8=FIX.4.4\x01"),
		[]byte("8=FIX.4.4\x019=5\x01"),
		[]byte("8=FIX.4.4\x019=5\x0135=0\x01"),
		valid[:len(valid)-4], // everything but the checksum digits and the last delimiter
		valid,
	}
	type stream struct {
		kind  string
		data  []byte
		logon bool
	}
	var streams []stream
	for pi, pre := range prefixes {
		for si, s := range shorts {
			if !c.Thorough() && (si+pi)%2 == 1 {
				continue
			}
			d := append(append([]byte(nil), pre...), s...)
			d = append(d, valid...) // and a valid message after it: the reader goes on after whatever it made of the rest
			streams = append(streams, stream{fmt.Sprintf("short-string-after-prefix-%d", pi), d, (si+pi)%4 == 0})
		}
	}
	nSoup := c.Pick(300, 6000)
	for i := 0; i < nSoup; i++ {
		r := c.Rand("c11-conn", int64(i))
		tg := tgs[r.Intn(len(gen.F44Types))]
		data := soup(r, tg)
		kind := "soup-frame-fixed"
		switch r.Intn(4) {
		case 0:
			// the raw field soup: no BeginString first, no BodyLength, CheckSum tag anywhere
			if i := bytes.Index(data, []byte("\x0135=")); i > 0 {
				data = data[i+1:]
			}
			kind = "soup-raw"
		case 1:
			data = fixref.EncodeRaw(fixref.Std, "FIX.4.4", append([]byte("35="+[]string{"A", "0", "1", "2", "3", "4", "5"}[r.Intn(7)]+"\x01"), data[bytes.IndexByte(data, 1)+1:]...))
			kind = "soup-as-admin-message"
		case 2:
			// byte-level damage: delete, double or replace bytes ('=' and SOH preferred)
			b := append([]byte(nil), data...)
			for k := 0; k < 1+r.Intn(4) && len(b) > 4; k++ {
				at := r.Intn(len(b))
				if j := bytes.IndexAny(b[at:], "=\x01"); j >= 0 && r.Intn(3) > 0 {
					at += j
				}
				switch r.Intn(3) {
				case 0:
					b = append(b[:at], b[at+1:]...)
				case 1:
					b = append(b[:at+1], b[at:]...)
				default:
					b[at] = []byte{1, '=', 0, 0xff, '1', '0'}[r.Intn(6)]
				}
			}
			data = b
			kind = "soup-damaged-bytes"
		}
		data = append(data, valid...)
		streams = append(streams, stream{kind, data, r.Intn(2) == 0})
	}
	var idle int64
	vk.Parallel(len(streams), nw, func(i int) {
		st := streams[i]
		role := rig.Role(i % 2)
		r := c.Rand("c11-conn-chunks", int64(i))
		fmt.Fprintf(os.Stderr, "C11 conn-stream #%d role=%s logon=%v kind=%s hex=%s\n", i, role, st.logon, st.kind, hex.EncodeToString(st.data))
		f, err := rig.StartFull(rig.FullCfg{Role: role, HeartBtInt: 30, BufSize: 4, Label: fmt.Sprintf("c11-conn-%d", i)})
		if err != nil {
			return
		}
		defer f.Shutdown()
		var l *rig.Link
		if role == rig.Acceptor {
			if l, err = f.Connect(fmt.Sprintf("c11-%d", i)); err != nil {
				return
			}
		} else {
			l = f.Links[0]
		}
		if st.logon {
			if !l.Logon(role, 30, 3*time.Second) {
				c.Count("conn_streams_logon_not_completed", 1)
				return
			}
		}
		// in one piece, or cut at random places (a peer's segments need not respect fields)
		data := st.data
		if i%3 != 0 {
			for len(data) > 0 {
				n := 1 + r.Intn(len(data))
				if n > 64 && r.Intn(2) == 0 {
					n = 1 + r.Intn(8)
				}
				l.Conn.Feed(data[:n])
				data = data[n:]
			}
		} else {
			l.Conn.Feed(data)
		}
		l.Conn.FeedEOF()
		// the library closes the socket once its reader saw the end of the stream
		closed := false
		for w := 0; w < 1500 && !closed; w++ {
			closed, _ = l.Conn.Closed()
			if !closed {
				time.Sleep(2 * time.Millisecond)
			}
		}
		if !closed {
			atomic.AddInt64(&idle, 1)
		}
		c.Count("conn_streams", 1)
		c.SetAdd("conn_stream_kinds", st.kind)
		c.Eval(vk.Hash64([]byte("conn-stream"), st.data, []byte{byte(role)}), true)
	})
	c.Count("conn_streams_socket_not_closed_within_3s_after_end_of_stream(not judged here, C13)", idle)
}
