// C10 — a ResendRequest is answered with exactly the requested stored messages.
package main

import (
	"bytes"
	"fmt"
	"runtime"
	"strconv"
	"strings"
	"sync"
	"time"

	simplefixgo "github.com/b2broker/simplefix-go"
	"github.com/b2broker/simplefix-go/fix"
	"github.com/b2broker/simplefix-go/session"
	"github.com/b2broker/simplefix-go/storages/memory"
	fixgen "github.com/b2broker/simplefix-go/tests/fix44"

	"verifharness/fixref"
	"verifharness/rig"
	"verifharness/vk"
)

type tracker struct {
	first map[int][]byte // first transmission per sequence number
	last  int
}

func (t *tracker) observe(outs []rig.Out) (retrans []rig.Out) {
	for _, o := range outs {
		s, err := strconv.Atoi(fixref.GetS(o.Fields, rig.TSeq))
		if err != nil {
			continue
		}
		if _, seen := t.first[s]; !seen {
			t.first[s] = o.Raw
			if s > t.last {
				t.last = s
			}
		} else {
			retrans = append(retrans, o)
		}
	}
	return
}

func category(b, e, last int) string {
	switch {
	case b >= 1 && e >= b && e <= last:
		if b == e {
			return "inside(b=e)"
		}
		return "inside"
	case e == 0 && b >= 1 && b <= last:
		return "e=0"
	case b == 0:
		return "b=0"
	case b > e:
		return "b>e"
	case b > last:
		return "wholly-beyond"
	default:
		return "partly-beyond"
	}
}

// traffic produces K outbound messages of mixed kinds on a logged-on rig.
func traffic(c *vk.Ctx, r *rig.StepRig, p *rig.Peer, tr *tracker, k int, sel func(int) int, reusedObj **fixgen.MarketDataRequestReject) bool {
	// reusedObj != nil: the application sends ONE message object again and again (the holder outlives this call, so
	// the same object is sent in later rounds of the session too)
	reuse := reusedObj != nil
	var reused *fixgen.MarketDataRequestReject
	if reuse {
		reused = *reusedObj
		defer func() { *reusedObj = reused }()
	}
	for tr.last < k {
		var res rig.StepResult
		switch sel(4) {
		case 0:
			res = r.Inbound(p.TestRequest("t" + strconv.Itoa(tr.last)))
		case 1:
			res = r.Inbound(rig.BadChecksum(p.Heartbeat())) // draws a Reject
		default:
			if reuse {
				if reused == nil {
					reused = fixgen.CreateMarketDataRequestReject("reused-object")
				}
				res = r.Do(func() error { return r.S.Send(reused) })
			} else {
				m := fixgen.CreateMarketDataRequestReject("app-" + strconv.Itoa(tr.last+1))
				res = r.Do(func() error { return r.S.Send(m) })
			}
		}
		if res.TimedOut {
			c.Inconclusive("watchdog during traffic")
			return false
		}
		tr.observe(res.Outs)
	}
	return true
}

func judge(c *vk.Ctx, tr *tracker, b, e int, lastAtCall int, res rig.StepResult, desc string, class string) {
	cat := category(b, e, lastAtCall)
	replay := map[string]interface{}{"scenario": desc, "b": b, "e": e, "last_sent": lastAtCall, "seed": c.Seed}
	retr := []rig.Out{}
	for _, o := range res.Outs {
		s, err := strconv.Atoi(fixref.GetS(o.Fields, rig.TSeq))
		if err != nil {
			continue
		}
		if s <= lastAtCall {
			retr = append(retr, o)
		}
	}
	hi := e
	if e == 0 {
		hi = lastAtCall
	}
	key := func(what string) string { return fmt.Sprintf("C10/%s/%s/%s", what, cat, class) }
	if cat == "inside" || cat == "inside(b=e)" || cat == "e=0" {
		var got []string
		for _, o := range retr {
			got = append(got, fixref.GetS(o.Fields, rig.TSeq))
		}
		if len(retr) != hi-b+1 {
			c.Violate(key("wrong-set-retransmitted"), fmt.Sprintf("%s: ResendRequest(%d,%d) with last sent %d retransmitted sequence numbers %v, want %d..%d", desc, b, e, lastAtCall, got, b, hi), replay)
			return
		}
		for i, o := range retr {
			want := b + i
			if class == "reused-object" && !bytes.Equal(o.Raw, tr.first[want]) {
				// the application sent one message object several times: is this the stored object coming back with the header of a later send?
				wf, _ := fixref.TokenizeLoose(tr.first[want])
				gs, _ := strconv.Atoi(fixref.GetS(o.Fields, rig.TSeq))
				if fixref.GetS(o.Fields, "262") == "reused-object" && fixref.GetS(wf, "262") == "reused-object" && gs > want {
					c.Violate("C10/reused-object-retransmitted-with-the-header-of-a-later-send", fmt.Sprintf("%s: ResendRequest(%d,%d): the message first sent under %d comes back as %s (the store keeps the application's message object, which a later Send re-stamped)", desc, b, e, want, vk.Trunc(fixref.Pretty(o.Raw), 200)), replay)
					return
				}
			}
			if fixref.GetS(o.Fields, rig.TSeq) != strconv.Itoa(want) {
				c.Violate(key("wrong-order-or-number"), fmt.Sprintf("%s: ResendRequest(%d,%d): retransmission #%d carries 34=%s, want %d (all: %v)", desc, b, e, i, fixref.GetS(o.Fields, rig.TSeq), want, got), replay)
				return
			}
			if !bytes.Equal(o.Raw, tr.first[want]) {
				c.Violate(key("not-byte-identical"), fmt.Sprintf("%s: ResendRequest(%d,%d): retransmission of %d differs from its first transmission:\n first: %s\n again: %s", desc, b, e, want, vk.Trunc(fixref.Pretty(tr.first[want]), 300), vk.Trunc(fixref.Pretty(o.Raw), 300)), replay)
				return
			}
			c.Count("retransmitted_messages_compared", 1)
		}
		return
	}
	// every other range: nothing outside [b,hi] may be retransmitted
	for _, o := range retr {
		s, _ := strconv.Atoi(fixref.GetS(o.Fields, rig.TSeq))
		if s < b || s > hi {
			c.Violate(key("retransmitted-outside-range"), fmt.Sprintf("%s: ResendRequest(%d,%d) with last sent %d retransmitted %d", desc, b, e, lastAtCall, s), replay)
			return
		}
	}
}

func main() {
	c := vk.Init("C10")
	c.Rule("(1) EXHAUSTIVE: for K in 1..8 outbound messages of mixed kinds (Logon/Logon reply, application sends, Heartbeat replies to TestRequests, Rejects of damaged messages), both roles, classes fresh-objects and reused-object: every ResendRequest(b,e) with (b,e) in [0,K+2]^2 on a fresh session; first transmissions are recorded from Outgoing() as emitted and compared byte for byte. (2) random sessions with K up to 200 and up to 12 repeated/overlapping requests each (every other session sends ONE application message object again and again through all rounds), a third of them written with leading zeros (02..010); in every third one the application registers observers (outgoing all-types, outgoing for its message type, incoming all-types) before Session.Run and removes them after the first round. (2b) sessions continuing a counter store preset to 9990 / 99990 / 999990 / 9999990 / 2^31-10 / 2^32-10: 14 messages, then requests b..e with b = preset+1..15 and e in {b, b+1, preset+9, +10, +11, last-1, last, 0}. (3) Logon gap: counter store preset to c, Logon with 34=r, all (c,r) in [0,6]x[1,8], both roles: r>c+1 must draw a ResendRequest with 7=c+1; and the same at a second logon of one session (after its own Logout was answered, or after the peer's Logout), the second Logon skipping 0, 1 or 3 numbers. (3c) real time, N=1: ResendRequest(1,0) arriving while the session's own TestRequest is pending is answered with the stored messages, not rejected. (4) thorough: 3 goroutines send while requests are fed; retransmissions must be byte-identical, contiguous b..n with n between last-sent-at-call and last-sent-at-return. distinct = (role,class,K,b,e,traffic); non-trivial = request inside the sent range or e=0")
	c.Assume("precondition: no outgoing handler refuses and the store does not fail (every assigned number was saved)")
	type job struct {
		role  rig.Role
		reuse bool
		k     int
		b, e  int
	}
	var jobs []job
	maxK := c.Pick(6, 8)
	for _, role := range []rig.Role{rig.Acceptor, rig.Initiator} {
		for _, reuse := range []bool{false, true} {
			for k := 1; k <= maxK; k++ {
				for b := 0; b <= k+2; b++ {
					for e := 0; e <= k+2; e++ {
						jobs = append(jobs, job{role, reuse, k, b, e})
					}
				}
			}
		}
	}
	c.Set("exhaustive_requests", len(jobs))
	vk.Parallel(len(jobs), runtime.NumCPU(), func(i int) {
		j := jobs[i]
		class := "fresh-objects"
		if j.reuse {
			class = "reused-object"
		}
		desc := fmt.Sprintf("%s %s K=%d", j.role, class, j.k)
		r, err := rig.NewStepRig(rig.StepCfg{Role: j.role, HeartBtInt: 30, Limits: &session.IntLimits{Min: 5, Max: 60}})
		if err != nil {
			c.Inconclusive("rig: " + err.Error())
			return
		}
		defer r.Close()
		p := rig.NewPeer()
		tr := &tracker{first: map[int][]byte{}}
		tr.observe(r.InitOuts)
		res := r.Inbound(p.Logon(30, "0"))
		if !res.Logged {
			c.Inconclusive("no logon")
			return
		}
		tr.observe(res.Outs)
		rr := c.Rand("c10-traffic", int64(i/((j.k+3)*(j.k+3))))
		var holder *fixgen.MarketDataRequestReject
		var reusedObj **fixgen.MarketDataRequestReject
		if j.reuse {
			reusedObj = &holder
		}
		if !traffic(c, r, p, tr, j.k, func(n int) int { return rr.Intn(n) }, reusedObj) {
			return
		}
		lastAtCall := tr.last
		res = r.Inbound(p.Resend(j.b, j.e))
		if res.TimedOut {
			c.Inconclusive("watchdog")
			return
		}
		cat := category(j.b, j.e, lastAtCall)
		c.Eval(vk.Hash64([]byte(desc), []byte(fmt.Sprint(j.b, j.e))), strings.HasPrefix(cat, "inside") || cat == "e=0")
		c.SetAdd("range_categories", cat)
		judge(c, tr, j.b, j.e, lastAtCall, res, desc, class)
		if c.WantSample() && i%331 == 7 {
			var outs []string
			for _, o := range res.Outs {
				outs = append(outs, o.Type+":"+fixref.GetS(o.Fields, rig.TSeq))
			}
			c.Sample(map[string]interface{}{"scenario": desc, "request": [2]int{j.b, j.e}, "last_sent": lastAtCall, "answer(type:seq)": outs})
		}
	})

	// (2) random long sessions with repeated and overlapping requests
	nRand := c.Pick(60, 1500)
	vk.Parallel(nRand, runtime.NumCPU(), func(i int) {
		rr := c.Rand("c10-random", int64(i))
		role := rig.Role(rr.Intn(2))
		// every other session the application sends one message object again and again, through all rounds: a
		// retransmission (which passes the outgoing pipeline and the store again) must not disturb what is stored
		// under the numbers of the object's later sends
		class := "fresh-objects"
		var holder *fixgen.MarketDataRequestReject
		var reusedObj **fixgen.MarketDataRequestReject
		if i%2 == 1 {
			class = "reused-object"
			reusedObj = &holder
		}
		desc := fmt.Sprintf("%s %s random#%d", role, class, i)
		// every third session: the application registers observers (outgoing for all types and for the type it sends,
		// incoming for all types) once the session exists, and removes them after the first round of traffic with
		// the identifiers it was given
		observers := i%3 == 1
		var obsIDs [3]int64
		scfg := rig.StepCfg{Role: role, HeartBtInt: 30, Limits: &session.IntLimits{Min: 5, Max: 60}}
		if observers {
			desc += " application-observers-removed-after-first-round"
			scfg.BeforeRun = func(h *simplefixgo.DefaultHandler, _ *session.Session) {
				obsIDs[0] = h.HandleOutgoing(simplefixgo.AllMsgTypes, func(simplefixgo.SendingMessage) bool { return true })
				obsIDs[1] = h.HandleOutgoing("Y", func(simplefixgo.SendingMessage) bool { return true })
				obsIDs[2] = h.HandleIncoming(simplefixgo.AllMsgTypes, func([]byte) bool { return true })
			}
		}
		r, err := rig.NewStepRig(scfg)
		if err != nil {
			return
		}
		defer r.Close()
		p := rig.NewPeer()
		tr := &tracker{first: map[int][]byte{}}
		tr.observe(r.InitOuts)
		res := r.Inbound(p.Logon(30, "0"))
		if !res.Logged {
			return
		}
		tr.observe(res.Outs)
		for round := 0; round < 1+rr.Intn(12); round++ {
			if observers && round == 1 {
				_ = r.H.RemoveOutgoingHandler(simplefixgo.AllMsgTypes, obsIDs[0])
				_ = r.H.RemoveOutgoingHandler("Y", obsIDs[1])
				_ = r.H.RemoveIncomingHandler(simplefixgo.AllMsgTypes, obsIDs[2])
				c.Count("sessions_whose_application_observers_were_removed", 1)
			}
			k := tr.last + 1 + rr.Intn(20)
			if rr.Intn(8) == 0 {
				k = tr.last + 100
			}
			// every other round the next request follows the previous one directly (repeated / overlapping
			// requests with no new outbound message in between)
			if round == 0 || rr.Intn(2) == 0 {
				if !traffic(c, r, p, tr, k, func(n int) int { return rr.Intn(n) }, reusedObj) {
					return
				}
			} else {
				c.Count("back_to_back_requests", 1)
			}
			b := rr.Intn(tr.last + 3)
			e := rr.Intn(tr.last + 3)
			if rr.Intn(3) == 0 {
				e = 0
			}
			if rr.Intn(3) == 0 && b > 0 && b <= tr.last {
				e = b + rr.Intn(tr.last-b+2)
			}
			lastAtCall := tr.last
			if rr.Intn(3) == 0 {
				// the peer writes its numbers with leading zeros (FIX permits that): 02..010 is 2..10
				w := 2 + rr.Intn(4)
				res = r.Inbound(p.Msg("2", fixref.F(rig.TBeginSeq, fmt.Sprintf("%0*d", w, b)), fixref.F(rig.TEndSeq, fmt.Sprintf("%0*d", w, e))))
				c.Count("requests_with_zero_padded_numbers", 1)
			} else {
				res = r.Inbound(p.Resend(b, e))
			}
			if res.TimedOut {
				c.Inconclusive("watchdog")
				return
			}
			cat := category(b, e, lastAtCall)
			c.Eval(vk.Hash64([]byte(desc), []byte(fmt.Sprint(round, b, e, lastAtCall))), strings.HasPrefix(cat, "inside") || cat == "e=0")
			c.SetAdd("range_categories", cat)
			c.Max("max_last_sent", int64(lastAtCall))
			judge(c, tr, b, e, lastAtCall, res, desc, class)
			c.Count("random_session_requests/"+class, 1)
			tr.observe(res.Outs) // a Reject or other new message consumes a number
		}
	})

	// (2b) sessions that continue a counter standing just below a power of ten or of two: the numbers of the range are
	// ordinary numbers whatever their size (999999 is not "infinity", 2^31 and 2^32 are not limits)
	presets := []int{9990, 99990, 999990, 9999990, 1<<31 - 10, 1<<32 - 10}
	vk.Parallel(len(presets)*2*15, runtime.NumCPU(), func(i int) {
		preset := presets[i%len(presets)]
		role := rig.Role((i / len(presets)) % 2)
		bOff := 1 + i/(len(presets)*2) // 1..15
		desc := fmt.Sprintf("%s fresh-objects counter-preset-%d b=preset+%d", role, preset, bOff)
		st := memory.NewStorage()
		if err := st.SetSeqNum(fix.StorageID{Side: fix.Outgoing}, preset); err != nil {
			c.Inconclusive("preset: " + err.Error())
			return
		}
		r, err := rig.NewStepRig(rig.StepCfg{Role: role, HeartBtInt: 30, Limits: &session.IntLimits{Min: 5, Max: 60}, Counter: st, Messages: st})
		if err != nil {
			return
		}
		defer r.Close()
		p := rig.NewPeer()
		tr := &tracker{first: map[int][]byte{}}
		tr.observe(r.InitOuts)
		res := r.Inbound(p.Logon(30, "0"))
		if !res.Logged {
			return
		}
		tr.observe(res.Outs)
		rr := c.Rand("c10-preset", int64(i))
		if !traffic(c, r, p, tr, preset+14, func(n int) int { return rr.Intn(n) }, nil) {
			return
		}
		if tr.last < preset+14 || len(tr.first) < 14 {
			c.Inconclusive(fmt.Sprintf("%s: the session did not continue the preset counter (last sent %d, %d messages seen)", desc, tr.last, len(tr.first)))
			return
		}
		b := preset + bOff
		for _, e := range []int{b, b + 1, preset + 9, preset + 10, preset + 11, tr.last - 1, tr.last, 0} {
			if e != 0 && e < b {
				continue
			}
			lastAtCall := tr.last
			res = r.Inbound(p.Resend(b, e))
			if res.TimedOut {
				c.Inconclusive("watchdog")
				return
			}
			cat := category(b, e, lastAtCall)
			c.Eval(vk.Hash64([]byte(desc), []byte(fmt.Sprint(b, e, lastAtCall))), strings.HasPrefix(cat, "inside") || cat == "e=0")
			c.Count("requests_on_sessions_continuing_a_high_counter", 1)
			judge(c, tr, b, e, lastAtCall, res, desc, "fresh-objects")
			tr.observe(res.Outs)
		}
	})

	// (3) gap detection at logon
	for _, role := range []rig.Role{rig.Acceptor, rig.Initiator} {
		for cc := 0; cc <= 6; cc++ {
			for rcv := 1; rcv <= 8; rcv++ {
				st := memory.NewStorage()
				_ = st.SetSeqNum(fix.StorageID{Sender: rig.LibID, Target: rig.PeerID, Side: fix.Incoming}, cc)
				r, err := rig.NewStepRig(rig.StepCfg{Role: role, HeartBtInt: 30, Limits: &session.IntLimits{Min: 5, Max: 60}, Counter: st, Messages: st})
				if err != nil {
					continue
				}
				p := rig.NewPeer()
				p.Seq = rcv - 1
				res := r.Inbound(p.Logon(30, "0"))
				desc := fmt.Sprintf("%s expected-next=%d received=%d", role, cc+1, rcv)
				c.Eval(vk.Hash64([]byte("gap"), []byte(desc)), rcv > cc+1)
				c.SetAdd("logon_pairs(expected,received)", fmt.Sprintf("%d,%d", cc+1, rcv))
				if rcv > cc+1 {
					var rq []rig.Out
					for _, o := range res.Outs {
						if o.Type == "2" {
							rq = append(rq, o)
						}
					}
					replay := map[string]interface{}{"scenario": desc, "seed": c.Seed}
					if len(rq) != 1 {
						c.Violate("C10/gap-not-requested/"+role.String(), fmt.Sprintf("%s: Logon with a sequence gap drew %d ResendRequests", desc, len(rq)), replay)
					} else if fixref.GetS(rq[0].Fields, rig.TBeginSeq) != strconv.Itoa(cc+1) {
						c.Violate("C10/gap-request-wrong-begin/"+role.String(), fmt.Sprintf("%s: ResendRequest asks from 7=%s, the first missing number is %d", desc, fixref.GetS(rq[0].Fields, rig.TBeginSeq), cc+1), replay)
					}
					c.Count("gap_requests_checked", 1)
				}
				r.Close()
			}
		}
	}

	// (3b) the expected number at a SECOND logon of the same session: every message received during the first logon
	// counts, including the Logout that ended it (the peer's own, or its answer to ours)
	for _, role := range []rig.Role{rig.Acceptor, rig.Initiator} {
		for _, ending := range []string{"own-logout-answered", "peer-logout"} {
			for k := 0; k <= 2; k++ {
				for _, g := range []int{0, 1, 3} {
					r, err := rig.NewStepRig(rig.StepCfg{Role: role, HeartBtInt: 30, Limits: &session.IntLimits{Min: 5, Max: 60}})
					if err != nil {
						continue
					}
					p := rig.NewPeer()
					desc := fmt.Sprintf("%s second-logon after %s, %d inbound messages in the first logon, second Logon skips %d numbers", role, ending, k, g)
					replay := map[string]interface{}{"scenario": desc, "seed": c.Seed}
					ok := r.Inbound(p.Logon(30, "0")).Logged
					for j := 0; j < k && ok; j++ {
						r.Inbound(p.Heartbeat())
					}
					if ok {
						if ending == "own-logout-answered" {
							r.Do(func() error { return r.S.Logout() })
						}
						r.Inbound(p.Logout())
						ok = !r.S.IsLogged()
					}
					if !ok {
						c.Inconclusive("could not reach the logged-out state: " + desc)
						r.Close()
						continue
					}
					next := p.Seq + 1
					p.Seq += g
					res := r.Inbound(p.Logon(30, "0"))
					var rq []rig.Out
					for _, o := range res.Outs {
						if o.Type == "2" {
							rq = append(rq, o)
						}
					}
					c.Eval(vk.Hash64([]byte("gap2"), []byte(desc)), true)
					c.Count("second_logon_pairs_checked", 1)
					switch {
					case !res.Logged:
						c.Count("second_logons_not_accepted(not judged here)", 1)
					case g == 0 && len(rq) != 0:
						c.Violate("C10/resend-requested-although-nothing-is-missing/"+role.String()+"/"+ending, fmt.Sprintf("%s: the second Logon carries the next expected number %d, yet the session asked for a resend from 7=%s", desc, next, fixref.GetS(rq[0].Fields, rig.TBeginSeq)), replay)
					case g > 0 && len(rq) != 1:
						c.Violate("C10/gap-not-requested/"+role.String()+"/second-logon", fmt.Sprintf("%s: drew %d ResendRequests", desc, len(rq)), replay)
					case g > 0 && fixref.GetS(rq[0].Fields, rig.TBeginSeq) != strconv.Itoa(next):
						c.Violate("C10/gap-request-wrong-begin/"+role.String()+"/second-logon", fmt.Sprintf("%s: ResendRequest asks from 7=%s, the first missing number is %d", desc, fixref.GetS(rq[0].Fields, rig.TBeginSeq), next), replay)
					}
					r.Close()
				}
			}
		}
	}

	// (3c) real time: the session's own TestRequest is pending (the peer was silent for N+1 s, N=1) when the peer's
	// ResendRequest arrives: the session is logged on, so the request is answered with the stored messages
	{
		nrt := c.Pick(4, 16)
		var rwg sync.WaitGroup
		for i := 0; i < nrt; i++ {
			rwg.Add(1)
			go func(i int) {
				defer rwg.Done()
				role := rig.Role(i % 2)
				desc := fmt.Sprintf("%s N=1: logon, 3 application sends, 2.3 s of silence (own TestRequest pending), then ResendRequest(1,0)", role)
				replay := map[string]interface{}{"scenario": desc, "seed": c.Seed}
				r, err := rig.NewStepRig(rig.StepCfg{Role: role, HeartBtInt: 1, Limits: &session.IntLimits{Min: 1, Max: 60}})
				if err != nil {
					return
				}
				defer r.Close()
				p := rig.NewPeer()
				if res := r.Inbound(p.Logon(1, "0")); !res.Logged {
					return
				}
				for k := 0; k < 3; k++ {
					r.Do(func() error { return r.S.Send(fixgen.CreateMarketDataRequestReject(fmt.Sprintf("rt-%d-%d", i, k))) })
				}
				time.Sleep(2300*time.Millisecond + time.Duration(i*15)*time.Millisecond)
				first := r.AllOuts()
				own := 0
				for _, o := range first {
					if o.Type == "1" {
						own++
					}
				}
				if own == 0 {
					c.Count("realtime_scenarios_without_own_testrequest", 1)
					return
				}
				res := r.Inbound(p.Resend(1, 0))
				c.Eval(vk.Hash64([]byte(desc), []byte{byte(i)}), true)
				c.Count("resend_requests_while_own_testrequest_pending", 1)
				if res.TimedOut {
					return
				}
				// what was sent under each number before the request (timer messages included)
				sent := map[string][]byte{}
				for _, o := range first {
					sent[fixref.GetS(o.Fields, rig.TSeq)] = o.Raw
				}
				var got []rig.Out
				for _, o := range res.Outs {
					if o.Type == "3" {
						c.Violate("C10/request-while-own-testrequest-pending-rejected/"+role.String(), fmt.Sprintf("%s: answered with a Reject: %s", desc, vk.Trunc(fixref.Pretty(o.Raw), 250)), replay)
						return
					}
					if _, ok := sent[fixref.GetS(o.Fields, rig.TSeq)]; ok {
						got = append(got, o)
					}
				}
				if len(got) < len(first) {
					c.Violate("C10/request-while-own-testrequest-pending-not-answered/"+role.String(), fmt.Sprintf("%s: %d messages had been sent, %d of them were retransmitted", desc, len(first), len(got)), replay)
					return
				}
				for _, o := range got {
					if !bytes.Equal(o.Raw, sent[fixref.GetS(o.Fields, rig.TSeq)]) {
						c.Violate("C10/retransmission-not-identical/"+role.String()+"/own-testrequest-pending", fmt.Sprintf("%s: number %s retransmitted as %s", desc, fixref.GetS(o.Fields, rig.TSeq), vk.Trunc(fixref.Pretty(o.Raw), 250)), replay)
						return
					}
				}
			}(i)
		}
		rwg.Wait()
	}

	// (4) concurrent senders while requests are fed
	nConc := c.Pick(20, 600)
	vk.Parallel(nConc, runtime.NumCPU()/2, func(i int) {
		rr := c.Rand("c10-conc", int64(i))
		role := rig.Role(i % 2)
		desc := fmt.Sprintf("%s concurrent#%d", role, i)
		r, err := rig.NewStepRig(rig.StepCfg{Role: role, HeartBtInt: 30, Limits: &session.IntLimits{Min: 5, Max: 60}})
		if err != nil {
			return
		}
		defer r.Close()
		p := rig.NewPeer()
		if res := r.Inbound(p.Logon(30, "0")); !res.Logged {
			return
		}
		var wg sync.WaitGroup
		per := 5 + rr.Intn(20)
		for g := 0; g < 3; g++ {
			wg.Add(1)
			go func(g int) {
				defer wg.Done()
				for k := 0; k < per; k++ {
					_ = r.S.Send(fixgen.CreateMarketDataRequestReject(fmt.Sprintf("g%d-%d", g, k)))
					if k%3 == g {
						runtime.Gosched()
					}
				}
			}(g)
		}
		type reqRec struct{ b, e, outFrom, outTo int }
		var reqs []reqRec
		for q := 0; q < 4+rr.Intn(6); q++ {
			from, _ := r.Snapshot()
			b := 1 + rr.Intn(4)
			e := 0
			if rr.Intn(2) == 0 {
				e = b + rr.Intn(3)
			}
			res := r.Inbound(p.Resend(b, e))
			if res.TimedOut {
				c.Inconclusive("watchdog")
				return
			}
			to, _ := r.Snapshot()
			reqs = append(reqs, reqRec{b, e, from, to})
		}
		wg.Wait()
		all := r.AllOuts()
		first := map[int]int{} // seq -> index of first occurrence
		for idx, o := range all {
			s, err := strconv.Atoi(fixref.GetS(o.Fields, rig.TSeq))
			if err != nil {
				continue
			}
			if _, ok := first[s]; !ok {
				first[s] = idx
			}
		}
		for qi, rq := range reqs {
			lastAtCall, lastAtReturn := 0, 0
			for s, idx := range first {
				if idx < rq.outFrom && s > lastAtCall {
					lastAtCall = s
				}
				if idx < rq.outTo && s > lastAtReturn {
					lastAtReturn = s
				}
			}
			var retr []int
			for idx := rq.outFrom; idx < rq.outTo && idx < len(all); idx++ {
				s, err := strconv.Atoi(fixref.GetS(all[idx].Fields, rig.TSeq))
				if err != nil || first[s] == idx {
					continue
				}
				retr = append(retr, s)
				if !bytes.Equal(all[idx].Raw, all[first[s]].Raw) {
					c.Violate("C10/not-byte-identical/concurrent", fmt.Sprintf("%s: retransmission of %d differs from its first transmission", desc, s), map[string]interface{}{"scenario": desc, "seed": c.Seed})
				}
			}
			c.Eval(vk.Hash64([]byte(desc), []byte(fmt.Sprint(qi, rq.b, rq.e, lastAtCall, lastAtReturn))), true)
			replay := map[string]interface{}{"scenario": desc, "b": rq.b, "e": rq.e, "last_at_call": lastAtCall, "last_at_return": lastAtReturn, "retransmitted": retr, "seed": c.Seed}
			okSeq := true
			for k, s := range retr {
				if s != rq.b+k {
					okSeq = false
				}
			}
			if !okSeq {
				c.Violate("C10/wrong-order-or-number/concurrent", fmt.Sprintf("%s: ResendRequest(%d,%d) retransmitted %v, not contiguous ascending from %d", desc, rq.b, rq.e, retr, rq.b), replay)
				continue
			}
			n := rq.b + len(retr) - 1
			switch {
			case rq.e != 0 && rq.e <= lastAtCall && rq.b <= rq.e:
				if n != rq.e {
					c.Violate("C10/wrong-set-retransmitted/concurrent", fmt.Sprintf("%s: ResendRequest(%d,%d) with last sent %d retransmitted %v", desc, rq.b, rq.e, lastAtCall, retr), replay)
				}
			case rq.e == 0 && rq.b <= lastAtCall:
				if n < lastAtCall || n > lastAtReturn {
					c.Violate("C10/wrong-set-retransmitted/concurrent-e=0", fmt.Sprintf("%s: ResendRequest(%d,0): retransmitted %v; last sent before the request %d, at its end %d", desc, rq.b, retr, lastAtCall, lastAtReturn), replay)
				}
			default:
				hi := rq.e
				if hi == 0 {
					hi = lastAtReturn
				}
				if len(retr) > 0 && n > hi {
					c.Violate("C10/retransmitted-outside-range/concurrent", fmt.Sprintf("%s: ResendRequest(%d,%d) retransmitted %v", desc, rq.b, rq.e, retr), replay)
				}
			}
			c.Count("concurrent_requests_checked", 1)
		}
	})
	c.Finish()
}
