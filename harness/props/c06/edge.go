package main

import (
	"fmt"
	"math"
	"runtime"
	"strconv"
	"sync/atomic"
	"time"

	simplefixgo "github.com/b2broker/simplefix-go"

	"github.com/b2broker/simplefix-go/session"
	"github.com/b2broker/simplefix-go/utils"

	"verifharness/fixref"
	"verifharness/rig"
	"verifharness/vk"
)

// unrunnableIntervals: limits that admit heartbeat intervals for which the session cannot run its timers (zero,
// negative, beyond what a time.Duration holds). The statement leaves open whether such a Logon counts as acceptable;
// it does not leave open that the answer is ONE decision. Whatever the library decides, the observations must
// belong together: either the Logon reply comes first, the session is logged on, the logon event fired once and no
// Reject was sent — or exactly one Reject with the Logon's sequence number was sent, the session is not logged on
// and no logon event fired. The follow-up TestRequest is answered accordingly.
func unrunnableIntervals(c *vk.Ctx) {
	type cs struct {
		lim [2]int
		hb  string
	}
	var cases []cs
	for _, lim := range [][2]int{{-1, 60}, {-10, 60}, {-100, -1}, {1, math.MaxInt64}, {-5, math.MaxInt64}} {
		for _, hb := range []string{"0", "-1", "-5", "-100", "9000000000", "9223372036", "9223372037", "9223372036854775807", "30", "1"} {
			cases = append(cases, cs{lim, hb})
		}
	}
	vk.Parallel(len(cases)*2, runtime.NumCPU(), func(i int) {
		ce := cases[i%len(cases)]
		prior := i / len(cases) // 0: the Logon is the first message; 1: a refused Logon (wrong encryption method) came first
		desc := fmt.Sprintf("acceptor limits=[%d,%d] Logon 108=%s prior-refused-logon=%v", ce.lim[0], ce.lim[1], ce.hb, prior == 1)
		replay := map[string]interface{}{"part": "unrunnable-intervals", "case": desc, "index": i}
		r, err := rig.NewStepRig(rig.StepCfg{Role: rig.Acceptor, Limits: &session.IntLimits{Min: ce.lim[0], Max: ce.lim[1]}})
		if err != nil {
			c.Count("unrunnable_interval_limits_refused_by_the_constructor", 1)
			return
		}
		defer r.Close()
		p := rig.NewPeer()
		if prior == 1 {
			if res := r.Inbound(p.Msg("A", fixref.F(rig.TEncrypt, "7"), fixref.F(rig.THeartBt, "30"))); res.TimedOut || res.RunEnded {
				return
			}
		}
		res := r.Inbound(p.Msg("A", fixref.F(rig.TEncrypt, "0"), fixref.F(rig.THeartBt, ce.hb)))
		if res.TimedOut {
			c.Inconclusive("watchdog in " + desc)
			return
		}
		if res.Panic != "" {
			c.Violate("C06/panic-in-inbound-path", desc+": panic: "+vk.Trunc(res.Panic, 800), replay)
			return
		}
		if res.RunEnded {
			return
		}
		seq := strconv.Itoa(p.Seq)
		inLimits := false
		if v, err := strconv.ParseInt(ce.hb, 10, 64); err == nil {
			inLimits = v >= int64(ce.lim[0]) && v <= int64(ce.lim[1])
		}
		c.Eval(vk.Hash64([]byte(desc)), true)
		c.Count("logons_with_intervals_no_timer_can_run", 1)
		rej := rejects(res.Outs)
		ev := countEv(res.Events, utils.EventLogon)
		accepted := len(res.Outs) >= 1 && res.Outs[0].Type == "A" && len(rej) == 0 && res.Logged && ev == 1
		refused := len(res.Outs) == 1 && len(rej) == 1 && !res.Logged && ev == 0
		switch {
		case accepted:
			c.SetAdd("unrunnable_interval_outcomes", "accepted")
			if !inLimits {
				c.Violate("C06/logged-on-without-valid-logon/acceptor/interval-outside-limits", desc+": accepted although the interval is outside the limits", replay)
			}
			if fixref.GetS(res.Outs[0].Fields, rig.THeartBt) != ce.hb {
				c.Violate("C06/acceptor-logon-reply-does-not-echo", fmt.Sprintf("%s: reply carries 108=%s", desc, fixref.GetS(res.Outs[0].Fields, rig.THeartBt)), replay)
			}
		case refused:
			c.SetAdd("unrunnable_interval_outcomes", "refused")
			if fixref.GetS(rej[0].Fields, rig.TRefSeq) != seq {
				c.Violate("C06/reject-wrong-refseqnum/interval-no-timer-can-run", fmt.Sprintf("%s: Reject has 45=%q, the Logon's sequence number is %s", desc, fixref.GetS(rej[0].Fields, rig.TRefSeq), seq), replay)
			}
		default:
			c.Violate("C06/logon-neither-accepted-nor-refused", fmt.Sprintf("%s: answered with %s, IsLogged=%v, logon events=%d — neither an acceptance (Logon reply first, logged on, one event, no Reject) nor a refusal (one Reject, not logged on, no event)", desc, types(res.Outs), res.Logged, ev), replay)
			return
		}
		probe := r.Inbound(p.TestRequest("edge"))
		if probe.TimedOut || probe.RunEnded {
			return
		}
		if accepted {
			answers := 0
			for _, o := range probe.Outs {
				if o.Type == "0" && fixref.GetS(o.Fields, rig.TTestReqID) == "edge" {
					answers++
				}
			}
			if answers != 1 {
				c.Violate("C06/accepted-logon-but-session-does-not-serve", desc+": after the acceptance a TestRequest was answered with "+types(probe.Outs), replay)
			}
		} else if probe.Logged || len(rejects(probe.Outs)) != 1 || len(probe.Outs) != 1 {
			c.Violate("C06/refused-logon-but-session-serves", fmt.Sprintf("%s: after the refusal a TestRequest was answered with %s, IsLogged=%v", desc, types(probe.Outs), probe.Logged), replay)
		}
	})
}

// initiatorRelogon: an initiating session logs on, the acceptor's answer carries another heartbeat interval than the
// one proposed, the peer logs the session out, and the application asks for a new logon (LogonRequest). The second
// Logon carries what the first one carried: the configured interval, encryption method and credentials.
func initiatorRelogon(c *vk.Ctx) {
	n := c.Pick(24, 400)
	vk.Parallel(n, runtime.NumCPU(), func(i int) {
		r0 := c.Rand("c06-relogon", int64(i))
		hb := 5 + r0.Intn(50)
		answerHb := 5 + r0.Intn(50)
		if i%4 == 0 {
			answerHb = hb
		}
		cred := [][2]string{{"me", "secret"}, {"", "token"}, {"me", ""}, {"", ""}}[i%4]
		desc := fmt.Sprintf("initiator configured 108=%d 553=%q 554=%q; the answer carries 108=%d; Logout by the peer; LogonRequest", hb, cred[0], cred[1], answerHb)
		replay := map[string]interface{}{"part": "initiator-relogon", "case": desc, "index": i}
		r, err := rig.NewStepRig(rig.StepCfg{Role: rig.Initiator, HeartBtInt: hb, Limits: &session.IntLimits{Min: 1, Max: 60}, Username: cred[0], Password: cred[1]})
		if err != nil {
			c.Inconclusive("rig: " + err.Error())
			return
		}
		defer r.Close()
		if len(r.InitOuts) != 1 || r.InitOuts[0].Type != "A" {
			return // judged by the histories
		}
		first := r.InitOuts[0].Fields
		p := rig.NewPeer()
		if res := r.Inbound(p.Logon(answerHb, "0")); res.TimedOut || !res.Logged {
			return
		}
		for k := 0; k < i%3; k++ {
			r.Inbound(p.Heartbeat())
		}
		if res := r.Inbound(p.Logout()); res.TimedOut || res.Logged {
			return
		}
		res := r.Do(func() error { return r.S.LogonRequest() })
		if res.TimedOut {
			c.Inconclusive("watchdog in LogonRequest: " + desc)
			return
		}
		c.Eval(vk.Hash64([]byte(desc)), true)
		c.Count("initiator_second_logons", 1)
		var logons []rig.Out
		for _, o := range res.Outs {
			if o.Type == "A" {
				logons = append(logons, o)
			}
		}
		if len(logons) != 1 {
			c.Violate("C06/initiator-second-logon-not-sent", fmt.Sprintf("%s: LogonRequest emitted %s (error %v), want one Logon", desc, types(res.Outs), res.SendErr), replay)
			return
		}
		for _, tag := range []string{rig.THeartBt, rig.TEncrypt, rig.TUser, rig.TPass} {
			if a, b := fixref.GetS(first, tag), fixref.GetS(logons[0].Fields, tag); a != b {
				c.Violate("C06/initiator-logon-fields/second-logon", fmt.Sprintf("%s: the second Logon carries %s=%q, the first (configured) one carried %q", desc, tag, b, a), replay)
				return
			}
		}
	})
}

// failedLocalLogout: the application calls Logout (or Stop) on a session that is not logged on — it is waiting for a
// Logon, or a Logout exchange has just ended — and that Logout cannot be sent (an outgoing handler refuses it, or
// the counter store fails once). Whatever happens to the Logout, the session does not report itself logged on:
// nobody sent a Logon.
func failedLocalLogout(c *vk.Ctx) {
	n := c.Pick(16, 160)
	vk.Parallel(n, runtime.NumCPU(), func(i int) {
		role := rig.Role(i % 2)
		fault := []string{"type-handler-refuses", "counter-store-fails-once"}[(i/2)%2]
		via := []string{"Logout", "Stop"}[(i/4)%2]
		after := []string{"before-any-logon", "after-a-logout-exchange"}[(i/8)%2]
		desc := fmt.Sprintf("%s: Session.%s %s while %s", role, via, after, fault)
		replay := map[string]interface{}{"part": "failed-local-logout", "case": desc, "index": i}
		st := rig.NewFlakyStore()
		r, err := rig.NewStepRig(rig.StepCfg{Role: role, HeartBtInt: 30, Limits: &session.IntLimits{Min: 5, Max: 60}, Counter: st, Messages: st, SentinelBarrier: true, CloseTimeout: 200 * time.Millisecond,
			AfterRun: func(h *simplefixgo.DefaultHandler, s *session.Session) {
				if fault == "type-handler-refuses" {
					h.HandleOutgoing("5", func(simplefixgo.SendingMessage) bool { return false })
				}
			}})
		if err != nil {
			c.Inconclusive("rig: " + err.Error())
			return
		}
		defer r.Close()
		p := rig.NewPeer()
		if after == "after-a-logout-exchange" {
			if res := r.Inbound(p.Logon(30, "0")); !res.Logged {
				return
			}
			// the peer logs out; with the refusing handler the answer cannot be sent either, the session is logged out all the same
			if res := r.Inbound(p.Logout()); res.TimedOut || res.Logged {
				return
			}
		} else if role == rig.Initiator {
			_ = r.InitOuts // its Logon is out, no answer yet
		}
		if r.S.IsLogged() {
			return
		}
		if fault == "counter-store-fails-once" {
			atomic.StoreInt32(&st.FailNextOutgoingNumber, 1)
		}
		res := r.Do(func() error {
			if via == "Stop" {
				return r.S.Stop()
			}
			return r.S.Logout()
		})
		if res.TimedOut {
			c.Inconclusive("watchdog: " + desc)
			return
		}
		c.Eval(vk.Hash64([]byte(desc)), true)
		c.Count("failed_local_logouts_while_not_logged_on", 1)
		if res.Logged || r.S.IsLogged() {
			c.Violate("C06/logged-on-without-valid-logon/"+role.String()+"/after-a-failed-local-logout", desc+": IsLogged is true although no Logon was received since", replay)
			return
		}
		// and the peer is still treated as not logged on
		probe := r.Inbound(p.TestRequest("still-out"))
		if probe.TimedOut || probe.RunEnded {
			return
		}
		for _, o := range probe.Outs {
			if o.Type == "0" {
				c.Violate("C06/logged-on-without-valid-logon/"+role.String()+"/after-a-failed-local-logout", desc+": a TestRequest was answered with a Heartbeat although nobody logged on", replay)
			}
		}
	})
}
