// C06 — a session is logged on only through a valid, approved Logon exchange.
package main

import (
	"errors"
	"fmt"
	"runtime"
	"runtime/debug"
	"strconv"
	"strings"
	"sync"
	"sync/atomic"
	"time"

	"github.com/b2broker/simplefix-go/session"
	fixgen "github.com/b2broker/simplefix-go/tests/fix44"
	"github.com/b2broker/simplefix-go/utils"

	"verifharness/fixref"
	"verifharness/rig"
	"verifharness/vk"
)

var alpha = rig.Alphabet()

// lastTrouble remembers why the most recent history decided nothing (machine load: watchdog, overlong run).
var lastTrouble atomic.Value

type cfgT struct {
	role rig.Role
	lim  [2]int
	hb   int // initiator's configured interval
}

func describe(cfg cfgT, hist []int) string {
	var n []string
	for _, s := range hist {
		n = append(n, alpha[s].Name)
	}
	return fmt.Sprintf("%s limits=[%d,%d] hb=%d: %s", cfg.role, cfg.lim[0], cfg.lim[1], cfg.hb, strings.Join(n, " > "))
}

func countEv(evs []utils.Event, e utils.Event) int {
	n := 0
	for _, x := range evs {
		if x == e {
			n++
		}
	}
	return n
}

func types(outs []rig.Out) string {
	var t []string
	for _, o := range outs {
		t = append(t, o.Type)
	}
	return "[" + strings.Join(t, ",") + "]"
}

// runHistory executes one history and judges it against the reference automaton
// transcribed from the statement. It returns false when the run is inconclusive.
func runHistory(c *vk.Ctx, cfg cfgT, hist []int, idx int64) bool {
	desc := describe(cfg, hist)
	replay := map[string]interface{}{"history": desc, "index": idx, "seed": c.Seed}
	var rigRef *rig.StepRig
	tooSlow := false
	viol := func(key, detail string, step int) {
		// a history that has been running for seconds (machine overload) may have had a timer fire inside it:
		// nothing about it is believed
		if rigRef != nil && rigRef.Elapsed() > 3*time.Second {
			tooSlow = true
			return
		}
		c.Violate(key, fmt.Sprintf("step %d of [%s]: %s", step, desc, detail), replay)
	}
	// the initiator's configured credentials: both, password only (token authentication), user only, none
	cred := [][2]string{{"me", "secret"}, {"", "token"}, {"me", ""}, {"", ""}, {"me", "secret"}}[(len(hist)+cfg.hb)%5]
	scfg := rig.StepCfg{Role: cfg.role, HeartBtInt: cfg.hb, Limits: &session.IntLimits{Min: cfg.lim[0], Max: cfg.lim[1]},
		Username: cred[0], Password: cred[1],
		OnLogon: func(ls *session.LogonSettings) error {
			if !rig.Approve(ls.Username, ls.Password) {
				return errors.New("refused")
			}
			return nil
		}}
	r, err := rig.NewStepRig(scfg)
	if err != nil {
		c.Inconclusive("rig: " + err.Error())
		return false
	}
	defer r.Close()
	rigRef = r
	p := rig.NewPeer()
	const (
		W = iota // waiting for a Logon
		L        // logged on
		U        // a state the statement is silent about (logout answer pending)
	)
	state := W
	c.SetAdd("automaton_states", cfg.role.String()+"/W")
	// initiator: the first emitted message
	if cfg.role == rig.Initiator {
		if r.RunError != nil {
			viol("C06/initiator-run-error", "Session.Run failed: "+r.RunError.Error(), 0)
			return true
		}
		if len(r.InitOuts) != 1 || r.InitOuts[0].Type != "A" {
			viol("C06/initiator-first-message-not-logon", "initiator emitted "+types(r.InitOuts)+" at start, want exactly one Logon", 0)
		} else {
			f := r.InitOuts[0].Fields
			c.SetAdd("initiator_credentials_configured", fmt.Sprintf("user=%v,password=%v", cred[0] != "", cred[1] != ""))
			if fixref.GetS(f, rig.THeartBt) != strconv.Itoa(cfg.hb) || fixref.GetS(f, rig.TEncrypt) != "0" || fixref.GetS(f, rig.TUser) != cred[0] || fixref.GetS(f, rig.TPass) != cred[1] {
				viol("C06/initiator-logon-fields", fmt.Sprintf("initiator Logon carries 108=%s 98=%s 553=%q 554=%q, configured 108=%d 98=0 553=%q 554=%q", fixref.GetS(f, rig.THeartBt), fixref.GetS(f, rig.TEncrypt), fixref.GetS(f, rig.TUser), fixref.GetS(f, rig.TPass), cfg.hb, cred[0], cred[1]), 0)
			}
		}
		if r.S.IsLogged() {
			viol("C06/logged-on-without-valid-logon", "initiator reports logged on before any Logon came back", 0)
		}
	}
	prevLogged := r.S.IsLogged()
	reachedDecision := false
	// the identifiers the session must stamp on what it sends: configured for an initiator, mirrored from the
	// Logon that was accepted for an acceptor; a later, rejected Logon must not change them
	idSender, idTarget := rig.LibID, rig.PeerID
	identityKnown := cfg.role == rig.Initiator
	maxSeqSeen := 0
	for _, o := range r.InitOuts {
		if n, err := strconv.Atoi(fixref.GetS(o.Fields, rig.TSeq)); err == nil && n > maxSeqSeen {
			maxSeqSeen = n
		}
	}
	for k, si := range hist {
		sy := alpha[si]
		var res rig.StepResult
		var raw []byte
		if sy.Local {
			switch sy.Name {
			case "LocalSend":
				if !prevLogged {
					c.Count("local_sends_skipped_not_logged", 1)
					continue
				}
				res = r.Do(func() error { return r.S.Send(fixgen.CreateMarketDataRequestReject("req" + strconv.Itoa(k))) })
			case "LocalLogout":
				if state != L {
					c.Count("local_logouts_skipped_not_logged", 1)
					continue
				}
				res = r.Do(func() error { return r.S.Logout() })
				state = U
			}
		} else {
			raw = sy.Build(p, cfg.lim)
			res = r.Inbound(raw)
		}
		if res.TimedOut {
			lastTrouble.Store("watchdog fired in [" + desc + "]")
			return false
		}
		if res.Panic != "" {
			viol("C06/panic-in-inbound-path", "panic: "+vk.Trunc(res.Panic, 800), k)
			return true
		}
		if res.RunEnded {
			c.Count("histories_ended_by_handler_exit", 1)
			return true
		}
		seq := strconv.Itoa(p.Seq)
		from := []string{"W", "L", "U"}[state]

		if cfg.role == rig.Acceptor && !sy.Local && sy.LogonClass == rig.LogonGood && !prevLogged && res.Logged {
			fs, _ := fixref.TokenizeLoose(raw)
			idSender, idTarget = fixref.GetS(fs, rig.TTarget), fixref.GetS(fs, rig.TSender)
			identityKnown = true
		}
		if identityKnown && prevLogged {
			for _, o := range res.Outs {
				if n, err := strconv.Atoi(fixref.GetS(o.Fields, rig.TSeq)); err != nil || n <= maxSeqSeen {
					continue // a retransmission of an earlier message keeps the identifiers it was first sent with
				}
				if fixref.GetS(o.Fields, rig.TSender) != idSender || fixref.GetS(o.Fields, rig.TTarget) != idTarget {
					viol("C06/session-identity-disturbed/"+cfg.role.String()+"/"+sy.Name, fmt.Sprintf("a message sent at this step (35=%s) carries 49=%s 56=%s; the session logged on as 49=%s 56=%s", o.Type, fixref.GetS(o.Fields, rig.TSender), fixref.GetS(o.Fields, rig.TTarget), idSender, idTarget), k)
					break
				}
			}
		}
		for _, o := range res.Outs {
			if n, err := strconv.Atoi(fixref.GetS(o.Fields, rig.TSeq)); err == nil && n > maxSeqSeen {
				maxSeqSeen = n
			}
		}
		acceptable := false
		if !sy.Local {
			if cfg.role == rig.Acceptor {
				acceptable = sy.LogonClass == rig.LogonGood
			} else {
				acceptable = sy.LogonClass != rig.NotLogon && sy.LogonClass != rig.LogonBadChecksum && sy.LogonClass != rig.LogonBadLength && sy.LogonClass != rig.LogonNonNumericHb
			}
		}
		// the universal clause: a rising edge of IsLogged only at an acceptable Logon
		if !prevLogged && res.Logged && !acceptable {
			viol("C06/logged-on-without-valid-logon/"+cfg.role.String()+"/"+sy.Name, "IsLogged became true at a step that is not an acceptable Logon; emitted "+types(res.Outs), k)
		}
		if sy.LogonClass != rig.NotLogon {
			reachedDecision = true
			switch {
			case cfg.role == rig.Acceptor && state == W && sy.LogonClass == rig.LogonGood:
				fs, _ := fixref.TokenizeLoose(raw)
				wantHb, wantM := fixref.GetS(fs, rig.THeartBt), fixref.GetS(fs, rig.TEncrypt)
				var logons []rig.Out
				for _, o := range res.Outs {
					if o.Type == "A" {
						logons = append(logons, o)
					}
				}
				if len(logons) != 1 {
					viol("C06/acceptor-no-logon-reply", "valid approved Logon answered with "+types(res.Outs)+", want one Logon", k)
				} else if res.Outs[0].Type != "A" {
					// "it then replies with a Logon": the reply comes first; anything the session sends on its own account
					// at logon (a ResendRequest for a sequence gap) follows it
					viol("C06/acceptor-logon-reply-not-first", "valid approved Logon answered with "+types(res.Outs)+": a message of type "+res.Outs[0].Type+" was sent before the Logon reply", k)
				} else if fixref.GetS(logons[0].Fields, rig.THeartBt) != wantHb || fixref.GetS(logons[0].Fields, rig.TEncrypt) != wantM {
					viol("C06/acceptor-logon-reply-does-not-echo", fmt.Sprintf("reply carries 108=%s 98=%s, request had 108=%s 98=%s", fixref.GetS(logons[0].Fields, rig.THeartBt), fixref.GetS(logons[0].Fields, rig.TEncrypt), wantHb, wantM), k)
				}
				if !res.Logged {
					viol("C06/acceptor-not-logged-after-valid-logon", "IsLogged is false after a valid approved Logon", k)
				}
				if n := countEv(res.Events, utils.EventLogon); n != 1 {
					viol("C06/logon-event-count", fmt.Sprintf("EventLogon fired %d times at a successful logon", n), k)
				}
				if res.Logged {
					state = L
				}
			case cfg.role == rig.Acceptor && state == W:
				rej := rejects(res.Outs)
				if len(rej) != 1 || len(res.Outs) != 1 {
					viol("C06/refused-logon-not-rejected-once/"+sy.Name, "refused/damaged Logon while waiting answered with "+types(res.Outs)+", want exactly one Reject", k)
				} else {
					if fixref.GetS(rej[0].Fields, rig.TRefSeq) != seq {
						viol("C06/reject-wrong-refseqnum/"+sy.Name, fmt.Sprintf("Reject has 45=%q, the Logon's sequence number is %s", fixref.GetS(rej[0].Fields, rig.TRefSeq), seq), k)
					}
					wantTag := ""
					switch sy.LogonClass {
					case rig.LogonHbLow, rig.LogonHbHigh:
						wantTag = rig.THeartBt
					case rig.LogonBadMethod:
						wantTag = rig.TEncrypt
					}
					if wantTag != "" && fixref.GetS(rej[0].Fields, rig.TRefTag) != wantTag {
						viol("C06/reject-does-not-name-offending-field/"+sy.Name, fmt.Sprintf("Reject has 371=%q, offending field is %s", fixref.GetS(rej[0].Fields, rig.TRefTag), wantTag), k)
					}
				}
				if res.Logged {
					viol("C06/logged-after-refused-logon/"+sy.Name, "IsLogged is true after a refused/damaged Logon", k)
				}
				if n := countEv(res.Events, utils.EventLogon); n != 0 {
					viol("C06/logon-event-on-refused-logon", fmt.Sprintf("EventLogon fired %d times at a refused Logon", n), k)
				}
			case state == L:
				rej := rejects(res.Outs)
				if len(rej) != 1 || len(res.Outs) != 1 {
					viol("C06/logon-while-logged-not-rejected-once/"+cfg.role.String(), "Logon while logged on answered with "+types(res.Outs)+", want exactly one Reject", k)
				} else if fixref.GetS(rej[0].Fields, rig.TRefSeq) != seq {
					viol("C06/reject-wrong-refseqnum/logged", fmt.Sprintf("Reject has 45=%q, the Logon's sequence number is %s", fixref.GetS(rej[0].Fields, rig.TRefSeq), seq), k)
				}
				if !res.Logged {
					viol("C06/logon-while-logged-disturbed-session", "IsLogged turned false after a further Logon", k)
				} else {
					// not disturbed: a TestRequest is still answered
					probe := r.Inbound(p.TestRequest("probe" + seq))
					if probe.TimedOut {
						lastTrouble.Store("watchdog in probe of [" + desc + "]")
						return false
					}
					if len(probe.Outs) == 1 && identityKnown && (fixref.GetS(probe.Outs[0].Fields, rig.TSender) != idSender || fixref.GetS(probe.Outs[0].Fields, rig.TTarget) != idTarget) {
						viol("C06/session-identity-disturbed/"+cfg.role.String()+"/after-rejected-logon", fmt.Sprintf("after a rejected further Logon (%s) the session sends as 49=%s 56=%s; it logged on as 49=%s 56=%s", sy.Name, fixref.GetS(probe.Outs[0].Fields, rig.TSender), fixref.GetS(probe.Outs[0].Fields, rig.TTarget), idSender, idTarget), k)
					}
					if len(probe.Outs) != 1 || probe.Outs[0].Type != "0" || fixref.GetS(probe.Outs[0].Fields, rig.TTestReqID) != "probe"+seq {
						viol("C06/logon-while-logged-disturbed-session", "after a rejected further Logon a TestRequest was answered with "+types(probe.Outs), k)
					}
					c.Count("probes_after_logon_while_logged", 1)
				}
			case cfg.role == rig.Initiator && state == W:
				if acceptable {
					if !res.Logged {
						viol("C06/initiator-not-logged-after-logon", "IsLogged false after a well-formed Logon came back", k)
					} else {
						state = L
					}
					if n := countEv(res.Events, utils.EventLogon); n != 1 {
						viol("C06/logon-event-count", fmt.Sprintf("EventLogon fired %d times at a successful logon", n), k)
					}
				} else {
					if res.Logged {
						viol("C06/logged-after-refused-logon/"+sy.Name, "initiator logged on by a damaged Logon", k)
					}
					rej := rejects(res.Outs)
					if len(rej) != 1 || len(res.Outs) != 1 {
						viol("C06/refused-logon-not-rejected-once/"+sy.Name, "damaged Logon answered with "+types(res.Outs)+", want exactly one Reject", k)
					} else if fixref.GetS(rej[0].Fields, rig.TRefSeq) != seq {
						viol("C06/reject-wrong-refseqnum/"+sy.Name, fmt.Sprintf("Reject has 45=%q, the Logon's sequence number is %s", fixref.GetS(rej[0].Fields, rig.TRefSeq), seq), k)
					}
				}
			case state == U:
				if res.Logged {
					state = L
				}
			}
		} else if !sy.Local {
			// non-Logon inbound
			if sy.Type == "5" {
				if state == L || state == U {
					// peer Logout ends the logged-on phase (C15 judges the reply); afterwards the session waits again
					if !res.Logged {
						state = W
					}
				}
			}
			if state == W && res.Logged {
				// already reported by the rising-edge clause
				state = L
			}
			if state == L && !res.Logged && sy.Type != "5" {
				viol("C06/session-disturbed-by-"+sy.Name, "IsLogged turned false at a step that is neither a Logout nor a local action; emitted "+types(res.Outs), k)
				state = U
			}
		}
		c.SetAdd("automaton_states", cfg.role.String()+"/"+[]string{"W", "L", "U"}[state])
		c.SetAdd("automaton_transitions", cfg.role.String()+"/"+from+"-"+sy.Name+"->"+[]string{"W", "L", "U"}[state])
		prevLogged = res.Logged
	}
	if tooSlow || r.Elapsed() > 3*time.Second {
		lastTrouble.Store(fmt.Sprintf("history took %v (timers may have fired): %s", r.Elapsed(), desc))
		return false
	}
	c.Eval(vk.Hash64([]byte(desc)), reachedDecision)
	c.Count("histories_len_"+strconv.Itoa(len(hist)), 1)
	if c.WantSample() && reachedDecision && len(hist) >= 3 && idx%577 == 0 {
		c.Sample(desc)
	}
	return true
}

func rejects(outs []rig.Out) []rig.Out {
	var r []rig.Out
	for _, o := range outs {
		if o.Type == "3" {
			r = append(r, o)
		}
	}
	return r
}

func main() {
	c := vk.Init("C06")
	c.Rule(fmt.Sprintf("histories over an alphabet of %d symbols (3 good Logons at mid/min/max interval, 7 refused or damaged Logons, Heartbeat, TestRequest, 2 ResendRequests, Logout, application and unknown types, local Send, local Logout), both roles: EXHAUSTIVE over all histories up to length 3, in the thorough tier plus 300 000 seeded histories of length 4, plus seeded random histories up to length 14 with varied heartbeat limits (every fifth: Min = Max), plus, for limits that admit intervals no timer can run with (0, negative, beyond time.Duration), Logons carrying such intervals: the outcome must be ONE decision (Logon reply first + logged on + one event + no Reject, or one Reject + not logged on + no event) and the next TestRequest is served accordingly; plus initiating sessions whose acceptor answers with another interval, logged out by the peer and logged on again by LogonRequest: the second Logon carries the configured interval, method and credentials like the first; plus real-time histories (N=1) in which the timers of an ended logon expire after a Logout before the next inbound message. Oracle: reference logon automaton transcribed from the statement, run against IsLogged / EventLogon / messages on Outgoing() after every step. distinct = distinct (role, limits, symbol sequence); non-trivial = the history contains a Logon decision", len(alpha)))
	c.Assume("step driver: unbuffered handler, barrier handlers registered after Session.Run, so outputs are attributed to steps exactly; heartbeat intervals >= 5 s and histories finish in milliseconds, so no timer fires inside a history (histories slower than 4 s are inconclusive)")
	// The alphabet has grown to 38 symbols: all histories of length 4 (2 x 2 million sessions, each leaving its timer
	// goroutines behind for some seconds) no longer fit into memory (the thorough run of wave 12 was killed at 65 GB).
	// Exhaustive up to length 3 in both tiers; the thorough tier adds a seeded sample of length-4 histories.
	maxLen := 3
	nLen4 := c.Pick(0, 300000)
	nRandom := c.Pick(1500, 40000)
	type job struct {
		cfg  cfgT
		hist []int
	}
	var jobs []job
	for _, role := range []rig.Role{rig.Acceptor, rig.Initiator} {
		cfg := cfgT{role: role, lim: [2]int{5, 9}, hb: 5} // small intervals: the timer goroutines of a finished history linger for N+1 s
		for l := 1; l <= maxLen; l++ {
			idx := make([]int, l)
			for {
				jobs = append(jobs, job{cfg, append([]int(nil), idx...)})
				k := l - 1
				for k >= 0 {
					idx[k]++
					if idx[k] < len(alpha) {
						break
					}
					idx[k] = 0
					k--
				}
				if k < 0 {
					break
				}
			}
		}
	}
	exhaustiveN := len(jobs)
	for i := 0; i < nLen4; i++ {
		r := c.Rand("c06-len4", int64(i))
		cfg := cfgT{role: rig.Role(i % 2), lim: [2]int{5, 9}, hb: 5}
		h := make([]int, 4)
		for k := range h {
			h[k] = r.Intn(len(alpha))
		}
		jobs = append(jobs, job{cfg, h})
	}
	c.Set("sampled_histories_of_length_4", nLen4)
	for i := 0; i < nRandom; i++ {
		r := c.Rand("c06-random", int64(i))
		lo := 5 + r.Intn(20)
		cfg := cfgT{role: rig.Role(r.Intn(2)), lim: [2]int{lo, lo + r.Intn(40)}, hb: 5 + r.Intn(50)}
		if i%5 == 0 {
			cfg.lim[1] = cfg.lim[0] // limits that allow exactly one interval
		}
		h := make([]int, 4+r.Intn(11))
		for k := range h {
			h[k] = r.Intn(len(alpha))
			if r.Intn(4) == 0 {
				h[k] = r.Intn(3) // good logons more often, so that long logged-on phases occur
			}
		}
		jobs = append(jobs, job{cfg, h})
	}
	c.Set("exhaustive_histories", exhaustiveN)
	c.Set("exhaustive_max_length", maxLen)
	c.Set("random_histories", nRandom)
	// bounded parallelism: each logged-on history leaves two timer goroutines sleeping for up to N seconds
	var rmu sync.Mutex
	var redo []int
	// in portions of 80 000 histories: the timer goroutines of a finished history (and everything they hold on to)
	// live on until the session has given up its silent peer, two periods of N+1 <= 10 s later; a pause between the
	// portions lets them go, so that memory stays at a few GB (the quick tier is a single portion)
	const portion = 80000
	for from := 0; from < len(jobs); from += portion {
		to := from + portion
		if to > len(jobs) {
			to = len(jobs)
		}
		vk.Parallel(to-from, runtime.NumCPU(), func(k int) {
			i := from + k
			if !runHistory(c, jobs[i].cfg, jobs[i].hist, int64(i)) {
				rmu.Lock()
				redo = append(redo, i)
				rmu.Unlock()
			}
		})
		if to < len(jobs) {
			time.Sleep(21 * time.Second)
			debug.FreeOSMemory()
		}
	}
	// histories that decided nothing because the machine was overloaded are run again, one at a time, when everything else is over
	if len(redo) > 0 {
		time.Sleep(2 * time.Second)
	}
	for _, i := range redo {
		c.Count("histories_rerun_alone", 1)
		ok := false
		for attempt := 0; attempt < 3 && !ok; attempt++ {
			ok = runHistory(c, jobs[i].cfg, jobs[i].hist, int64(i))
		}
		if !ok {
			why, _ := lastTrouble.Load().(string)
			c.Inconclusive("history decided nothing in 4 attempts: " + why)
		}
	}
	// real-time histories: timers armed by an earlier logon keep running after a Logout; whatever they do,
	// the session must not report itself logged on again without a new Logon
	nrt := c.Pick(4, 16)
	var wg sync.WaitGroup
	for i := 0; i < nrt; i++ {
		wg.Add(1)
		go func(i int) {
			defer wg.Done()
			role := rig.Role(i % 2)
			closer := []string{"Heartbeat", "App", "TestRequest", "Unknown"}[(i/2)%4]
			desc := fmt.Sprintf("%s N=1: LogonGood > Logout > 2.6 s of silence (timers from the ended logon expire) > %s", role, closer)
			r, err := rig.NewStepRig(rig.StepCfg{Role: role, HeartBtInt: 1, Limits: &session.IntLimits{Min: 1, Max: 60}, Username: "me", Password: "secret",
				OnLogon: func(ls *session.LogonSettings) error {
					if !rig.Approve(ls.Username, ls.Password) {
						return errors.New("refused")
					}
					return nil
				}})
			if err != nil {
				c.Inconclusive("rig: " + err.Error())
				return
			}
			defer r.Close()
			p := rig.NewPeer()
			if res := r.Inbound(p.Logon(1, "0", fixref.F(rig.TUser, "user"), fixref.F(rig.TPass, "pw"))); !res.Logged {
				c.Inconclusive("no logon in " + desc)
				return
			}
			res := r.Inbound(p.Logout())
			if res.Logged {
				return // C15's matter
			}
			time.Sleep(2600 * time.Millisecond)
			if r.S.IsLogged() {
				c.Violate("C06/logged-on-without-valid-logon/"+role.String()+"/after-logout-by-timer", desc+": IsLogged became true during the silence after the Logout", map[string]interface{}{"history": desc})
				return
			}
			var msg []byte
			switch closer {
			case "Heartbeat":
				msg = p.Heartbeat()
			case "App":
				msg = p.App("x")
			case "TestRequest":
				msg = p.TestRequest("t")
			default:
				msg = p.Msg("ZZ", fixref.F("58", "x"))
			}
			res = r.Inbound(msg)
			c.Eval(vk.Hash64([]byte(desc)), true)
			c.Count("realtime_histories", 1)
			if res.Logged {
				c.Violate("C06/logged-on-without-valid-logon/"+role.String()+"/after-logout-timer-expiry", desc+": IsLogged is true after a "+closer+" although no Logon followed the Logout; emitted "+types(res.Outs), map[string]interface{}{"history": desc})
			}
		}(i)
	}
	wg.Wait()
	unrunnableIntervals(c)
	initiatorRelogon(c)
	failedLocalLogout(c)
	c.Finish()
}
