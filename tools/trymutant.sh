#!/bin/sh
# usage: tools/trymutant.sh <patch.diff> <ID> [<ID>...]   — applies the patch to /repo, runs the quick checks, reverts.
set -u
PATCH=$1; shift
cd /repo || exit 2
if [ -n "$(git status --porcelain)" ]; then echo "/repo is not clean"; exit 2; fi
git apply "$PATCH" || { echo "patch does not apply"; exit 2; }
trap "git -C /repo checkout -- . ; git -C /repo clean -fdq; git -C /verif checkout -- evidence" EXIT INT TERM  # evidence written against a seeded change must never be committed
export GOFLAGS=-mod=mod GOPROXY=off GOSUMDB=off GOTOOLCHAIN=local
go build ./... || { echo "MUTANT DOES NOT BUILD"; exit 2; }
for id in "$@"; do
  tier=quick
  case "$id" in *:thorough) tier=thorough; id=${id%:thorough};; esac
  out=$(cd /verif && ./check "$id" $tier 2>&1)
  code=$?
  echo "== $id $tier exit=$code"
  echo "$out" | grep -E "^VIOLATION|^  key=|verdict=|^INCONCLUSIVE" | cut -c1-260 | head -12
done
