#!/usr/bin/env python3
"""usage: save_mutant.py <seed dir name> <src out dir> <demo placement> <demo run> <caught_by (comma list or 'none')> <notes>"""
import json, os, shutil, sys
name, src, place, run, caught, notes = sys.argv[1:7]
dst = os.path.join('/verif/seeded', name)
os.makedirs(dst, exist_ok=True)
shutil.copy(os.path.join(src, 'patch.diff'), os.path.join(dst, 'patch.diff'))
for f in os.listdir(src):
    if f.startswith('demo') or f.endswith('_test.go') or f.endswith('.go'):
        shutil.copy(os.path.join(src, f), os.path.join(dst, f + ('.txt' if f.endswith('.go') else '')))
agent = {}
try:
    agent = json.load(open(os.path.join(src, 'meta.json')))
except Exception as e:
    agent = {'note': 'agent meta.json unreadable: %s' % e}
meta = {
    'property': agent.get('property', name.split('-')[0]),
    'summary': agent.get('summary'),
    'needs_to_manifest': agent.get('needs'),
    'files_changed': agent.get('files_changed'),
    'origin': 'written by an independent sub-agent that saw only the property text and a scratch worktree (nothing from /verif)',
    'demonstration': {'file': 'demo_test.go.txt (rename to zz_demo_test.go)', 'copy_into': place, 'run': run,
                      'confirmed_by_me': 'in a scratch worktree: builds; existing suite passes with the change; demonstration FAILS with the change and PASSES without it (tools/confirm_mutant.sh)'},
    'checks_run_against_it': 'git -C /repo apply patch.diff; ./check <id> quick; git -C /repo checkout -- .  (tools/trymutant.sh)',
    'caught_by': [] if caught == 'none' else caught.split(','),
    'notes': notes,
}
json.dump(meta, open(os.path.join(dst, 'meta.json'), 'w'), indent=1)
print('saved', dst)
