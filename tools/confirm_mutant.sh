#!/bin/sh
# usage: confirm_mutant.sh <worktree> <patch.diff> <demo_test.go> <package dir rel> <-run regex>
# Confirms in the scratch worktree: demo fails with the change, passes without, suite passes with the change.
WT=$1; PATCH=$2; DEMO=$3; PKG=$4; RUN=$5
export GOFLAGS=-mod=mod GOPROXY=off GOSUMDB=off GOTOOLCHAIN=local
cd "$WT" || exit 2
git checkout -q -- . ; git clean -fdq
git apply "$PATCH" || { echo "PATCH DOES NOT APPLY"; exit 2; }
go build ./... || { echo "DOES NOT BUILD"; exit 2; }
echo "--- suite with the change"
go test -vet=off -count=1 ./... 2>&1 | grep -v "no test files" | grep -v "^ok" | head -20
cp "$DEMO" "$PKG/zz_demo_test.go"
echo "--- demo WITH the change (expect FAIL)"
go test -vet=off -count=1 -run "$RUN" "./$PKG/" 2>&1 | tail -4
git apply -R "$PATCH"
echo "--- demo WITHOUT the change (expect ok)"
go test -vet=off -count=1 -run "$RUN" "./$PKG/" 2>&1 | tail -3
rm -f "$PKG/zz_demo_test.go"
git checkout -q -- . ; git clean -fdq
