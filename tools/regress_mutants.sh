#!/bin/sh
# Re-runs every seeded change against the first check that is recorded as catching it; prints one line per change.
cd /verif || exit 2
for d in seeded/*/; do
  name=$(basename "$d")
  id=$(python3 -c "import json,sys; m=json.load(open('$d/meta.json')); print(m['caught_by'][0] if m['caught_by'] else '')")
  [ -z "$id" ] && { echo "$name: no check recorded"; continue; }
  if [ -n "$(git -C /repo status --porcelain)" ]; then echo "/repo not clean, abort"; exit 2; fi
  if ! git -C /repo apply "/verif/$d/patch.diff" 2>/dev/null; then echo "$name: PATCH DOES NOT APPLY"; continue; fi
  ./check "$id" quick > /tmp/regress.out 2>&1
  code=$?
  git -C /repo checkout -- . ; git -C /repo clean -fdq; git -C /verif checkout -- evidence
  keys=$(grep -c "^VIOLATION" /tmp/regress.out)
  echo "$name: $id exit=$code violations=$keys"
done
