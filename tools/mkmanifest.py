#!/usr/bin/env python3
"""Regenerates /verif/MANIFEST.json from the table below (one place to edit)."""
import json, os, subprocess, sys

ROOT = os.path.dirname(os.path.dirname(os.path.abspath(__file__)))

# id -> (level, technique, level text, level note, design section)
CHECKS = {
 "C01": ("exploration", "runtime monitor: independent framing oracle (fixref.CheckFrame) over bytes emitted by the real serializer under a steered generator",
         "Every message produced in the run (random templates/populations/values, steered onto every BodyLength digit boundary and all 256 checksum residues, all 8 header/body/trailer emptiness combinations, every tests/fix44 type, an exhaustive 0..1200 byte length sweep) was re-measured by an independent frame validator. Held on the executions listed in the evidence; not a proof over all templates.",
         "Trusted base: harness/fixref (FIX framing written from the protocol definition, self-tested on a public sample vector at every run) and the generator's enforcement of 'no SOH in a value'.", "DESIGN.md §3 C01"),
 "C17": ("exploration", "runtime monitor: expected field list computed from the population spec vs. tokenized wire bytes",
         "For every generated message the harness computes, from its own population spec, the exact ordered list of tag=value fields that must be on the wire (all 7 value types x 5 constructor/setter paths, header/body/trailer, Set(nil) un-population, group counts) and compares it with the independently tokenized output of the real serializer. Held on the executions listed; sampled, not exhaustive.",
         "Trusted base: fixref tokenizer, the harness's canonical-text rules (any plain decimal that parses back exactly is accepted for floats).", "DESIGN.md §3 C17"),
 "C02": ("exploration", "runtime monitor: round-trip oracle (population spec vs. parsed tree, then byte equality) over the real serializer and parser",
         "Every generated message (random templates with nested groups/components, tags related by decimal suffix/prefix, decoy strings, all 7 value types also inside group entries; every tests/fix44 type) is serialized by the library, parsed strict and non-strict into an empty message of the same template, compared leaf by leaf with the harness's own population spec (Go type and value), re-serialized and compared byte for byte. Sampled, not exhaustive.",
         "Trusted base: the population spec and comparison code in harness/gen; the statement's preconditions (one position per tag, first entry field populated, no empty values) are enforced by the generator.", "DESIGN.md §3 C02"),
 "C03": ("exploration", "runtime monitor: accepted => independently valid frame, over the complete single-edit neighbourhood of each base message",
         "For every base message the complete neighbourhood (all 255*len substitutions, 256*(len-1) insertions, len deletions, len-1 prefixes) is parsed in both modes; any accepted variant that the independent frame validator rejects is a violation. Exhaustive per base message, sampled over base messages.",
         "Trusted base: fixref.CheckFrame. A zero byte inserted into the BeginString value is framing-neutral (neither integrity field can see it) and is counted, not judged.", "DESIGN.md §3 C03"),
 "C11": ("exploration", "runtime monitor: panic/hang/over-read monitor around the real decoder under hostile generated inputs and go test -fuzz",
         "Hostile inputs (all strings of length <=3 over a 7-symbol alphabet, frame-fixed field soups built from each template's own tags incl. nested group junk, mutations of valid output, coverage-guided fuzzing) are fed to Unmarshal (strict/non-strict, every fix44 type and nested-group templates) and ValueByTag under recover, as exact-capacity slices and embedded in a larger adversarial buffer (results must agree); a hang watchdog with starvation canary; a dying child is a violation.",
         "Trusted base: Go's bounds checking (every out-of-range slice is a panic once capacity equals length), recover(), the watchdog. Input space is unbounded: held on the inputs listed in the evidence.", "DESIGN.md §3 C11"),
 "C18": ("exploration", "runtime monitor: decoy-insensitivity oracle over messages built by the reference encoder",
         "For a tag t in 8 roles x 6 decoy placements x genuine present/absent, messages containing 't=' inside other values and fields whose tag has t as a proper decimal suffix/prefix are built by the reference encoder, parsed (both modes) into the library template and queried with ValueByTag for every tag; results must equal what the construction says.",
         "Trusted base: fixref encoder/tokenizer and the construction-derived expectation. Connection framing and session-level extraction are covered by the C04/C16 workloads.", "DESIGN.md §3 C18"),
 "C06": ("exploration", "runtime monitor: reference logon automaton (from the statement) checked against IsLogged / EventLogon / Outgoing() after every step of a real session",
         "All histories up to length 3 (quick) / 4 (thorough) over a 19-symbol alphabet (3 acceptable Logons at mid/min/max interval, 7 refused or damaged ones, other admin/app/unknown messages, local Send/Logout) are driven through a real DefaultHandler+Session of either role, plus long random histories with varied limits; after every step the monitor compares logged-on state, logon event and emitted messages with the automaton the statement describes. Exhaustive for the bounded alphabet and length only.",
         "Step driver: unbuffered handler + barrier handlers registered after Session.Run give exact step attribution; states the statement is silent about (logout answer pending) are not judged.", "DESIGN.md §4 C06"),
 "C07": ("exploration", "runtime monitor: message-type filter on everything emitted before the first successful logon, with empty and preloaded stores, plus real-time idle sessions",
         "Exhaustive histories (length <=2 quick / <=3 thorough) without an acceptable Logon, ResendRequests over 8 range shapes, both roles, empty store and a store preloaded through the public API with an earlier session's messages; every message on Outgoing() must be Logon, Logout or Reject. Idle real-time sessions (2.6 s) catch timers started before logon.",
         "The application itself sends nothing before logon. Trusted base: step driver and reference tokenizer.", "DESIGN.md §4 C07"),
 "C10": ("exploration", "runtime monitor: first transmissions recorded from Outgoing() compared byte-for-byte with what each ResendRequest draws; interval check for concurrent senders",
         "For K<=6 (quick) / 8 (thorough) outbound messages of mixed origin, every (b,e) in [0,K+2]^2 is requested on a fresh session of either role, plus random sessions up to 200 messages with repeated/overlapping requests, all (expected,received) Logon sequence pairs in [1,7]x[1,8], and requests fed while 3 goroutines send. Exhaustive over the bounded ranges only.",
         "Precondition of the statement (no refusal, no store failure) is kept. The reused-message-object class is a recorded known finding.", "DESIGN.md §4 C10"),
 "C14": ("exploration", "runtime monitor: per-step output check (exactly one Heartbeat, byte-equal TestReqID) on a real session",
         "TestReqIDs covering every single byte value except SOH, 40 decoys, lengths to 10000 and random strings are injected at varied positions of logged-on histories of both roles; the step's output must be exactly one Heartbeat whose 112 equals the ID byte for byte.",
         "Step attribution (unbuffered handler + barrier) makes 'before any later reply' a per-step check.", "DESIGN.md §4 C14"),
 "C15": ("exploration", "runtime monitor: Logout count / IsLogged / EventLogout per step and bounded-latency monitor on Context().Done()",
         "Scenario matrix role x {peer logout, local logout then answer, Stop answered, Stop unanswered} x close timeouts x positions x application handler present; cancellation must follow the answer within 250 ms (+3x measured jitter; deadlines are >= 2 s there) and the deadline within closeTimeout+300 ms.",
         "Wall clock only for the two bounds the statement names; a jitter canary makes overloaded runs inconclusive.", "DESIGN.md §4 C15"),
 "C16": ("exploration", "runtime monitor: one-Reject / unchanged-state / still-serving oracle over a damage matrix on a real session",
         "Matrix admin type x 8 kinds of damage or wrong state x session state x role x position, each followed by valid traffic; the offending step must emit exactly one Reject with 45 = offending 34 (or 371=34), leave IsLogged/context/handler untouched, and the next valid message must have its normal effect.",
         "Tag 35 is never damaged (the message must stay identifiable as administrative).", "DESIGN.md §4 C16"),
 "C19": ("fault_enumeration", "runtime monitor: offline checker over one call log (instrumented store + handlers) against wire output, with injected Save failures and handler refusals",
         "Random handler layouts (ALL/type, three registration phases, refusal on the k-th call), EventLogon handler chains and a store failing on the k-th Save are exercised by sends, replies and rejects; for every step the logged call chain must be the registration-order prefix up to the first refusal, and a message is on Outgoing() iff the chain completed, saved before under its own 34, with Send's error result matching.",
         "Fault space sampled (k-th save, k-th invocation), not exhausted. What type handlers do after an incoming ALL refusal is not judged.", "DESIGN.md §4 C19"),
 "C04": ("exploration", "runtime monitor: exactly-once / in-order / byte-identical delivery checker per connection over the real Conn/Initiator/Acceptor on a scripted transport",
         "Random message sequences are cut into read chunks by 13 strategies (incl. a boundary at every offset of every trailing CheckSum field, one byte per read, coalescing) with varied timing and buffer sizes, delivered through an Initiator with a recording handler (asserting one ServeIncoming at a time), an Initiator with DefaultHandler callbacks and an Acceptor with up to 8 simultaneous connections; outbound hand-offs from up to 4 goroutines are compared with the peer-side capture split by the reference splitter.",
         "Trusted base: wire.Conn (scripted net.Conn) and fixref.SplitStream. Outbound order for SendRaw is judged per goroutine only (no observable global hand-off order).", "DESIGN.md §5 C04"),
 "C05": ("exploration", "runtime monitor: wire sequence monitor on the peer-side capture plus porcupine counter model over Send operations, under injected store/handler delays",
         "Full-stack sessions of both roles with 1..16 concurrent senders, timers expiring (N=1), replies and rejects from the inbound path, delay-injecting store decorator, buffer sizes 0/1/10 and GOMAXPROCS 16/1/2 (one per shard); the captured stream must carry 34=c0+1.. without gap/duplicate/inversion, correct comp ids, a SendingTime that parses, never goes backwards, is not later than the write and lies within its Send call; the numbers returned to concurrent Send calls must be linearizable as a counter (porcupine).",
         "Interleavings are sampled (distinct source-kind signatures are counted in the evidence), not enumerated. Wall-clock tolerance 2 ms for SendingTime.", "DESIGN.md §5 C05"),
 "C08": ("exploration", "runtime monitor: gap monitor on write timestamps at the peer end with a scheduler-jitter canary",
         "Sessions of both roles with N in {1,2,3} (+{5,20} thorough) and six application send patterns placed relative to the previous outbound message; every outbound gap must stay within N+N/10+slack and no unsolicited Heartbeat may come sooner than N after the previous outbound message.",
         "Real time: slack = 100 ms + 3 x measured oversleep; runs with > 250 ms oversleep are inconclusive.", "DESIGN.md §5 C08"),
 "C09": ("exploration", "runtime monitor: deadline-window monitor on TestRequest / disconnect / close, both sides of each deadline, with jitter canary",
         "Both roles, N in {1,2} (+{5,20,40}), inbound patterns: total silence, silence ending just before the deadline, a message of any type 2/10/50/85% into the second period, steady traffic for 12 periods; checks TestRequest and disconnect windows (not before T, not after T+T/10+slack), the three disconnect effects, and that live peers see neither.",
         "Real time with calibrated slack; the reference instant of an inbound message is the moment it was handed to the scripted connection.", "DESIGN.md §5 C09"),
 "C13": ("fault_enumeration", "runtime monitor: fault matrix on the scripted transport with return/close/notification/bounded-Send checks and a pprof-labelled goroutine-profile leak monitor",
         "role x 7 termination causes x 7 phases (incl. bursts with pending hand-offs and a steady inbound stream) x buffers x cut positions x timing offsets; after the settling bound the serving call must have returned, the socket be closed, the application notified for peer-caused ends, a later Send return within 3 s, senders be released, and two goroutine profiles 1 s apart must show no library-started goroutine carrying the scenario's label.",
         "Quick covers every (role,cause,phase) once; thorough the full matrix. Settling bound 5.2 s (N=1). Session.Stop is not a way a connection ends (see DESIGN) and is not in the matrix.", "DESIGN.md §5 C13"),
 "C20": ("exploration", "Go race detector (-race build of the full-stack workload), reports filtered to library frames and de-duplicated",
         "16 sessions per process x 3 (quick) / 20 (thorough) repetitions: concurrent senders, timed inbound scripts swept in 20 ms steps across both timer expiries, resend requests, peer re-logon storms, registrations and state queries in their own phases, Session.Stop, on a transport whose directions share no synchronisation. Any DATA RACE block with library frames in both stacks is a violation.",
         "The detector judges only executed, unordered pairs within its history window; evidence lists timer expiries seen and overlapping activity-kind pairs as a coverage proxy.", "DESIGN.md §5 C20"),
 "C12": ("translation_validation", "translation validation by execution: fixgen (built from the working tree) run on shipped and mutated schemas; emitted package compiled, read back with go/parser and exercised by an XML-derived driver",
         "Each accepted schema goes through three stages (compile; every constant / constructor signature / accessor signature and item index / member list compared with the harness's own XML and type-mapping reader; behavioural driver generated from the XML executed against the compiled package), plus regeneration determinism, output-directory independence (relative, nested, absolute), rejection of duplicate numbers/msgtypes and the shipped tests/fix44 package vs fresh generation as declaration multisets.",
         "Sampled schemas (2 shipped + 10 derived quick / 150 thorough), not all schemas. Trusted base: harness XML reader, go/parser, the driver.", "DESIGN.md §3 C12"),
}

NOT_YET = {}

ALL = ["C%02d" % i for i in range(1, 21)]


def main():
    hooks_commits = []
    man = {
        "version": 1,
        "setup_cmd": "./check --setup",
        "hooks": {
            "guard": "verif",
            "enable": "go build -tags verif (the harness module replaces github.com/b2broker/simplefix-go with /repo; every check rebuilds its workload from the working tree)",
            "baseline_off_cmd": "cd /repo && GOFLAGS=-mod=mod GOPROXY=off GOSUMDB=off go test -vet=off -count=1 -timeout 25m ./...",
            "source_commits": hooks_commits,
            "add_only": True,
        },
        "engines": [
            {"name": "verifharness", "path": "harness", "serves_properties": sorted(CHECKS),
             "kind_free_text": "Go module: workloads (props/*) run the real library from /repo under generated/hostile/stress inputs; monitors (fixref oracle, step driver, scripted net.Conn, goroutine-profile leak monitor, race-log parser, porcupine) judge what was observed; cmd/check orchestrates child processes, classifies against KNOWN_FINDINGS.txt and writes evidence"},
        ],
        "checks": [],
        "not_applicable": [],
        "notes": "Runtime monitoring only. Exit 0 = held on what was observed (known findings printed as KNOWN-FINDING lines); exit 1 = VIOLATION line; exit 2 = INCONCLUSIVE (never folded into the others). VERIF_SEED selects the PRNG seed; all case lists are count-bounded functions of the seed.",
    }
    for pid in ALL:
        if pid in CHECKS:
            level, tech, text, note, ref = CHECKS[pid]
            man["checks"].append({
                "property_id": pid,
                "quick_cmd": "./check %s quick" % pid,
                "thorough_cmd": "./check %s thorough" % pid,
                "evidence_file": "evidence/%s.json" % pid,
                "replay_cmd_template": "./check %s quick --replay {path}" % pid,
                "engine": "verifharness",
                "level_claimed": {"category": level, "text": text, "design_ref": ref},
                "level_note": note,
                "technique": tech,
            })
        else:
            man["not_applicable"].append({"property_id": pid, "reason": NOT_YET.get(pid, "check not built yet (work in progress; runtime monitoring applies, see DESIGN.md)")})
    with open(os.path.join(ROOT, "MANIFEST.json"), "w") as f:
        json.dump(man, f, indent=1)
        f.write("\n")
    # validate
    try:
        import jsonschema
        schema = json.load(open("/root/.vp/MANIFEST.schema.json"))
        jsonschema.validate(man, schema)
        print("MANIFEST.json valid;", len(man["checks"]), "checks,", len(man["not_applicable"]), "not claimed")
    except ImportError:
        print("jsonschema not importable here; wrote MANIFEST.json unvalidated")


if __name__ == "__main__":
    main()
