#!/usr/bin/env python3
import json,sys,glob,jsonschema
schema=json.load(open('/root/.vp/EVIDENCE.schema.json'))
for f in sorted(glob.glob('/verif/evidence/*.json')):
    try:
        jsonschema.validate(json.load(open(f)),schema); print(f,'ok')
    except Exception as e:
        print(f,'INVALID',str(e)[:300])
